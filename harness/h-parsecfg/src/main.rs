//! Correspondence harness for C20: `anstyle-parse` built with one of its feature
//! sets (see Cargo.toml); the same source is compiled once per set.
//!
//! usage: hparsecfg <case-file> <out-file>
//! Case kinds:
//!   c02 <hex>            callback trace of `Parser::advance` (as hcore)
//!   pc <label> <hex>     the same, `label` must name the feature set of this build
//!   pclabel              the feature set of this build
//! A panic inside a case is the result `PANIC`.

use anstyle_parse::{Params, Parser, Perform};
use std::fmt::Write as _;
use std::io::{BufRead, Write};
use std::panic::{catch_unwind, AssertUnwindSafe};

pub fn unhex(s: &str) -> Vec<u8> {
    if s == "-" {
        return Vec::new();
    }
    let b = s.as_bytes();
    assert!(b.len() % 2 == 0, "odd hex");
    (0..b.len() / 2)
        .map(|i| u8::from_str_radix(&s[2 * i..2 * i + 2], 16).expect("hex"))
        .collect()
}

pub fn hex(b: &[u8]) -> String {
    let mut s = String::with_capacity(b.len() * 2);
    for x in b {
        let _ = write!(s, "{x:02x}");
    }
    s
}

/// the feature set this binary was built with
fn label() -> &'static str {
    if cfg!(feature = "default-parse") {
        if cfg!(feature = "core") || cfg!(feature = "utf8") {
            "mixed"
        } else {
            "default"
        }
    } else if cfg!(feature = "core") && cfg!(feature = "utf8") {
        "core-utf8"
    } else if cfg!(feature = "core") {
        "core"
    } else if cfg!(feature = "utf8") {
        "utf8"
    } else {
        "none"
    }
}

// ---- recording Perform (copy of harness/h-core/src/c02.rs) -------------------

#[derive(Default)]
pub struct Rec {
    pub out: String,
    pub n: usize,
}

fn params(p: &Params) -> String {
    let groups: Vec<String> = p
        .iter()
        .map(|g| g.iter().map(|v| v.to_string()).collect::<Vec<_>>().join(","))
        .collect();
    format!("{}:{}", groups.len(), groups.join(";"))
}

fn ints(i: &[u8]) -> String {
    format!("{}:{}", i.len(), hex(i))
}

impl Rec {
    fn sep(&mut self) {
        if self.n > 0 {
            self.out.push(' ');
        }
        self.n += 1;
    }
}

impl Perform for Rec {
    fn print(&mut self, c: char) {
        self.sep();
        let _ = write!(self.out, "p:{}", c as u32);
    }
    fn execute(&mut self, byte: u8) {
        self.sep();
        let _ = write!(self.out, "x:{byte}");
    }
    fn hook(&mut self, p: &Params, i: &[u8], ignore: bool, action: u8) {
        self.sep();
        let _ = write!(self.out, "h:{}:{}:{}:{}", params(p), ints(i), ignore as u8, action);
    }
    fn put(&mut self, byte: u8) {
        self.sep();
        let _ = write!(self.out, "u:{byte}");
    }
    fn unhook(&mut self) {
        self.sep();
        self.out.push('U');
    }
    fn osc_dispatch(&mut self, p: &[&[u8]], bell: bool) {
        self.sep();
        let f: Vec<String> = p.iter().map(|s| hex(s)).collect();
        let _ = write!(self.out, "o:{}:{}:{}", p.len(), f.join(","), bell as u8);
    }
    fn csi_dispatch(&mut self, p: &Params, i: &[u8], ignore: bool, action: u8) {
        self.sep();
        let _ = write!(self.out, "c:{}:{}:{}:{}", params(p), ints(i), ignore as u8, action);
    }
    fn esc_dispatch(&mut self, i: &[u8], ignore: bool, byte: u8) {
        self.sep();
        let _ = write!(self.out, "e:{}:{}:{}", ints(i), ignore as u8, byte);
    }
}

/// `DefaultCharAccumulator` is the crate's own choice for this feature set:
/// `Utf8Parser` with `utf8`, `AsciiParser` without.
pub fn events(hexs: &str) -> String {
    let bytes = unhex(hexs);
    let mut parser = Parser::<anstyle_parse::DefaultCharAccumulator>::new();
    let mut rec = Rec::default();
    // a parser is a value in every feature configuration: at input-dependent positions the run goes on with a clone
    let h = bytes.iter().fold(5usize, |a, b| a.wrapping_mul(33).wrapping_add(*b as usize));
    let every = [0usize, 1, 3, 7][h % 4];
    for (i, b) in bytes.into_iter().enumerate() {
        if every != 0 && (i + h / 4) % every == 0 {
            let copy = parser.clone();
            assert!(copy == parser, "Clone / PartialEq for Parser");
            parser = copy;
        }
        parser.advance(&mut rec, b);
    }
    rec.out
}

fn run_case(line: &str) -> String {
    let mut it = line.split(' ');
    let kind = it.next().unwrap_or("");
    let f: Vec<&str> = it.collect();
    match kind {
        "c02" => events(f[0]),
        "pc" => {
            if f[0] != label() {
                format!("WRONG-BUILD {} (this is {})", f[0], label())
            } else {
                events(f[1])
            }
        }
        "pclabel" => label().to_owned(),
        _ => format!("UNKNOWN-KIND {kind}"),
    }
}

fn main() {
    let args: Vec<String> = std::env::args().collect();
    if args.len() != 3 {
        eprintln!("usage: hparsecfg <case-file> <out-file>");
        std::process::exit(2);
    }
    std::panic::set_hook(Box::new(|_| {}));
    let input = std::io::BufReader::new(std::fs::File::open(&args[1]).expect("open cases"));
    let mut out = std::io::BufWriter::new(std::fs::File::create(&args[2]).expect("create out"));
    for line in input.lines() {
        let line = line.expect("read");
        if line.is_empty() {
            continue;
        }
        let mut r = catch_unwind(AssertUnwindSafe(|| run_case(&line))).unwrap_or_else(|_| "PANIC".to_owned());
        if r.is_empty() {
            r.push('-');
        }
        writeln!(out, "{r}").expect("write");
    }
    out.flush().expect("flush");
}
