//! C14: the third-party crate `unicode-width` by itself (the version Cargo.lock pins; anstyle-svg's width
//! attribute and background fills are computed with it).
//!
//! Case kinds:
//!   uwidth  <text hex, must be UTF-8>   -> `UnicodeWidthStr::width(text)`, decimal
//!   uwchars <lo> <count>                -> `UnicodeWidthChar::width(c)` for the `count` code points from `lo`:
//!            one character per code point: the width digit, `-` for None (a control character), `s` for a
//!            number that is no char (a surrogate, or above U+10FFFF)
use crate::{unhex, Answer};
use unicode_width::{UnicodeWidthChar, UnicodeWidthStr};

pub fn dispatch(kind: &str, f: &[&str]) -> Option<Answer> {
    match kind {
        "uwidth" => Some(Answer::Done(match String::from_utf8(unhex(f[0])) {
            Err(_) => "INVALID-UTF8".to_owned(),
            Ok(s) => format!("{}", UnicodeWidthStr::width(s.as_str())),
        })),
        "uwchars" => {
            let lo: u32 = f[0].parse().expect("lo");
            let n: u32 = f[1].parse().expect("count");
            let mut out = String::with_capacity(n as usize);
            for cp in lo..lo + n {
                match char::from_u32(cp) {
                    None => out.push('s'),
                    Some(c) => match UnicodeWidthChar::width(c) {
                        None => out.push('-'),
                        Some(w) => out.push_str(&w.to_string()),
                    },
                }
            }
            Some(Answer::Done(out))
        }
        _ => None,
    }
}
