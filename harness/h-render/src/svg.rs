//! C14: `anstyle_svg::Term::render_svg`.
//!
//! Case kinds (fields: palette `vga` | `win10` | 48 bytes hex; default foreground and
//! background colour `a<0..15>` | `x<0..255>` | `r<r>.<g>.<b>`; background flag 0|1;
//! input text in hex, must be UTF-8):
//!   svg     <pal> <fg> <bg> <flag> <input>            -> the SVG bytes, hex
//!   svgraw  <pal> <fg> <bg> <flag> <input> <w> <fills> -> the SVG bytes, hex (the two
//!            extra fields are the width oracle of the model side, ignored here)
//!   svgdoc  <pal> <fg> <bg> <flag> <input>            -> the document recovered from the SVG
//!            by vlib/svgparse.py (expat): height, style rules, spans per line
//!   svgtext <pal> <fg> <bg> <flag> <input>            -> the text of the foreground spans,
//!            line by line, recovered the same way
//!   svgcls  <pal> <fg> <bg> <flag> <input>            -> the (foreground classes, background
//!            class, text) pieces of every row, recovered the same way
use crate::{hex, unhex, Answer};
use anstyle::{Ansi256Color, AnsiColor, Color, RgbColor};
use anstyle_svg::{Palette, Term, VGA, WIN10_CONSOLE};

fn ansi_of(n: u8) -> AnsiColor {
    match n {
        0 => AnsiColor::Black,
        1 => AnsiColor::Red,
        2 => AnsiColor::Green,
        3 => AnsiColor::Yellow,
        4 => AnsiColor::Blue,
        5 => AnsiColor::Magenta,
        6 => AnsiColor::Cyan,
        7 => AnsiColor::White,
        8 => AnsiColor::BrightBlack,
        9 => AnsiColor::BrightRed,
        10 => AnsiColor::BrightGreen,
        11 => AnsiColor::BrightYellow,
        12 => AnsiColor::BrightBlue,
        13 => AnsiColor::BrightMagenta,
        14 => AnsiColor::BrightCyan,
        15 => AnsiColor::BrightWhite,
        _ => panic!("no such AnsiColor"),
    }
}

fn colour_of(s: &str) -> Color {
    let (k, rest) = s.split_at(1);
    match k {
        "a" => Color::Ansi(ansi_of(rest.parse().expect("ansi number"))),
        "x" => Color::Ansi256(Ansi256Color(rest.parse().expect("index"))),
        "r" => {
            let v: Vec<u8> = rest.split('.').map(|t| t.parse().expect("component")).collect();
            assert!(v.len() == 3, "rgb");
            Color::Rgb(RgbColor(v[0], v[1], v[2]))
        }
        _ => panic!("colour"),
    }
}

fn palette_of(s: &str) -> Palette {
    match s {
        "vga" => VGA,
        "win10" => WIN10_CONSOLE,
        _ => {
            let b = unhex(s);
            assert!(b.len() == 48, "palette: 16 x 3 bytes");
            let mut p = [RgbColor(0, 0, 0); 16];
            for (i, c) in b.chunks_exact(3).enumerate() {
                p[i] = RgbColor(c[0], c[1], c[2]);
            }
            Palette(p)
        }
    }
}

fn palette_hex(p: &Palette) -> String {
    let mut b = Vec::with_capacity(48);
    for c in p.0.iter() {
        b.extend_from_slice(&[c.0, c.1, c.2]);
    }
    hex(&b)
}

/// None = the input is no `&str`
fn render(f: &[&str]) -> Option<(Palette, String)> {
    let palette = palette_of(f[0]);
    let fg = colour_of(f[1]);
    let bg = colour_of(f[2]);
    let background = match f[3] {
        "0" => false,
        "1" => true,
        _ => panic!("flag"),
    };
    let input = String::from_utf8(unhex(f[4])).ok()?;
    // the builder methods are independent of each other: apply them in an order (and with a
    // `min_width_px`, whose only effect is on the masked width attribute) chosen from the input
    let h = input.bytes().fold(7u32, |a, b| a.wrapping_mul(31).wrapping_add(b as u32));
    let minw = [720usize, 720, 10, 2000][(h % 4) as usize];
    // a requested value that IS the documented default of `Term::new()` (VGA palette, white on
    // black, background on, 720 px) is left to `Term::new()` / `Term::default()` for half of the inputs
    let keep_defaults = (h / 20) % 2 == 0;
    let mut term = if (h / 40) % 2 == 0 { Term::new() } else { Term::default() };
    for k in 0..5 {
        term = match (k + h / 4) % 5 {
            0 if keep_defaults && f[0] == "vga" => term,
            0 => term.palette(palette),
            1 if keep_defaults && f[1] == "a7" => term,
            1 => term.fg_color(fg),
            2 if keep_defaults && f[2] == "a0" => term,
            2 => term.bg_color(bg),
            3 if keep_defaults && background => term,
            3 => term.background(background),
            _ if keep_defaults && minw == 720 => term,
            _ => term.min_width_px(minw),
        };
    }
    Some((palette, term.render_svg(&input)))
}

pub fn dispatch(kind: &str, f: &[&str]) -> Option<Answer> {
    let mode = match kind {
        "svg" | "svgraw" => None,
        "svgdoc" => Some("doc"),
        "svgtext" => Some("text"),
        "svgcls" => Some("cls"),
        _ => return None,
    };
    Some(match render(f) {
        None => Answer::Done("INVALID-UTF8".to_owned()),
        Some((palette, svg)) => match mode {
            None => Answer::Done(hex(svg.as_bytes())),
            Some(m) => Answer::Parse(format!("{m} {} {}", palette_hex(&palette), hex(svg.as_bytes()))),
        },
    })
}
