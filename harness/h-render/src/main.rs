//! Correspondence harness for the rendering crates (`anstyle-svg`: property C14).
//!
//! usage: hrender <case-file> <out-file>
//! Every input line is one case `<kind> <field>...` (byte strings in hex); one
//! canonical result line is written per case, in order.  A panic inside a case is
//! the result `PANIC`.
//!
//! Some case kinds ask for the rendered document *as an independent XML parser
//! sees it*: their SVG is handed, in one batch per case file, to
//! `vlib/svgparse.py` (Python's expat binding), whose answer becomes the result.

use std::fmt::Write as _;
use std::io::{BufRead, Write};
use std::panic::{catch_unwind, AssertUnwindSafe};

mod svg;
mod uw;

pub fn unhex(s: &str) -> Vec<u8> {
    if s == "-" {
        return Vec::new();
    }
    let b = s.as_bytes();
    assert!(b.len() % 2 == 0, "odd hex");
    (0..b.len() / 2)
        .map(|i| u8::from_str_radix(&s[2 * i..2 * i + 2], 16).expect("hex"))
        .collect()
}

pub fn hex(b: &[u8]) -> String {
    let mut s = String::with_capacity(b.len() * 2);
    for x in b {
        let _ = write!(s, "{x:02x}");
    }
    s
}

/// the answer of one case: final, or "ask the XML parser" (request line for svgparse.py)
pub enum Answer {
    Done(String),
    Parse(String),
}

fn run_case(line: &str) -> Answer {
    let mut it = line.split(' ');
    let kind = it.next().unwrap_or("");
    let f: Vec<&str> = it.collect();
    // every module answers for the case kinds it knows
    None.or_else(|| svg::dispatch(kind, &f))
        .or_else(|| uw::dispatch(kind, &f))
        .unwrap_or_else(|| Answer::Done(format!("UNKNOWN-KIND {kind}")))
}

/// one run of vlib/svgparse.py over all requests of this case file
fn parse_batch(requests: &[String], out_path: &str) -> Vec<String> {
    let script = std::env::var("VERIF_SVGPARSE")
        .unwrap_or_else(|_| concat!(env!("CARGO_MANIFEST_DIR"), "/../../vlib/svgparse.py").to_owned());
    let inp = format!("{out_path}.xmlin");
    let outp = format!("{out_path}.xmlout");
    std::fs::write(&inp, requests.join("\n") + "\n").expect("write parser input");
    let status = std::process::Command::new("python3")
        .arg(&script)
        .arg(&inp)
        .arg(&outp)
        .status()
        .expect("spawn python3");
    assert!(status.success(), "svgparse.py failed");
    let text = std::fs::read_to_string(&outp).expect("read parser output");
    let _ = std::fs::remove_file(&inp);
    let _ = std::fs::remove_file(&outp);
    let res: Vec<String> = text.lines().map(|l| l.to_owned()).collect();
    assert!(res.len() == requests.len(), "svgparse.py: result count");
    res
}

fn main() {
    let args: Vec<String> = std::env::args().collect();
    if args.len() != 3 {
        eprintln!("usage: hrender <case-file> <out-file>");
        std::process::exit(2);
    }
    std::panic::set_hook(Box::new(|_| {}));
    let input = std::io::BufReader::new(std::fs::File::open(&args[1]).expect("open cases"));
    let mut results: Vec<String> = Vec::new();
    let mut pending: Vec<(usize, String)> = Vec::new();
    for line in input.lines() {
        let line = line.expect("read");
        if line.is_empty() {
            continue;
        }
        let a = catch_unwind(AssertUnwindSafe(|| run_case(&line))).unwrap_or_else(|_| Answer::Done("PANIC".to_owned()));
        match a {
            Answer::Done(r) => results.push(r),
            Answer::Parse(req) => {
                pending.push((results.len(), req));
                results.push(String::new());
            }
        }
    }
    if !pending.is_empty() {
        let reqs: Vec<String> = pending.iter().map(|(_, r)| r.clone()).collect();
        let answers = parse_batch(&reqs, &args[2]);
        for ((i, _), a) in pending.iter().zip(answers) {
            results[*i] = a;
        }
    }
    let mut out = std::io::BufWriter::new(std::fs::File::create(&args[2]).expect("create out"));
    for mut r in results {
        if r.is_empty() {
            r.push('-');
        }
        writeln!(out, "{r}").expect("write");
    }
    out.flush().expect("flush");
}
