//! Correspondence harness for the text parsers: `anstyle-ls`, `anstyle-git`.
//!
//! usage: htext <case-file> <out-file>
//! Every input line is one case `<kind> <field>...` (strings as the hex of their
//! UTF-8 bytes, `-` for the empty string); one canonical result line is written
//! per case, in order.  A panic inside a case is the result `PANIC`.

use std::fmt::Write as _;
use std::io::{BufRead, Write};
use std::panic::{catch_unwind, AssertUnwindSafe};

mod c11;
mod c12;

pub fn unhex(s: &str) -> Vec<u8> {
    if s == "-" {
        return Vec::new();
    }
    let b = s.as_bytes();
    assert!(b.len() % 2 == 0, "odd hex");
    (0..b.len() / 2)
        .map(|i| u8::from_str_radix(&s[2 * i..2 * i + 2], 16).expect("hex"))
        .collect()
}

pub fn hex(b: &[u8]) -> String {
    let mut s = String::with_capacity(b.len() * 2);
    for x in b {
        let _ = write!(s, "{x:02x}");
    }
    if s.is_empty() {
        s.push('-');
    }
    s
}

fn color(c: Option<anstyle::Color>) -> String {
    match c {
        None => "none".to_owned(),
        Some(anstyle::Color::Ansi(a)) => format!("a{}", ansi_index(a)),
        Some(anstyle::Color::Ansi256(x)) => format!("x{}", x.0),
        Some(anstyle::Color::Rgb(rgb)) => format!("r{},{},{}", rgb.0, rgb.1, rgb.2),
    }
}

fn ansi_index(a: anstyle::AnsiColor) -> u8 {
    use anstyle::AnsiColor::*;
    match a {
        Black => 0,
        Red => 1,
        Green => 2,
        Yellow => 3,
        Blue => 4,
        Magenta => 5,
        Cyan => 6,
        White => 7,
        BrightBlack => 8,
        BrightRed => 9,
        BrightGreen => 10,
        BrightYellow => 11,
        BrightBlue => 12,
        BrightMagenta => 13,
        BrightCyan => 14,
        BrightWhite => 15,
    }
}

/// the effect set as the integer whose bit i is set iff `Effects(1 << i)` is contained
fn effect_bits(e: anstyle::Effects) -> u16 {
    use anstyle::Effects as E;
    const ALL: [E; 12] = [
        E::BOLD,
        E::DIMMED,
        E::ITALIC,
        E::UNDERLINE,
        E::DOUBLE_UNDERLINE,
        E::CURLY_UNDERLINE,
        E::DOTTED_UNDERLINE,
        E::DASHED_UNDERLINE,
        E::BLINK,
        E::INVERT,
        E::HIDDEN,
        E::STRIKETHROUGH,
    ];
    let mut n = 0u16;
    for (i, f) in ALL.iter().enumerate() {
        if e.contains(*f) {
            n |= 1 << i;
        }
    }
    n
}

/// canonical, field-by-field text of a style
pub fn style(s: &anstyle::Style) -> String {
    format!(
        "fg={} bg={} ul={} eff={}",
        color(s.get_fg_color()),
        color(s.get_bg_color()),
        color(s.get_underline_color()),
        effect_bits(s.get_effects())
    )
}

fn run_case(line: &str) -> String {
    let mut it = line.split(' ');
    let kind = it.next().unwrap_or("");
    let f: Vec<&str> = it.collect();
    None.or_else(|| c12::dispatch(kind, &f))
        .or_else(|| c11::dispatch(kind, &f))
        .unwrap_or_else(|| format!("UNKNOWN-KIND {kind}"))
}

fn main() {
    let args: Vec<String> = std::env::args().collect();
    if args.len() != 3 {
        eprintln!("usage: htext <case-file> <out-file>");
        std::process::exit(2);
    }
    std::panic::set_hook(Box::new(|_| {}));
    let input = std::io::BufReader::new(std::fs::File::open(&args[1]).expect("open cases"));
    let mut out = std::io::BufWriter::new(std::fs::File::create(&args[2]).expect("create out"));
    for line in input.lines() {
        let line = line.expect("read");
        if line.is_empty() {
            continue;
        }
        let mut r = catch_unwind(AssertUnwindSafe(|| run_case(&line))).unwrap_or_else(|_| "PANIC".to_owned());
        if r.is_empty() {
            r.push('-');
        }
        writeln!(out, "{r}").expect("write");
    }
    out.flush().expect("flush");
}
