//! C12: `anstyle_ls::parse` on an arbitrary string.
use crate::{style, unhex};

/// `ls <hex of the UTF-8 string>`
pub fn ls(f: &[&str]) -> String {
    let bytes = unhex(f[0]);
    let Ok(s) = std::str::from_utf8(&bytes) else {
        return "INVALID-UTF8".to_owned();
    };
    match anstyle_ls::parse(s) {
        None => "NONE".to_owned(),
        Some(st) => style(&st),
    }
}

pub fn dispatch(kind: &str, f: &[&str]) -> Option<String> {
    Some(match kind {
        "ls" => ls(f),
        _ => return None,
    })
}
