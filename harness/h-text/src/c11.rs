//! C11: `anstyle_git::parse` on an arbitrary string.
use crate::{hex, style, unhex};

/// `git <hex of the UTF-8 string>`
pub fn git(f: &[&str]) -> String {
    let bytes = unhex(f[0]);
    let Ok(s) = std::str::from_utf8(&bytes) else {
        return "INVALID-UTF8".to_owned();
    };
    match anstyle_git::parse(s) {
        Ok(st) => style(&st),
        Err(anstyle_git::Error::ExtraColor { style, word }) => {
            assert_eq!(style, s, "error does not carry the original string");
            format!("ERR extra {}", hex(word.as_bytes()))
        }
        Err(anstyle_git::Error::UnknownWord { style, word }) => {
            assert_eq!(style, s, "error does not carry the original string");
            format!("ERR unknown {}", hex(word.as_bytes()))
        }
        Err(e) => format!("ERR other {e}"),
    }
}

/// `lowerscan x`: every non-ASCII char whose lower case (as `str::to_lowercase`
/// computes it) holds an ASCII byte, in ascending order; then whether lower-casing
/// is `to_ascii_lowercase` on every ASCII char.  Ties the model's assumption
/// "lower-casing is the identity off ASCII, up to U+0130 and U+212A" to std's tables.
pub fn lowerscan() -> String {
    let mut out: Vec<String> = Vec::new();
    for c in (0x80..=0x10FFFFu32).filter_map(char::from_u32) {
        let s = c.to_string().to_lowercase();
        let t: String = c.to_lowercase().collect();
        if s.bytes().any(|b| b < 0x80) || t.bytes().any(|b| b < 0x80) {
            out.push(format!("{:x}", c as u32));
        }
    }
    let ascii_ok = (0..0x80u32)
        .filter_map(char::from_u32)
        .all(|c| c.to_string().to_lowercase() == c.to_ascii_lowercase().to_string());
    out.push(format!("ascii={}", if ascii_ok { "ok" } else { "DIFFERENT" }));
    out.join(" ")
}

/// `wsscan x`: every char with `char::is_whitespace`, ascending (what `split_whitespace` splits at)
pub fn wsscan() -> String {
    (0..=0x10FFFFu32)
        .filter_map(char::from_u32)
        .filter(|c| c.is_whitespace())
        .map(|c| format!("{:x}", c as u32))
        .collect::<Vec<_>>()
        .join(" ")
}

pub fn dispatch(kind: &str, f: &[&str]) -> Option<String> {
    Some(match kind {
        "git" => git(f),
        "lowerscan" => lowerscan(),
        "wsscan" => wsscan(),
        _ => return None,
    })
}
