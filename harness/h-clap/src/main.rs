//! Correspondence harness for `colorchoice-clap` (C09: the command-line colour flag).
//!
//! usage: hclap <case-file> <out-file>
//! Case kind: `c09f <word>` (hex bytes, `-` for empty): a clap parser with the
//! flattened `colorchoice_clap::Color` mixin is run on `prog --color <word>`; the
//! result is the name of `Color::as_choice()` (after checking that
//! `Color::write_global()` leaves exactly that value in `ColorChoice::global()`),
//! or `ERR` when clap rejects the word.  A panic inside a case is `PANIC`.

use std::ffi::OsString;
use std::io::{BufRead, Write};
use std::os::unix::ffi::OsStringExt;
use std::panic::{catch_unwind, AssertUnwindSafe};

use colorchoice::ColorChoice;

#[derive(Debug, clap::Parser)]
struct Cli {
    #[command(flatten)]
    color: colorchoice_clap::Color,
}

fn unhex(s: &str) -> Vec<u8> {
    if s == "-" {
        return Vec::new();
    }
    assert!(s.len() % 2 == 0, "odd hex");
    (0..s.len() / 2).map(|i| u8::from_str_radix(&s[2 * i..2 * i + 2], 16).expect("hex")).collect()
}

fn name(c: ColorChoice) -> &'static str {
    match c {
        ColorChoice::Auto => "Auto",
        ColorChoice::AlwaysAnsi => "AlwaysAnsi",
        ColorChoice::Always => "Always",
        ColorChoice::Never => "Never",
    }
}

fn run_case(line: &str) -> String {
    let f: Vec<&str> = line.split(' ').collect();
    match f[0] {
        "c09f" => {
            let word = OsString::from_vec(unhex(f[1]));
            let argv = [OsString::from("prog"), OsString::from("--color"), word];
            match <Cli as clap::Parser>::try_parse_from(argv) {
                Err(_) => "ERR".to_owned(),
                Ok(cli) => {
                    let c = cli.color.as_choice();
                    // poison the global with a value no flag maps to, then let the mixin write it
                    ColorChoice::AlwaysAnsi.write_global();
                    cli.color.write_global();
                    let g = ColorChoice::global();
                    if g == c {
                        name(c).to_owned()
                    } else {
                        format!("{} global={}", name(c), name(g))
                    }
                }
            }
        }
        k => format!("UNKNOWN-KIND {k}"),
    }
}

fn main() {
    let args: Vec<String> = std::env::args().collect();
    if args.len() != 3 {
        eprintln!("usage: hclap <case-file> <out-file>");
        std::process::exit(2);
    }
    std::panic::set_hook(Box::new(|_| {}));
    let input = std::io::BufReader::new(std::fs::File::open(&args[1]).expect("open cases"));
    let mut out = std::io::BufWriter::new(std::fs::File::create(&args[2]).expect("create out"));
    for line in input.lines() {
        let line = line.expect("read");
        if line.is_empty() {
            continue;
        }
        let mut r = catch_unwind(AssertUnwindSafe(|| run_case(&line))).unwrap_or_else(|_| "PANIC".to_owned());
        if r.is_empty() {
            r.push('-');
        }
        writeln!(out, "{r}").expect("write");
    }
    out.flush().expect("flush");
}
