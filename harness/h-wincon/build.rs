//! Shadow copy of `anstream`'s Windows-console stream for C18 (DESIGN.md section 4).
//!
//! `crates/anstream/src/wincon.rs` is only compiled on Windows.  Its logic is
//! platform independent, so the working-tree files {stream,fmt,buffer,wincon}.rs
//! are copied into OUT_DIR on every build with two mechanical text edits:
//!  * lines starting with `//!` or `#![` are dropped (an `include!`d file may not
//!    carry inner attributes / inner doc comments);
//!  * `all(windows, feature = "wincon")` is rewritten to `feature = "wincon"`, so
//!    that `wincon.rs` and the `RawStream: anstyle_wincon::WinconStream` bound it
//!    relies on compile here (every RawStream implementor already implements
//!    `anstyle_wincon::WinconStream` on every platform).
//! The repository root is `/repo`, or `$VERIF_REPO`.
use std::path::PathBuf;

const FILES: [&str; 4] = ["stream.rs", "fmt.rs", "buffer.rs", "wincon.rs"];

fn main() {
    println!("cargo:rerun-if-env-changed=VERIF_REPO");
    println!("cargo:rerun-if-changed=build.rs");
    let repo = std::env::var("VERIF_REPO").unwrap_or_else(|_| "/repo".to_owned());
    let out = PathBuf::from(std::env::var("OUT_DIR").expect("OUT_DIR"));
    for f in FILES {
        let src = format!("{repo}/crates/anstream/src/{f}");
        println!("cargo:rerun-if-changed={src}");
        let text = std::fs::read_to_string(&src).unwrap_or_else(|e| panic!("cannot read {src}: {e}"));
        let mut kept = String::with_capacity(text.len());
        for line in text.lines() {
            let t = line.trim_start();
            if t.starts_with("//!") || t.starts_with("#![") {
                continue;
            }
            kept.push_str(&line.replace("all(windows, feature = \"wincon\")", "feature = \"wincon\""));
            kept.push('\n');
        }
        std::fs::write(out.join(f), kept).unwrap_or_else(|e| panic!("cannot write {f}: {e}"));
    }
}
