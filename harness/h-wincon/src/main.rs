//! Correspondence harness for C18: the legacy-console stream `anstream::WinconStream`
//! (crates/anstream/src/wincon.rs), compiled from the working tree through the
//! shadow copy made by build.rs, over a scripted console writer.
//!
//! usage: hwincon <case-file> <out-file>
use std::cell::RefCell;
use std::collections::VecDeque;
use std::fmt::Write as _;
use std::io::{BufRead, Write};
use std::panic::{catch_unwind, AssertUnwindSafe};
use std::rc::Rc;

pub fn unhex(s: &str) -> Vec<u8> {
    if s == "-" {
        return Vec::new();
    }
    (0..s.len() / 2).map(|i| u8::from_str_radix(&s[2 * i..2 * i + 2], 16).expect("hex")).collect()
}
pub fn hex(b: &[u8]) -> String {
    let mut s = String::new();
    for x in b {
        let _ = write!(s, "{x:02x}");
    }
    if s.is_empty() {
        s.push('-');
    }
    s
}

#[derive(Clone, Copy)]
pub enum Resp {
    Accept(usize),
    Fail(std::io::ErrorKind),
}

#[derive(Default)]
pub struct Log {
    pub calls: Vec<String>,
}

/// console writer: records every `write_colored` call and answers from a script
pub struct Console {
    pub script: VecDeque<Resp>,
    pub log: Rc<RefCell<Log>>,
}

fn kind_name(k: std::io::ErrorKind) -> &'static str {
    use std::io::ErrorKind::*;
    match k {
        Interrupted => "I",
        WouldBlock => "W",
        WriteZero => "Z",
        _ => "O",
    }
}

fn ansi_index(a: anstyle::AnsiColor) -> u8 {
    use anstyle::AnsiColor::*;
    match a {
        Black => 0, Red => 1, Green => 2, Yellow => 3, Blue => 4, Magenta => 5, Cyan => 6, White => 7,
        BrightBlack => 8, BrightRed => 9, BrightGreen => 10, BrightYellow => 11, BrightBlue => 12,
        BrightMagenta => 13, BrightCyan => 14, BrightWhite => 15,
    }
}
fn col(c: Option<anstyle::AnsiColor>) -> String {
    c.map(|a| ansi_index(a).to_string()).unwrap_or_else(|| "-".to_owned())
}

impl anstyle_wincon::WinconStream for Console {
    fn write_colored(&mut self, fg: Option<anstyle::AnsiColor>, bg: Option<anstyle::AnsiColor>, data: &[u8]) -> std::io::Result<usize> {
        let mut log = self.log.borrow_mut();
        match self.script.pop_front() {
            None => {
                log.calls.push(format!("c{}/{}/{}={}", col(fg), col(bg), hex(data), data.len()));
                Ok(data.len())
            }
            Some(Resp::Accept(n)) => {
                let k = n.min(data.len());
                log.calls.push(format!("c{}/{}/{}={}", col(fg), col(bg), hex(data), k));
                Ok(k)
            }
            Some(Resp::Fail(kind)) => {
                log.calls.push(format!("c{}/{}/{}=e{}", col(fg), col(bg), hex(data), kind_name(kind)));
                Err(std::io::Error::new(kind, "scripted"))
            }
        }
    }
}
impl Write for Console {
    fn write(&mut self, buf: &[u8]) -> std::io::Result<usize> {
        self.log.borrow_mut().calls.push(format!("RAW-WRITE:{}", hex(buf)));
        Ok(buf.len())
    }
    fn flush(&mut self) -> std::io::Result<()> {
        Ok(())
    }
}

// ---- the shadow tree (at the crate root so that `crate::stream` etc. resolve) ----
#[allow(dead_code, unused_imports, deprecated, missing_docs, clippy::all)]
#[path = "../../common/lits.rs"]
mod lits;

pub mod stream {
    include!(concat!(env!("OUT_DIR"), "/stream.rs"));
    impl private::Sealed for crate::Console {}
    impl IsTerminal for crate::Console {
        fn is_terminal(&self) -> bool {
            true
        }
    }
    impl RawStream for crate::Console {}
    impl AsLockedWrite for crate::Console {
        type Write<'w> = &'w mut Self;
        fn as_locked_write(&mut self) -> Self::Write<'_> {
            self
        }
    }
}
#[allow(dead_code, unused_imports, deprecated, missing_docs, clippy::all)]
pub mod fmt {
    include!(concat!(env!("OUT_DIR"), "/fmt.rs"));
}
#[allow(dead_code, unused_imports, deprecated, missing_docs, clippy::all)]
pub mod buffer {
    include!(concat!(env!("OUT_DIR"), "/buffer.rs"));
}
#[allow(dead_code, unused_imports, deprecated, missing_docs, clippy::all)]
pub mod wincon {
    include!(concat!(env!("OUT_DIR"), "/wincon.rs"));
}
pub mod adapter {
    pub use anstream::adapter::*;
}
#[allow(unused_imports, deprecated)]
pub use buffer::Buffer;
#[allow(unused_imports)]
pub use colorchoice::ColorChoice;

fn parse_script(s: &str) -> VecDeque<Resp> {
    let mut out = VecDeque::new();
    if s == "-" {
        return out;
    }
    for tok in s.split(',') {
        out.push_back(match tok {
            "eI" => Resp::Fail(std::io::ErrorKind::Interrupted),
            "eW" => Resp::Fail(std::io::ErrorKind::WouldBlock),
            "eO" => Resp::Fail(std::io::ErrorKind::Other),
            t => Resp::Accept(t[1..].parse().expect("accept count")),
        });
    }
    out
}

struct Frags(Vec<String>);
impl std::fmt::Display for Frags {
    fn fmt(&self, f: &mut std::fmt::Formatter<'_>) -> std::fmt::Result {
        for s in &self.0 {
            f.write_str(s)?;
        }
        Ok(())
    }
}

fn res_n(r: std::io::Result<usize>) -> String {
    match r {
        Ok(n) => format!("ok:{n}"),
        Err(e) => format!("err:{}", kind_name(e.kind())),
    }
}
fn res_u(r: std::io::Result<()>) -> String {
    match r {
        Ok(()) => "ok".to_owned(),
        Err(e) => format!("err:{}", kind_name(e.kind())),
    }
}

/// `wcs <script> <op,op,...>`: ops w:<hex> a:<hex> v:<hex>/<hex> f:<hex>/<hex> F
fn wcs(f: &[&str]) -> String {
    let log = Rc::new(RefCell::new(Log::default()));
    let console = Console { script: parse_script(f[0]), log: log.clone() };
    let mut s = wincon::WinconStream::new(console);
    let mut results = Vec::new();
    let ops: Vec<&str> = if f[1] == "-" { vec![] } else { f[1].split(',').collect() };
    for op in ops {
        let (k, rest) = op.split_at(1);
        let rest = rest.strip_prefix(':').unwrap_or(rest);
        results.push(match k {
            "w" => res_n(s.write(&unhex(rest))),
            "a" => res_u(s.write_all(&unhex(rest))),
            "v" => {
                let bufs: Vec<Vec<u8>> = rest.split('/').map(unhex).collect();
                let slices: Vec<std::io::IoSlice<'_>> = bufs.iter().map(|b| std::io::IoSlice::new(b)).collect();
                res_n(s.write_vectored(&slices))
            }
            "f" => {
                let frags: Vec<String> = rest.split('/').map(|h| String::from_utf8(unhex(h)).expect("utf8 fragment")).collect();
                match if frags.len() == 1 { lits::write_lit(&mut s, &frags[0]) } else { None } {
                    Some(r) => res_u(r),
                    None => res_u(write!(s, "{}", Frags(frags))),
                }
            }
            "F" => res_u(s.flush()),
            _ => panic!("unknown op"),
        });
    }
    // taking the console writer back returns the very writer that recorded the calls
    let back: Console = s.into_inner();
    assert!(Rc::ptr_eq(&back.log, &log), "WinconStream::into_inner");
    drop(back);
    let calls = log.borrow().calls.join(";");
    format!("{} | {}", if results.is_empty() { "-".to_owned() } else { results.join(",") }, if calls.is_empty() { "-".to_owned() } else { calls })
}

/// child mode `hwincon --wlk <out|err> <hex1> <hex2>`: the console stream over the REAL stdout /
/// stderr (on this platform their `write_colored` is the ANSI fallback): write hex1, `.lock()`,
/// write hex2 through the locked stream
fn lock_child(args: &[String]) -> i32 {
    let (which, h1, h2) = (&args[0], unhex(&args[1]), unhex(&args[2]));
    let r: std::io::Result<()> = (|| {
        if which == "out" {
            let mut s = wincon::WinconStream::new(std::io::stdout());
            s.write_all(&h1)?;
            let mut l = s.lock();
            l.write_all(&h2)?;
            l.flush()
        } else {
            let mut s = wincon::WinconStream::new(std::io::stderr());
            s.write_all(&h1)?;
            let mut l = s.lock();
            l.write_all(&h2)?;
            l.flush()
        }
    })();
    if r.is_ok() { 0 } else { 3 }
}

/// `wlk <out|err> <hex1> <hex2>`: run the child above and capture the pipe
fn wlk(f: &[&str]) -> String {
    let exe = std::env::current_exe().expect("current_exe");
    let out = std::process::Command::new(exe).arg("--wlk").args(f).stdin(std::process::Stdio::null()).output().expect("spawn child");
    if !out.status.success() {
        return format!("CHILD-FAILED {:?}", out.status.code());
    }
    hex(if f[0] == "out" { &out.stdout } else { &out.stderr })
}

fn run_case(line: &str) -> String {
    let mut it = line.split(' ');
    let kind = it.next().unwrap_or("");
    let f: Vec<&str> = it.collect();
    match kind {
        "wcs" | "wcsx" => wcs(&f),
        "wlk" => wlk(&f),
        _ => format!("UNKNOWN-KIND {kind}"),
    }
}

fn main() {
    let args: Vec<String> = std::env::args().collect();
    if args.len() == 5 && args[1] == "--wlk" {
        std::process::exit(lock_child(&args[2..]));
    }
    if args.len() != 3 {
        eprintln!("usage: hwincon <case-file> <out-file>");
        std::process::exit(2);
    }
    std::panic::set_hook(Box::new(|_| {}));
    let input = std::io::BufReader::new(std::fs::File::open(&args[1]).expect("open cases"));
    let mut out = std::io::BufWriter::new(std::fs::File::create(&args[2]).expect("create out"));
    for line in input.lines() {
        let line = line.expect("read");
        if line.is_empty() {
            continue;
        }
        let mut r = catch_unwind(AssertUnwindSafe(|| run_case(&line))).unwrap_or_else(|_| "PANIC".to_owned());
        if r.is_empty() {
            r.push('-');
        }
        writeln!(out, "{r}").expect("write");
    }
    out.flush().expect("flush");
}
