//! Correspondence harness for `anstyle-roff` (C15).
//!
//! usage: hroff <case-file> <out-file>
//! Every input line is one case `<kind> <field>...` (strings as the hex of their
//! UTF-8 bytes, `-` for the empty string); one canonical result line is written
//! per case, in order.  A panic inside a case is the result `PANIC`.

use std::fmt::Write as _;
use std::io::{BufRead, Write};
use std::panic::{catch_unwind, AssertUnwindSafe};

mod c15;

pub fn unhex(s: &str) -> Vec<u8> {
    if s == "-" {
        return Vec::new();
    }
    let b = s.as_bytes();
    assert!(b.len() % 2 == 0, "odd hex");
    (0..b.len() / 2)
        .map(|i| u8::from_str_radix(&s[2 * i..2 * i + 2], 16).expect("hex"))
        .collect()
}

pub fn hex(b: &[u8]) -> String {
    let mut s = String::with_capacity(b.len() * 2);
    for x in b {
        let _ = write!(s, "{x:02x}");
    }
    if s.is_empty() {
        s.push('-');
    }
    s
}

fn run_case(line: &str) -> String {
    let mut it = line.split(' ');
    let kind = it.next().unwrap_or("");
    let f: Vec<&str> = it.collect();
    None.or_else(|| c15::dispatch(kind, &f))
        .unwrap_or_else(|| format!("UNKNOWN-KIND {kind}"))
}

fn main() {
    let args: Vec<String> = std::env::args().collect();
    if args.len() != 3 {
        eprintln!("usage: hroff <case-file> <out-file>");
        std::process::exit(2);
    }
    std::panic::set_hook(Box::new(|_| {}));
    let input = std::io::BufReader::new(std::fs::File::open(&args[1]).expect("open cases"));
    let mut out = std::io::BufWriter::new(std::fs::File::create(&args[2]).expect("create out"));
    for line in input.lines() {
        let line = line.expect("read");
        if line.is_empty() {
            continue;
        }
        let mut r = catch_unwind(AssertUnwindSafe(|| run_case(&line))).unwrap_or_else(|_| "PANIC".to_owned());
        if r.is_empty() {
            r.push('-');
        }
        writeln!(out, "{r}").expect("write");
    }
    out.flush().expect("flush");
}
