//! C15: `anstyle_roff::to_roff(text).to_roff()` on an arbitrary string, and the private
//! `add_color_to_roff` alone (through a shadow copy of lib.rs, see build.rs).
use crate::{hex, unhex};

#[allow(dead_code, unused_imports, missing_docs, clippy::all)]
mod shadow {
    include!(concat!(env!("OUT_DIR"), "/roff_lib_shadow.rs"));

    /// `add_color_to_roff` on an empty document, rendered
    pub fn color_requests(req: &str, color: Option<anstyle::Color>) -> String {
        let mut doc = roff::Roff::new();
        add_color_to_roff(&mut doc, req, &color);
        doc.to_roff()
    }
}

/// `roff <hex of the UTF-8 text> [<segment list>]`, `roffo <hex>`: the rendered
/// document as hex.  The optional segment list is for the specification side only.
pub fn roff(f: &[&str]) -> String {
    let bytes = unhex(f[0]);
    let Ok(s) = std::str::from_utf8(&bytes) else {
        return "INVALID-UTF8".to_owned();
    };
    hex(anstyle_roff::to_roff(s).to_roff().as_bytes())
}

/// `roffcolor <request name hex> none|a<i>|x<n>|r<r>,<g>,<b>`
pub fn roffcolor(f: &[&str]) -> String {
    let req = String::from_utf8(unhex(f[0])).expect("request name");
    let c = f[1];
    let color = if c == "none" {
        None
    } else {
        let tail = &c[1..];
        Some(match &c[..1] {
            "a" => {
                let i: u8 = tail.parse().expect("ansi index");
                anstyle::Color::Ansi(anstyle::Ansi256Color(i).into_ansi().expect("ansi index < 16"))
            }
            "x" => anstyle::Color::Ansi256(anstyle::Ansi256Color(tail.parse().expect("index"))),
            _ => {
                let v: Vec<u8> = tail.split(',').map(|x| x.parse().expect("component")).collect();
                anstyle::Color::Rgb(anstyle::RgbColor(v[0], v[1], v[2]))
            }
        })
    };
    hex(shadow::color_requests(&req, color).as_bytes())
}

pub fn dispatch(kind: &str, f: &[&str]) -> Option<String> {
    Some(match kind {
        "roff" | "roffo" => roff(f),
        "roffcolor" => roffcolor(f),
        _ => return None,
    })
}
