//! Makes a shadow copy of /repo/crates/anstyle-roff/src/lib.rs that can be `include!`d into a
//! module of the harness (inner attributes and inner doc comments removed, `mod styled_str;`
//! pointed at the original file), so that the private `add_color_to_roff` can be called:
//! its Rgb / Ansi256 arms are not reachable through the public `to_roff`.
use std::path::PathBuf;

fn main() {
    let repo = std::env::var("VERIF_REPO").unwrap_or_else(|_| "/repo".to_owned());
    let src = PathBuf::from(&repo).join("crates/anstyle-roff/src/lib.rs");
    let styled = PathBuf::from(&repo).join("crates/anstyle-roff/src/styled_str.rs");
    println!("cargo:rerun-if-changed={}", src.display());
    println!("cargo:rerun-if-changed={}", styled.display());
    println!("cargo:rerun-if-env-changed=VERIF_REPO");
    let text = std::fs::read_to_string(&src).expect("read anstyle-roff lib.rs");
    let mut out = String::new();
    for line in text.lines() {
        let t = line.trim_start();
        if t.starts_with("//!") || t.starts_with("#![") {
            continue;
        }
        if t == "mod styled_str;" {
            out.push_str(&format!("#[path = {:?}]\nmod styled_str;\n", styled.display().to_string()));
            continue;
        }
        out.push_str(line);
        out.push('\n');
    }
    let dst = PathBuf::from(std::env::var("OUT_DIR").expect("OUT_DIR")).join("roff_lib_shadow.rs");
    std::fs::write(dst, out).expect("write shadow");
}
