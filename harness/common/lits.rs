// `write!(w, "<literal>")`: a format string without arguments (`Arguments::as_str()` is `Some`).
// A format string has to be a literal in the source, so the harness knows a fixed list (the same
// list is in vlib/props/c06.py `LITS`); an `f:` op with ONE fragment equal to an entry goes
// through the literal form.  The entries cut escape sequences at awkward places.
macro_rules! write_literal {
    ($w:expr, $s:expr; $($l:literal),* $(,)?) => {
        match $s {
            $( $l => Some(write!($w, $l)), )*
            _ => None,
        }
    };
}

pub fn write_lit(w: &mut dyn std::io::Write, s: &str) -> Option<std::io::Result<()>> {
    write_literal!(w, s;
        "\x1b[", "1m", "31mred", "\x1b", "[0m", "\x1b]0;t", "itle\x07", "plain", "\x1b[38;5;", "9mX", "a\x1b[1", ";4mb",
        "\x1bP", "q\x1b\\", "é", "€\x1b[", "0;1m€", "\x1b[1mbold\x1b[0m", "\x1b[38;2;1;", "2;3mrgb", "x\x1b[4", "4my\n",
        "\x1b[0", "m", "tail\x1b[3",
        // plain-looking literals with bytes at the edges of "printable ASCII" (a shortcut for literals must strip them too)
        "a\x7fb", "\x7f", "a\x08b\x00c", "\x07bel", " ~\x7f~ ", "tab\there\r\n", "\x1f", "\u{9c}x", "\x0cff\x0b")
}
