//! C10: the public conversions of `anstyle-lossy`.  Case kinds and result formats
//! are documented in ocaml/drv_lossy.ml.  A 16-colour value is printed as its ANSI
//! number (Black=0 .. White=7, BrightBlack=8 .. BrightWhite=15), by name.
use crate::unhex;
use anstyle::{Ansi256Color, AnsiColor, Color, RgbColor};
use anstyle_lossy::palette::Palette;
use std::fmt::Write as _;

fn ansi_no(c: AnsiColor) -> u8 {
    match c {
        AnsiColor::Black => 0,
        AnsiColor::Red => 1,
        AnsiColor::Green => 2,
        AnsiColor::Yellow => 3,
        AnsiColor::Blue => 4,
        AnsiColor::Magenta => 5,
        AnsiColor::Cyan => 6,
        AnsiColor::White => 7,
        AnsiColor::BrightBlack => 8,
        AnsiColor::BrightRed => 9,
        AnsiColor::BrightGreen => 10,
        AnsiColor::BrightYellow => 11,
        AnsiColor::BrightBlue => 12,
        AnsiColor::BrightMagenta => 13,
        AnsiColor::BrightCyan => 14,
        AnsiColor::BrightWhite => 15,
    }
}

fn ansi_of(n: u8) -> Option<AnsiColor> {
    Some(match n {
        0 => AnsiColor::Black,
        1 => AnsiColor::Red,
        2 => AnsiColor::Green,
        3 => AnsiColor::Yellow,
        4 => AnsiColor::Blue,
        5 => AnsiColor::Magenta,
        6 => AnsiColor::Cyan,
        7 => AnsiColor::White,
        8 => AnsiColor::BrightBlack,
        9 => AnsiColor::BrightRed,
        10 => AnsiColor::BrightGreen,
        11 => AnsiColor::BrightYellow,
        12 => AnsiColor::BrightBlue,
        13 => AnsiColor::BrightMagenta,
        14 => AnsiColor::BrightCyan,
        15 => AnsiColor::BrightWhite,
        _ => return None,
    })
}

fn colours_of_hex(s: &str) -> Vec<RgbColor> {
    unhex(s).chunks_exact(3).map(|c| RgbColor(c[0], c[1], c[2])).collect()
}

fn colours_of_range(f: &[&str]) -> Vec<RgbColor> {
    let start: u64 = f[0].parse().expect("start");
    let count: u64 = f[1].parse().expect("count");
    let step: u64 = f[2].parse().expect("step");
    (0..count)
        .map(|k| {
            let c = (start + k * step) & 0xFF_FFFF;
            RgbColor((c >> 16) as u8, (c >> 8) as u8, c as u8)
        })
        .collect()
}

fn palette_of_hex(s: &str) -> Option<Palette> {
    if s.len() != 96 {
        return None;
    }
    let l = colours_of_hex(s);
    let raw: [RgbColor; 16] = l.try_into().ok()?;
    let p = Palette::from(raw);
    // the platform default (not Windows: the VGA table) is reached through `Palette::default()` / `DEFAULT`
    if p == anstyle_lossy::palette::VGA {
        assert!(Palette::default() == p && anstyle_lossy::palette::DEFAULT == p, "Palette::default()");
        return Some(if raw[1].0 % 2 == 0 { Palette::default() } else { anstyle_lossy::palette::DEFAULT });
    }
    Some(p)
}

fn hex_rgb(c: RgbColor) -> String {
    format!("{:02x}{:02x}{:02x}", c.r(), c.g(), c.b())
}

const DIGIT: &[u8; 16] = b"0123456789abcdef";

fn a16(pal: &str, cols: Vec<RgbColor>) -> String {
    let Some(p) = palette_of_hex(pal) else { return "BADCASE".to_owned() };
    let mut s = String::with_capacity(cols.len());
    for c in cols {
        s.push(DIGIT[ansi_no(anstyle_lossy::rgb_to_ansi(c, p)) as usize] as char);
    }
    s
}

fn x256(cols: Vec<RgbColor>) -> String {
    let mut s = String::with_capacity(cols.len() * 2);
    for c in cols {
        let _ = write!(s, "{:02x}", anstyle_lossy::rgb_to_xterm(c).index());
    }
    s
}

fn lrgb(pal: &str, cols: Vec<RgbColor>) -> String {
    let Some(p) = palette_of_hex(pal) else { return "BADCASE".to_owned() };
    let parts: Vec<String> = cols
        .into_iter()
        .map(|c| {
            let col = Color::Rgb(c);
            format!(
                "{}:{:02x}:{:x}",
                hex_rgb(anstyle_lossy::color_to_rgb(col, p)),
                anstyle_lossy::color_to_xterm(col).index(),
                ansi_no(anstyle_lossy::color_to_ansi(col, p))
            )
        })
        .collect();
    parts.join(",")
}

fn lidx(pal: &str, i: &str) -> String {
    let Some(p) = palette_of_hex(pal) else { return "BADCASE".to_owned() };
    let i = Ansi256Color(i.parse::<u8>().expect("index"));
    let col = Color::Ansi256(i);
    format!(
        "{} {:x} {} {:02x} {:x}",
        hex_rgb(anstyle_lossy::xterm_to_rgb(i, p)),
        ansi_no(anstyle_lossy::xterm_to_ansi(i, p)),
        hex_rgb(anstyle_lossy::color_to_rgb(col, p)),
        anstyle_lossy::color_to_xterm(col).index(),
        ansi_no(anstyle_lossy::color_to_ansi(col, p))
    )
}

fn lans(pal: &str, a: &str) -> String {
    let Some(p) = palette_of_hex(pal) else { return "BADCASE".to_owned() };
    // a number that is no AnsiColor has no Rust value: same answer as a model None
    let Some(a) = ansi_of(a.parse::<u8>().expect("ansi")) else { return "PANIC".to_owned() };
    let col = Color::Ansi(a);
    format!(
        "{} {} {} {} {:02x} {:x}",
        hex_rgb(anstyle_lossy::ansi_to_rgb(a, p)),
        hex_rgb(p.get(a)),
        hex_rgb(p[a]),
        hex_rgb(anstyle_lossy::color_to_rgb(col, p)),
        anstyle_lossy::color_to_xterm(col).index(),
        ansi_no(anstyle_lossy::color_to_ansi(col, p))
    )
}

pub fn dispatch(kind: &str, f: &[&str]) -> Option<String> {
    Some(match kind {
        "a16l" => a16(f[0], colours_of_hex(f[1])),
        "a16r" => a16(f[0], colours_of_range(&f[1..])),
        "x256l" => x256(colours_of_hex(f[0])),
        "x256r" => x256(colours_of_range(f)),
        "lrgb" => lrgb(f[0], colours_of_hex(f[1])),
        "lidx" => lidx(f[0], f[1]),
        "lans" => lans(f[0], f[1]),
        _ => return None,
    })
}
