//! Shadow copy of the private / sealed parts of `anstream` (DESIGN.md section 4).
//!
//! The working-tree sources `crates/anstream/src/{stream,strip,auto,fmt,buffer}.rs`
//! are copied into `OUT_DIR` on every build; the only edit is that lines starting
//! with `//!` or `#![` are dropped (an `include!`d file may not carry inner
//! attributes or inner doc comments).  `src/shadow.rs` includes the copies into a
//! module tree that mirrors their `crate::...` paths and adds the probe impls of
//! the sealed traits.  The repository root is `/repo`, or `$VERIF_REPO`.
use std::path::PathBuf;

const FILES: [&str; 5] = ["stream.rs", "strip.rs", "auto.rs", "fmt.rs", "buffer.rs"];

fn main() {
    println!("cargo:rerun-if-env-changed=VERIF_REPO");
    println!("cargo:rerun-if-changed=build.rs");
    let repo = std::env::var("VERIF_REPO").unwrap_or_else(|_| "/repo".to_owned());
    let out = PathBuf::from(std::env::var("OUT_DIR").expect("OUT_DIR"));
    for f in FILES {
        let src = format!("{repo}/crates/anstream/src/{f}");
        println!("cargo:rerun-if-changed={src}");
        let text = std::fs::read_to_string(&src).unwrap_or_else(|e| panic!("cannot read {src}: {e}"));
        let mut kept = String::with_capacity(text.len());
        for line in text.lines() {
            let t = line.trim_start();
            if t.starts_with("//!") || t.starts_with("#![") {
                continue;
            }
            kept.push_str(line);
            kept.push('\n');
        }
        std::fs::write(out.join(f), kept).unwrap_or_else(|e| panic!("cannot write {f}: {e}"));
    }
}
