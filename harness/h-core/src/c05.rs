//! C05: rendering of `anstyle::{Style, Color, Effects, Reset}`.
//!
//! A style is written `fg,bg,ul,effects-bits` with colours `-|a<i>|x<i>|r<r>.<g>.<b>`
//! (the canonical form of `c07::style`); format flags are written
//! `<alternate 0|1>:<width|->:<fill char code>:<align <|^|>|->:<precision|->` and must
//! lie on the grid width {none,0,1,8} x fill {space,'*'} x align {none,<,^,>} x
//! precision {none,0,2} x alternate (a fill needs an alignment).  Every grid point is
//! a literal format string below.
//!
//! kinds
//!   rnd <style> <flags>    Style: format!(flags), render() / render_reset() under the
//!                          flags, render().to_string(), write_to (one item per inner
//!                          write), render_reset().to_string(), write_reset_to
//!   rnc <colour> <flags>   Color::render_fg / render_bg and the typed
//!                          AnsiColor / Ansi256Color / RgbColor ::render_fg / render_bg
//!   rne <bits> <flags>     Effects::render
//!   rnr <flags>            Reset, Reset.render()
use crate::c07::EFFECTS;
use crate::hex;
use anstyle::{Ansi256Color, AnsiColor, Color, Effects, Reset, RgbColor, Style};
use std::fmt::Display;

const ANSI: [AnsiColor; 16] = [
    AnsiColor::Black,
    AnsiColor::Red,
    AnsiColor::Green,
    AnsiColor::Yellow,
    AnsiColor::Blue,
    AnsiColor::Magenta,
    AnsiColor::Cyan,
    AnsiColor::White,
    AnsiColor::BrightBlack,
    AnsiColor::BrightRed,
    AnsiColor::BrightGreen,
    AnsiColor::BrightYellow,
    AnsiColor::BrightBlue,
    AnsiColor::BrightMagenta,
    AnsiColor::BrightCyan,
    AnsiColor::BrightWhite,
];

fn u8_of(t: &str) -> u8 {
    t.parse::<u8>().expect("u8 component")
}

fn parse_color(t: &str) -> Option<Color> {
    if t == "-" {
        return None;
    }
    let (tag, rest) = t.split_at(1);
    Some(match tag {
        "a" => Color::Ansi(ANSI[rest.parse::<usize>().expect("palette index")]),
        "x" => Color::Ansi256(Ansi256Color(u8_of(rest))),
        "r" => {
            let p: Vec<&str> = rest.split('.').collect();
            assert!(p.len() == 3, "rgb");
            Color::Rgb(RgbColor(u8_of(p[0]), u8_of(p[1]), u8_of(p[2])))
        }
        _ => panic!("colour tag"),
    })
}

fn parse_effects(t: &str) -> Effects {
    let bits: u32 = t.parse().expect("effects bits");
    assert!(bits < 4096, "effects bits out of range");
    let mut e = Effects::new();
    for (i, f) in EFFECTS.iter().enumerate() {
        if bits & (1 << i) != 0 {
            e = e.insert(*f);
        }
    }
    e
}

fn parse_style(t: &str) -> Style {
    let p: Vec<&str> = t.split(',').collect();
    assert!(p.len() == 4, "style");
    Style::new()
        .fg_color(parse_color(p[0]))
        .bg_color(parse_color(p[1]))
        .underline_color(parse_color(p[2]))
        .effects(parse_effects(p[3]))
}

macro_rules! grid {
    ($d:expr, $key:expr; plain: $(($k:literal, $spec:literal)),* ; w0: $(($k0:literal, $spec0:literal)),*) => {
        match $key {
            $( $k => format!(concat!("{:", $spec, "}"), $d), )*
            $( $k0 => format!(concat!("{:", $spec0, "}"), $d, w = 0usize), )*
            other => panic!("flags outside the grid: {other}"),
        }
    };
}

/// `format!("{:<flags>}", d)` for a grid point
fn fmtg<D: Display>(d: &D, key: &str) -> String {
    grid!(d, key;
        plain:
        ("0:-:32:-:-", ""), ("0:-:32:-:0", ".0"), ("0:-:32:-:2", ".2"), ("0:-:32:<:-", " <"),
        ("0:-:32:<:0", " <.0"), ("0:-:32:<:2", " <.2"), ("0:-:32:^:-", " ^"), ("0:-:32:^:0", " ^.0"),
        ("0:-:32:^:2", " ^.2"), ("0:-:32:>:-", " >"), ("0:-:32:>:0", " >.0"), ("0:-:32:>:2", " >.2"),
        ("0:-:42:<:-", "*<"), ("0:-:42:<:0", "*<.0"), ("0:-:42:<:2", "*<.2"), ("0:-:42:^:-", "*^"),
        ("0:-:42:^:0", "*^.0"), ("0:-:42:^:2", "*^.2"), ("0:-:42:>:-", "*>"), ("0:-:42:>:0", "*>.0"),
        ("0:-:42:>:2", "*>.2"), ("0:1:32:-:-", "1"), ("0:1:32:-:0", "1.0"), ("0:1:32:-:2", "1.2"),
        ("0:1:32:<:-", " <1"), ("0:1:32:<:0", " <1.0"), ("0:1:32:<:2", " <1.2"), ("0:1:32:^:-", " ^1"),
        ("0:1:32:^:0", " ^1.0"), ("0:1:32:^:2", " ^1.2"), ("0:1:32:>:-", " >1"), ("0:1:32:>:0", " >1.0"),
        ("0:1:32:>:2", " >1.2"), ("0:1:42:<:-", "*<1"), ("0:1:42:<:0", "*<1.0"), ("0:1:42:<:2", "*<1.2"),
        ("0:1:42:^:-", "*^1"), ("0:1:42:^:0", "*^1.0"), ("0:1:42:^:2", "*^1.2"), ("0:1:42:>:-", "*>1"),
        ("0:1:42:>:0", "*>1.0"), ("0:1:42:>:2", "*>1.2"), ("0:8:32:-:-", "8"), ("0:8:32:-:0", "8.0"),
        ("0:8:32:-:2", "8.2"), ("0:8:32:<:-", " <8"), ("0:8:32:<:0", " <8.0"), ("0:8:32:<:2", " <8.2"),
        ("0:8:32:^:-", " ^8"), ("0:8:32:^:0", " ^8.0"), ("0:8:32:^:2", " ^8.2"), ("0:8:32:>:-", " >8"),
        ("0:8:32:>:0", " >8.0"), ("0:8:32:>:2", " >8.2"), ("0:8:42:<:-", "*<8"), ("0:8:42:<:0", "*<8.0"),
        ("0:8:42:<:2", "*<8.2"), ("0:8:42:^:-", "*^8"), ("0:8:42:^:0", "*^8.0"), ("0:8:42:^:2", "*^8.2"),
        ("0:8:42:>:-", "*>8"), ("0:8:42:>:0", "*>8.0"), ("0:8:42:>:2", "*>8.2"), ("1:-:32:-:-", "#"),
        ("1:-:32:-:0", "#.0"), ("1:-:32:-:2", "#.2"), ("1:-:32:<:-", " <#"), ("1:-:32:<:0", " <#.0"),
        ("1:-:32:<:2", " <#.2"), ("1:-:32:^:-", " ^#"), ("1:-:32:^:0", " ^#.0"), ("1:-:32:^:2", " ^#.2"),
        ("1:-:32:>:-", " >#"), ("1:-:32:>:0", " >#.0"), ("1:-:32:>:2", " >#.2"), ("1:-:42:<:-", "*<#"),
        ("1:-:42:<:0", "*<#.0"), ("1:-:42:<:2", "*<#.2"), ("1:-:42:^:-", "*^#"), ("1:-:42:^:0", "*^#.0"),
        ("1:-:42:^:2", "*^#.2"), ("1:-:42:>:-", "*>#"), ("1:-:42:>:0", "*>#.0"), ("1:-:42:>:2", "*>#.2"),
        ("1:1:32:-:-", "#1"), ("1:1:32:-:0", "#1.0"), ("1:1:32:-:2", "#1.2"), ("1:1:32:<:-", " <#1"),
        ("1:1:32:<:0", " <#1.0"), ("1:1:32:<:2", " <#1.2"), ("1:1:32:^:-", " ^#1"), ("1:1:32:^:0", " ^#1.0"),
        ("1:1:32:^:2", " ^#1.2"), ("1:1:32:>:-", " >#1"), ("1:1:32:>:0", " >#1.0"), ("1:1:32:>:2", " >#1.2"),
        ("1:1:42:<:-", "*<#1"), ("1:1:42:<:0", "*<#1.0"), ("1:1:42:<:2", "*<#1.2"), ("1:1:42:^:-", "*^#1"),
        ("1:1:42:^:0", "*^#1.0"), ("1:1:42:^:2", "*^#1.2"), ("1:1:42:>:-", "*>#1"), ("1:1:42:>:0", "*>#1.0"),
        ("1:1:42:>:2", "*>#1.2"), ("1:8:32:-:-", "#8"), ("1:8:32:-:0", "#8.0"), ("1:8:32:-:2", "#8.2"),
        ("1:8:32:<:-", " <#8"), ("1:8:32:<:0", " <#8.0"), ("1:8:32:<:2", " <#8.2"), ("1:8:32:^:-", " ^#8"),
        ("1:8:32:^:0", " ^#8.0"), ("1:8:32:^:2", " ^#8.2"), ("1:8:32:>:-", " >#8"), ("1:8:32:>:0", " >#8.0"),
        ("1:8:32:>:2", " >#8.2"), ("1:8:42:<:-", "*<#8"), ("1:8:42:<:0", "*<#8.0"), ("1:8:42:<:2", "*<#8.2"),
        ("1:8:42:^:-", "*^#8"), ("1:8:42:^:0", "*^#8.0"), ("1:8:42:^:2", "*^#8.2"), ("1:8:42:>:-", "*>#8"),
        ("1:8:42:>:0", "*>#8.0"), ("1:8:42:>:2", "*>#8.2");
        w0:
        ("0:0:32:-:-", "w$"), ("0:0:32:-:0", "w$.0"), ("0:0:32:-:2", "w$.2"), ("0:0:32:<:-", " <w$"),
        ("0:0:32:<:0", " <w$.0"), ("0:0:32:<:2", " <w$.2"), ("0:0:32:^:-", " ^w$"), ("0:0:32:^:0", " ^w$.0"),
        ("0:0:32:^:2", " ^w$.2"), ("0:0:32:>:-", " >w$"), ("0:0:32:>:0", " >w$.0"), ("0:0:32:>:2", " >w$.2"),
        ("0:0:42:<:-", "*<w$"), ("0:0:42:<:0", "*<w$.0"), ("0:0:42:<:2", "*<w$.2"), ("0:0:42:^:-", "*^w$"),
        ("0:0:42:^:0", "*^w$.0"), ("0:0:42:^:2", "*^w$.2"), ("0:0:42:>:-", "*>w$"), ("0:0:42:>:0", "*>w$.0"),
        ("0:0:42:>:2", "*>w$.2"), ("1:0:32:-:-", "#w$"), ("1:0:32:-:0", "#w$.0"), ("1:0:32:-:2", "#w$.2"),
        ("1:0:32:<:-", " <#w$"), ("1:0:32:<:0", " <#w$.0"), ("1:0:32:<:2", " <#w$.2"),
        ("1:0:32:^:-", " ^#w$"), ("1:0:32:^:0", " ^#w$.0"), ("1:0:32:^:2", " ^#w$.2"),
        ("1:0:32:>:-", " >#w$"), ("1:0:32:>:0", " >#w$.0"), ("1:0:32:>:2", " >#w$.2"),
        ("1:0:42:<:-", "*<#w$"), ("1:0:42:<:0", "*<#w$.0"), ("1:0:42:<:2", "*<#w$.2"),
        ("1:0:42:^:-", "*^#w$"), ("1:0:42:^:0", "*^#w$.0"), ("1:0:42:^:2", "*^#w$.2"),
        ("1:0:42:>:-", "*>#w$"), ("1:0:42:>:0", "*>#w$.0"), ("1:0:42:>:2", "*>#w$.2")
    )
}

fn hx(s: &str) -> String {
    let h = hex(s.as_bytes());
    if h.is_empty() {
        "-".to_owned()
    } else {
        h
    }
}

/// an `io::Write` that accepts everything and records every inner `write` call
struct Rec(Vec<Vec<u8>>);

impl std::io::Write for Rec {
    fn write(&mut self, buf: &[u8]) -> std::io::Result<usize> {
        self.0.push(buf.to_vec());
        Ok(buf.len())
    }
    fn flush(&mut self) -> std::io::Result<()> {
        Ok(())
    }
}

fn frags(r: &Rec) -> String {
    if r.0.is_empty() {
        "-".to_owned()
    } else {
        r.0.iter().map(|b| hex(b)).collect::<Vec<_>>().join("/")
    }
}

/// an `io::Write` that takes at most 3 bytes per call (and nothing on every 5th call: `Interrupted`)
struct Short(Vec<u8>, usize);

impl std::io::Write for Short {
    fn write(&mut self, buf: &[u8]) -> std::io::Result<usize> {
        self.1 += 1;
        if self.1 % 5 == 0 {
            return Err(std::io::Error::from(std::io::ErrorKind::Interrupted));
        }
        let n = buf.len().min(3);
        self.0.extend_from_slice(&buf[..n]);
        Ok(n)
    }
    fn flush(&mut self) -> std::io::Result<()> {
        Ok(())
    }
}

fn rnd(f: &[&str]) -> String {
    let s = parse_style(f[0]);
    let key = f[1];
    let mut sh = Short(Vec::new(), 0);
    s.write_to(&mut sh).expect("write_to (short writer)");
    s.write_reset_to(&mut sh).expect("write_reset_to (short writer)");
    let mut w = Rec(Vec::new());
    s.write_to(&mut w).expect("write_to");
    let mut wr = Rec(Vec::new());
    s.write_reset_to(&mut wr).expect("write_reset_to");
    format!(
        "fmt={} rfmt={} zfmt={} render={} write={} reset={} wreset={} short={}",
        hx(&fmtg(&s, key)),
        hx(&fmtg(&s.render(), key)),
        hx(&fmtg(&s.render_reset(), key)),
        hx(&s.render().to_string()),
        frags(&w),
        hx(&s.render_reset().to_string()),
        frags(&wr),
        if sh.0.is_empty() { "-".to_owned() } else { hex(&sh.0) }
    )
}

fn rnc(f: &[&str]) -> String {
    let c = parse_color(f[0]).expect("a colour");
    let key = f[1];
    let (tfg, tbg) = match c {
        Color::Ansi(a) => (fmtg(&a.render_fg(), key), fmtg(&a.render_bg(), key)),
        Color::Ansi256(a) => (fmtg(&a.render_fg(), key), fmtg(&a.render_bg(), key)),
        Color::Rgb(a) => (fmtg(&a.render_fg(), key), fmtg(&a.render_bg(), key)),
    };
    format!(
        "fg={} bg={} tfg={} tbg={}",
        hx(&fmtg(&c.render_fg(), key)),
        hx(&fmtg(&c.render_bg(), key)),
        hx(&tfg),
        hx(&tbg)
    )
}

fn rne(f: &[&str]) -> String {
    let e = parse_effects(f[0]);
    format!("eff={}", hx(&fmtg(&e.render(), f[1])))
}

fn rnr(f: &[&str]) -> String {
    format!("reset={} render={}", hx(&fmtg(&Reset, f[0])), hx(&fmtg(&Reset.render(), f[0])))
}

pub fn dispatch(kind: &str, f: &[&str]) -> Option<String> {
    Some(match kind {
        "rnd" => rnd(f),
        "rnc" => rnc(f),
        "rne" => rne(f),
        "rnr" => rnr(f),
        _ => return None,
    })
}
