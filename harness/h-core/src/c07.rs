//! C07 / C03: styled-run extraction (`anstream::adapter::WinconBytes`).
use crate::c01::cuts;
use crate::unhex;
use anstream::adapter::WinconBytes;
use anstyle::{Color, Effects, Style};

pub const EFFECTS: [Effects; 12] = [
    Effects::BOLD,
    Effects::DIMMED,
    Effects::ITALIC,
    Effects::UNDERLINE,
    Effects::DOUBLE_UNDERLINE,
    Effects::CURLY_UNDERLINE,
    Effects::DOTTED_UNDERLINE,
    Effects::DASHED_UNDERLINE,
    Effects::BLINK,
    Effects::INVERT,
    Effects::HIDDEN,
    Effects::STRIKETHROUGH,
];

pub fn color(c: Option<Color>) -> String {
    match c {
        None => "-".to_owned(),
        Some(Color::Ansi(a)) => format!("a{}", ansi_index(a)),
        Some(Color::Ansi256(x)) => format!("x{}", x.0),
        Some(Color::Rgb(r)) => format!("r{}.{}.{}", r.0, r.1, r.2),
    }
}

pub fn ansi_index(a: anstyle::AnsiColor) -> u8 {
    use anstyle::AnsiColor::*;
    match a {
        Black => 0,
        Red => 1,
        Green => 2,
        Yellow => 3,
        Blue => 4,
        Magenta => 5,
        Cyan => 6,
        White => 7,
        BrightBlack => 8,
        BrightRed => 9,
        BrightGreen => 10,
        BrightYellow => 11,
        BrightBlue => 12,
        BrightMagenta => 13,
        BrightCyan => 14,
        BrightWhite => 15,
    }
}

pub fn effects_bits(e: Effects) -> u32 {
    let mut bits = 0;
    for (i, f) in EFFECTS.iter().enumerate() {
        if e.contains(*f) {
            bits |= 1 << i;
        }
    }
    bits
}

pub fn style(s: &Style) -> String {
    format!(
        "{},{},{},{}",
        color(s.get_fg_color()),
        color(s.get_bg_color()),
        color(s.get_underline_color()),
        effects_bits(s.get_effects())
    )
}

fn item(s: &Style, t: &str) -> String {
    let cps: Vec<String> = t.chars().map(|c| (c as u32).to_string()).collect();
    format!("{}={}", style(s), cps.join("."))
}

/// `wx <hex> <cuts>`: items per chunk; `wxm`: all items, neighbours of equal style merged
pub fn wx(f: &[&str], merged: bool) -> String {
    let data = unhex(f[0]);
    let cs = cuts(f[1], data.len());
    let cs_len_one = cs.len() == 1;
    let mut st = WinconBytes::new();
    let mut prev = 0;
    let mut chunks: Vec<Vec<(Style, String)>> = Vec::new();
    for c in cs {
        let chunk = &data[prev..c];
        prev = c;
        if c % 2 == 1 {
            // the state is a value: go on with a clone
            let copy = st.clone();
            assert!(copy == st, "Clone / PartialEq for WinconBytes");
            st = copy;
        }
        chunks.push(st.extract_next(chunk).collect());
    }
    if cs_len_one {
        // provided Iterator methods of WinconBytesIter agree with stepping through next()
        let all: &Vec<(Style, String)> = &chunks[0];
        assert_eq!(WinconBytes::new().extract_next(&data).count(), all.len(), "count()");
        assert_eq!(WinconBytes::new().extract_next(&data).last(), all.last().cloned(), "last()");
    }
    if merged {
        let mut out: Vec<(Style, String)> = Vec::new();
        for (s, t) in chunks.into_iter().flatten() {
            match out.last_mut() {
                Some((ls, lt)) if *ls == s => lt.push_str(&t),
                _ => out.push((s, t)),
            }
        }
        out.iter().map(|(s, t)| item(s, t)).collect::<Vec<_>>().join(" ")
    } else {
        chunks
            .iter()
            .map(|c| c.iter().map(|(s, t)| item(s, t)).collect::<Vec<_>>().join(" "))
            .collect::<Vec<_>>()
            .join(" | ")
    }
}

pub fn dispatch(kind: &str, f: &[&str]) -> Option<String> {
    Some(match kind {
        "wx" => wx(f, false),
        "wxm" => wx(f, true),
        _ => return None,
    })
}
