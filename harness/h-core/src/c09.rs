//! C09 -- colour auto-detection: `anstream::AutoStream::choice`, the
//! `anstyle_query` probes, the `colorchoice` global.
//!
//! The decision reads process-global state (environment, the global atomic,
//! isatty of stdout / stderr), so it is observed in a single-threaded process of
//! its own:
//!
//! `hcore --c09-child <result-file>` (hidden mode, see `main`) reads one
//! configuration per line from stdin -- `<global> [<name>=<value>]...`, names and
//! values in hex, `-` for the empty string, a variable that is not listed is
//! unset -- and for each one sets the environment to exactly those variables,
//! calls `ColorChoice::write_global(global)` and then `AutoStream::choice` on the
//! process's real stdout and stderr.  The answers go to `<result-file>` (never to
//! stdout / stderr: they are the streams under test).  Whoever starts the child
//! decides what stdout / stderr are connected to (pipe, /dev/null, pty slave).
//!
//! Case kinds answered in the usual `<cases> <out>` protocol:
//!   c09 <global> <tty 0|1> [<name>=<value>]...   runs one child for the case, stdout and
//!        stderr connected to /dev/null (0) or to the slave side of a fresh pty (1)
//!   c09s <type> <fdtty 0|1> <global> [<name>=<value>]...   in-process, on a stream of the
//!        named type (the in-memory types of stream.rs; std::fs::File on /dev/null or a pty)
//!   c09p <probe> [<name>=<value>]...             one anstyle_query probe, in-process
//!   c09g <choice>                                write_global then global, in-process
//! (hcore runs its cases sequentially on one thread, so set_var / remove_var are safe.)

use std::ffi::OsString;
use std::io::{BufRead, Write};
use std::os::unix::ffi::OsStringExt;
use std::sync::{Mutex, OnceLock};

use anstream::AutoStream;
use colorchoice::ColorChoice;

fn choice_of(s: &str) -> ColorChoice {
    match s {
        "Auto" => ColorChoice::Auto,
        "AlwaysAnsi" => ColorChoice::AlwaysAnsi,
        "Always" => ColorChoice::Always,
        "Never" => ColorChoice::Never,
        _ => panic!("choice {s}"),
    }
}

fn name(c: ColorChoice) -> &'static str {
    match c {
        ColorChoice::Auto => "Auto",
        ColorChoice::AlwaysAnsi => "AlwaysAnsi",
        ColorChoice::Always => "Always",
        ColorChoice::Never => "Never",
    }
}

fn bit(s: &str) -> bool {
    match s {
        "0" => false,
        "1" => true,
        _ => panic!("bit {s}"),
    }
}

fn bindings(f: &[&str]) -> Vec<(OsString, OsString)> {
    f.iter()
        .map(|b| {
            let (n, v) = b.split_once('=').expect("name=value");
            (OsString::from_vec(crate::unhex(n)), OsString::from_vec(crate::unhex(v)))
        })
        .collect()
}

/// names this process has set; `None` until the inherited environment was wiped
static SET: Mutex<Option<Vec<OsString>>> = Mutex::new(None);

/// make the environment of this process exactly `b`
fn apply_env(b: &[(OsString, OsString)]) {
    let mut guard = SET.lock().unwrap_or_else(|e| e.into_inner());
    match guard.take() {
        None => {
            let inherited: Vec<OsString> = std::env::vars_os().map(|(k, _)| k).collect();
            for k in inherited {
                std::env::remove_var(k);
            }
        }
        Some(prev) => {
            for k in prev {
                std::env::remove_var(k);
            }
        }
    }
    for (k, v) in b {
        std::env::set_var(k, v);
    }
    *guard = Some(b.iter().map(|(k, _)| k.clone()).collect());
}

// --------------------------------------------------------------------- child mode

pub fn child_main(args: &[String]) {
    std::panic::set_hook(Box::new(|_| {}));
    let path = args.first().expect("usage: hcore --c09-child <result-file>");
    let mut out = std::io::BufWriter::new(std::fs::File::create(path).expect("create result file"));
    writeln!(
        out,
        "init={} stdout_tty={} stderr_tty={}",
        name(ColorChoice::global()),
        u8::from(std::io::IsTerminal::is_terminal(&std::io::stdout())),
        u8::from(std::io::IsTerminal::is_terminal(&std::io::stderr()))
    )
    .expect("write");
    for line in std::io::stdin().lock().lines() {
        let line = line.expect("read");
        if line.is_empty() {
            continue;
        }
        let r = std::panic::catch_unwind(|| {
            let f: Vec<&str> = line.split(' ').collect();
            apply_env(&bindings(&f[1..]));
            choice_of(f[0]).write_global();
            let o = AutoStream::choice(&std::io::stdout());
            let e = AutoStream::choice(&std::io::stderr());
            format!("stdout={} stderr={}", name(o), name(e))
        })
        .unwrap_or_else(|_| "PANIC".to_owned());
        writeln!(out, "{r}").expect("write");
    }
    out.flush().expect("flush");
}

// ------------------------------------------------------------------------- a pty

mod pty {
    use std::fs::File;
    use std::os::fd::FromRawFd;
    use std::os::raw::{c_char, c_int};
    use std::os::unix::fs::OpenOptionsExt;

    extern "C" {
        fn posix_openpt(flags: c_int) -> c_int;
        fn grantpt(fd: c_int) -> c_int;
        fn unlockpt(fd: c_int) -> c_int;
        fn ptsname_r(fd: c_int, buf: *mut c_char, buflen: usize) -> c_int;
    }
    const O_RDWR: c_int = 2;
    const O_NOCTTY: c_int = 0o400;

    /// (master, slave) of a new pseudo-terminal
    pub fn open() -> (File, File) {
        // SAFETY: plain libc calls on a descriptor this function owns; the name
        // buffer is large enough for /dev/pts/<n> and NUL-terminated by ptsname_r.
        unsafe {
            let m = posix_openpt(O_RDWR | O_NOCTTY);
            assert!(m >= 0, "posix_openpt");
            let master = File::from_raw_fd(m);
            assert!(grantpt(m) == 0, "grantpt");
            assert!(unlockpt(m) == 0, "unlockpt");
            let mut buf = [0 as c_char; 128];
            assert!(ptsname_r(m, buf.as_mut_ptr(), buf.len()) == 0, "ptsname_r");
            let path = std::ffi::CStr::from_ptr(buf.as_ptr()).to_str().expect("pts name").to_owned();
            let slave = std::fs::OpenOptions::new()
                .read(true)
                .write(true)
                .custom_flags(O_NOCTTY)
                .open(path)
                .expect("open pty slave");
            (master, slave)
        }
    }
}

fn pty_slave() -> std::fs::File {
    static PTY: OnceLock<(std::fs::File, std::fs::File)> = OnceLock::new();
    PTY.get_or_init(pty::open).1.try_clone().expect("dup pty slave")
}

// ------------------------------------------------------------ one child per case

fn run_child(tty: bool, config: &str) -> String {
    static SEQ: Mutex<u64> = Mutex::new(0);
    let seq = {
        let mut g = SEQ.lock().unwrap_or_else(|e| e.into_inner());
        *g += 1;
        *g
    };
    // next to hcore's own result file (.cache/run/...), not in a shared temp dir
    let base = std::env::args().nth(2).unwrap_or_else(|| "c09".to_owned());
    let path = format!("{base}.c09child-{}-{seq}", std::process::id());
    let stdio = |tty: bool| -> std::process::Stdio {
        if tty {
            pty_slave().into()
        } else {
            std::process::Stdio::null()
        }
    };
    let mut child = std::process::Command::new(std::env::current_exe().expect("current_exe"))
        .arg("--c09-child")
        .arg(&path)
        .env_clear()
        .stdin(std::process::Stdio::piped())
        .stdout(stdio(tty))
        .stderr(stdio(tty))
        .spawn()
        .expect("spawn child");
    {
        let mut stdin = child.stdin.take().expect("child stdin");
        writeln!(stdin, "{config}").expect("write config");
    }
    let status = child.wait().expect("wait");
    let text = std::fs::read_to_string(&path).unwrap_or_default();
    let _ = std::fs::remove_file(&path);
    if !status.success() {
        return format!("CHILD-FAILED {status}");
    }
    let mut lines = text.lines();
    let header = lines.next().unwrap_or("");
    let want = format!("stdout_tty={} stderr_tty={}", u8::from(tty), u8::from(tty));
    if !header.ends_with(&want) {
        return format!("BAD-STREAMS {header}");
    }
    lines.next().unwrap_or("NO-RESULT").to_owned()
}

// ------------------------------------------------------------------- in-process

fn choice_on(ty: &str, fdtty: bool) -> Option<ColorChoice> {
    use std::io::Write as W;
    Some(match ty {
        "Vec<u8>" => AutoStream::<Vec<u8>>::choice(&Vec::new()),
        "dyn std::io::Write" => {
            let b: Box<dyn W> = Box::new(Vec::new());
            AutoStream::<Box<dyn W>>::choice(&b)
        }
        "dyn std::io::Write + Send" => {
            let b: Box<dyn W + Send> = Box::new(Vec::new());
            AutoStream::<Box<dyn W + Send>>::choice(&b)
        }
        "dyn std::io::Write + Send + Sync" => {
            let b: Box<dyn W + Send + Sync> = Box::new(Vec::new());
            AutoStream::<Box<dyn W + Send + Sync>>::choice(&b)
        }
        #[allow(deprecated)]
        "crate::Buffer" => AutoStream::<anstream::Buffer>::choice(&anstream::Buffer::new()),
        "std::fs::File" => {
            let f = if fdtty {
                pty_slave()
            } else {
                std::fs::OpenOptions::new().write(true).open("/dev/null").expect("open /dev/null")
            };
            assert_eq!(std::io::IsTerminal::is_terminal(&f), fdtty, "descriptor kind");
            AutoStream::<std::fs::File>::choice(&f)
        }
        _ => return None,
    })
}

fn probe(p: &str) -> String {
    let b = |x: bool| if x { "1" } else { "0" }.to_owned();
    match p {
        "no_color" => b(anstyle_query::no_color()),
        "clicolor_force" => b(anstyle_query::clicolor_force()),
        "term_supports_color" => b(anstyle_query::term_supports_color()),
        "term_supports_ansi_color" => b(anstyle_query::term_supports_ansi_color()),
        "truecolor" => b(anstyle_query::truecolor()),
        "is_ci" => b(anstyle_query::is_ci()),
        "clicolor" => match anstyle_query::clicolor() {
            None => "none".to_owned(),
            Some(x) => format!("some{}", b(x)),
        },
        _ => format!("UNKNOWN-PROBE {p}"),
    }
}


// ------------------------------------------------ the macros, each stream of its own kind

/// child mode `hcore --c09m-child <macro> <global> <payload hex>`: one `anstream::print!` / `println!` /
/// `eprint!` / `eprintln!` / `panic!` of `<<payload>>` on the REAL stdout / stderr after `write_global`
pub fn macro_child(args: &[String]) -> i32 {
    choice_of(&args[1]).write_global();
    let payload = String::from_utf8(crate::unhex(&args[2])).expect("utf8 payload");
    let text = format!("<<{payload}>>");
    match args[0].as_str() {
        "print" => anstream::print!("{}", text),
        "println" => anstream::println!("{}", text),
        "eprint" => anstream::eprint!("{}", text),
        "eprintln" => anstream::eprintln!("{}", text),
        "panic" => anstream::panic!("{}", text),
        _ => return 2,
    }
    0
}

/// `c09m <macro> <stdout tty 0|1> <stderr tty 0|1> <payload hex> <global> [<name>=<value>]...`: the child above
/// with exactly the given environment, stdout and stderr EACH on a pseudo-terminal of its own or on a pipe;
/// the answer is what arrived between the `<<` `>>` markers on the stream the macro writes to
/// (stdout for print / println, stderr for eprint / eprintln / panic, whose message the panic hook prints there)
fn macro_case(f: &[&str]) -> String {
    use std::io::Read;
    let (mac, out_tty, err_tty) = (f[0], bit(f[1]), bit(f[2]));
    let mut cmd = std::process::Command::new(std::env::current_exe().expect("current_exe"));
    cmd.arg("--c09m-child").arg(mac).arg(f[4]).arg(f[3]).env_clear().stdin(std::process::Stdio::null());
    for (k, v) in bindings(&f[5..]) {
        cmd.env(k, v);
    }
    let mut masters: [Option<std::fs::File>; 2] = [None, None];
    for (i, tty) in [out_tty, err_tty].into_iter().enumerate() {
        let io: std::process::Stdio = if tty {
            let (m, s) = pty::open();
            masters[i] = Some(m);
            s.into()
        } else {
            std::process::Stdio::piped()
        };
        if i == 0 {
            cmd.stdout(io);
        } else {
            cmd.stderr(io);
        }
    }
    let mut child = cmd.spawn().expect("spawn child");
    drop(cmd); // closes this process's copies of the pty slaves
    let mut got: [Vec<u8>; 2] = [Vec::new(), Vec::new()];
    // payloads are far below the pipe / pty buffer sizes: the child never blocks on a full buffer
    let status = child.wait().expect("wait");
    if let Some(mut o) = child.stdout.take() {
        let _ = o.read_to_end(&mut got[0]);
    }
    if let Some(mut e) = child.stderr.take() {
        let _ = e.read_to_end(&mut got[1]);
    }
    for i in 0..2 {
        if let Some(m) = masters[i].as_mut() {
            let mut buf = [0u8; 4096];
            loop {
                match m.read(&mut buf) {
                    Ok(0) | Err(_) => break, // EIO once every slave is closed and the buffer is drained
                    Ok(n) => got[i].extend_from_slice(&buf[..n]),
                }
            }
        }
    }
    let want_code = if mac == "panic" { Some(101) } else { Some(0) };
    if status.code() != want_code {
        return format!("CHILD-FAILED {:?}", status.code());
    }
    let target = if mac == "print" || mac == "println" { 0 } else { 1 };
    if mac != "panic" && !got[1 - target].is_empty() {
        return format!("OTHER-STREAM {}", crate::hex(&got[1 - target]));
    }
    let data = &got[target];
    let find = |pat: &[u8], from: usize| data[from..].windows(pat.len()).position(|w| w == pat).map(|p| p + from);
    match find(b"<<", 0).and_then(|a| data.windows(2).rposition(|w| w == b">>").filter(|b| *b >= a + 2).map(|b| (a, b))) {
        Some((a, b)) => crate::hexo(&data[a + 2..b]),
        None => format!("NO-MARKERS {}", crate::hex(data)),
    }
}

pub fn dispatch(kind: &str, f: &[&str]) -> Option<String> {
    Some(match kind {
        "c09" => {
            let _ = choice_of(f[0]);
            run_child(bit(f[1]), &[&f[..1], &f[2..]].concat().join(" "))
        }
        "c09s" => {
            let ty = String::from_utf8(crate::unhex(f[0])).expect("type name");
            apply_env(&bindings(&f[3..]));
            choice_of(f[2]).write_global();
            match choice_on(&ty, bit(f[1])) {
                Some(c) => name(c).to_owned(),
                None => "NO-IMPL".to_owned(),
            }
        }
        "c09p" => {
            apply_env(&bindings(&f[1..]));
            probe(f[0])
        }
        "c09m" => macro_case(f),
        "c09g" => {
            assert!(ColorChoice::default() == ColorChoice::Auto, "ColorChoice::default()");
            choice_of(f[0]).write_global();
            name(ColorChoice::global()).to_owned()
        }
        _ => return None,
    })
}
