//! C19: lock discipline of `AutoStream` / `StripStream` (lock-recording probe on the
//! shadow copy of the working-tree sources) and the stress runs that sanity-test
//! the runtime assumptions (real `anstream` crate, real stdout / stderr).
use crate::stream::{Log, Probe};
use crate::unhex;
use std::io::Write;

/// fragments handed to `write_str` one at a time (rustc flattens literal arguments)
struct Frags<'a>(&'a [String]);

impl std::fmt::Display for Frags<'_> {
    fn fmt(&self, f: &mut std::fmt::Formatter<'_>) -> std::fmt::Result {
        for s in self.0 {
            f.write_str(s)?;
        }
        Ok(())
    }
}

fn frags(s: &str) -> Vec<Vec<u8>> {
    if s == "-" {
        Vec::new()
    } else {
        s.split(',').map(|h| if h == "_" { Vec::new() } else { unhex(h) }).collect()
    }
}

fn one_op(w: &mut dyn Write, method: &str, fr: &[Vec<u8>]) -> Result<(), String> {
    let first: &[u8] = fr.first().map(|v| v.as_slice()).unwrap_or(&[]);
    match method {
        "write" => {
            let n = w.write(first).map_err(|e| e.to_string())?;
            assert_eq!(n, first.len(), "the probe accepts everything");
        }
        "write_all" => w.write_all(first).map_err(|e| e.to_string())?,
        "write_vectored" => {
            let slices: Vec<std::io::IoSlice<'_>> = fr.iter().map(|v| std::io::IoSlice::new(v)).collect();
            w.write_vectored(&slices).map_err(|e| e.to_string())?;
        }
        "flush" => w.flush().map_err(|e| e.to_string())?,
        "write_fmt" => {
            let mut strs = Vec::new();
            for v in fr {
                match String::from_utf8(v.clone()) {
                    Ok(s) => strs.push(s),
                    Err(_) => return Err("INVALID-UTF8".to_owned()),
                }
            }
            w.write_fmt(format_args!("{}", Frags(&strs))).map_err(|e| e.to_string())?;
        }
        _ => return Err(format!("UNKNOWN-METHOD {method}")),
    }
    Ok(())
}

/// `lk <never|always_ansi|strip> (<method> <frag,frag,...>)+`: the calls are made one
/// after the other on ONE stream value; result = the probe's log per call, ` | ` between calls
fn lk(f: &[&str], profile_only: bool) -> String {
    let log: Log = Default::default();
    let probe = Probe(log.clone());
    // pointer-wrapped raw streams (`&mut S`, `Box<S>`): the blanket impls must forward the lock
    let mut held = Probe(log.clone());
    let mut auto;
    let mut strip;
    let mut auto_mut;
    let mut strip_mut;
    let mut auto_box;
    let mut strip_box;
    let w: &mut dyn Write = match f[0] {
        "never@mut" => {
            auto_mut = crate::AutoStream::never(&mut held);
            &mut auto_mut
        }
        "always_ansi@mut" => {
            auto_mut = crate::AutoStream::always_ansi(&mut held);
            &mut auto_mut
        }
        "strip@mut" => {
            strip_mut = crate::StripStream::new(&mut held);
            &mut strip_mut
        }
        "never@box" => {
            auto_box = crate::AutoStream::never(Box::new(probe));
            &mut auto_box
        }
        "always_ansi@box" => {
            auto_box = crate::AutoStream::always_ansi(Box::new(probe));
            &mut auto_box
        }
        "strip@box" => {
            strip_box = crate::StripStream::new(Box::new(probe));
            &mut strip_box
        }
        "never" => {
            auto = crate::AutoStream::never(probe);
            &mut auto
        }
        "always_ansi" => {
            auto = crate::AutoStream::always_ansi(probe);
            &mut auto
        }
        "strip" => {
            strip = crate::StripStream::new(probe);
            &mut strip
        }
        m => return format!("UNKNOWN-MODE {m}"),
    };
    // pre-check so that a non-UTF-8 formatted fragment is reported before any call is made
    for op in f[1..].chunks(2) {
        if op[0] == "write_fmt" && frags(op[1]).iter().any(|v| std::str::from_utf8(v).is_err()) {
            return "INVALID-UTF8".to_owned();
        }
    }
    let mut out = Vec::new();
    for op in f[1..].chunks(2) {
        assert!(op.len() == 2, "method without fragments");
        if let Err(e) = one_op(w, op[0], &frags(op[1])) {
            return e;
        }
        let mut evs: Vec<String> = log.borrow_mut().drain(..).collect();
        if profile_only {
            // `lkp`: the lock events only (and any call that reached the raw stream unguarded)
            evs.retain(|e| e == "ACQ" || e == "REL" || e.starts_with("UNLOCKED"));
        }
        out.push(evs.join(" "));
    }
    out.join(" | ")
}

/// `reg <initial choice 0..3> <ops: s<k> = write_global(choice k), g = global()>`: the
/// values read, single-threaded (the process-wide cell is first set to the initial choice)
fn reg(f: &[&str]) -> String {
    use anstream::ColorChoice as C;
    const ALL: [C; 4] = [C::Auto, C::AlwaysAnsi, C::Always, C::Never];
    ALL[f[0].parse::<usize>().expect("choice")].write_global();
    let mut out = Vec::new();
    for op in f[1].split(',') {
        if op == "g" {
            let c = C::global();
            out.push(ALL.iter().position(|x| *x == c).expect("choice").to_string());
        } else {
            ALL[op[1..].parse::<usize>().expect("choice")].write_global();
        }
    }
    out.join(" ")
}

pub fn dispatch(kind: &str, f: &[&str]) -> Option<String> {
    Some(match kind {
        "lk" => lk(f, false),
        "lkp" => lk(f, true),
        "reg" => reg(f),
        _ => return None,
    })
}

// ---------------------------------------------------------------------------
// stress runs (sanity test of the runtime assumptions; real crate, real streams)

fn set_mode(mode: &str) {
    match mode {
        "never" => anstream::ColorChoice::Never.write_global(),
        "always_ansi" | "mixed" => anstream::ColorChoice::AlwaysAnsi.write_global(),
        _ => {
            eprintln!("unknown mode {mode}");
            std::process::exit(2);
        }
    }
}

/// `hcore --c19-stress <threads> <iters> <never|always_ansi|mixed> <stdout|stderr>`:
/// every thread issues `iters` multi-fragment prints of the line
/// `<t:i>ESC[3cm` a b `ESC[0m</t:i>` through the shared stream, cycling through the
/// print macros, `write!` / `writeln!` on a fresh `anstream::stdout()`, and `write_all`.
/// `mixed`: another thread keeps flipping the process-wide choice between Never and
/// AlwaysAnsi, so stripped and unstripped lines alternate.
pub fn stress(args: &[String]) -> i32 {
    let threads: usize = args[0].parse().expect("threads");
    let iters: usize = args[1].parse().expect("iters");
    let mode = args[2].clone();
    let err = args[3] == "stderr";
    set_mode(&mode);
    let stop = std::sync::Arc::new(std::sync::atomic::AtomicBool::new(false));
    let flipper = if mode == "mixed" {
        let stop = stop.clone();
        Some(std::thread::spawn(move || {
            let mut k = 0usize;
            while !stop.load(std::sync::atomic::Ordering::Relaxed) {
                if k % 2 == 0 {
                    anstream::ColorChoice::Never.write_global();
                } else {
                    anstream::ColorChoice::AlwaysAnsi.write_global();
                }
                k += 1;
                std::thread::yield_now();
            }
        }))
    } else {
        None
    };
    let barrier = std::sync::Arc::new(std::sync::Barrier::new(threads));
    let mut hs = Vec::new();
    for t in 0..threads {
        let barrier = barrier.clone();
        hs.push(std::thread::spawn(move || {
            barrier.wait();
            for i in 0..iters {
                let c = (t + i) % 8;
                let a = "x".repeat(1 + (i % 7));
                let b = "\u{e9}y".repeat(t % 5);
                match (i % 5, err) {
                    (0, false) => anstream::println!("<{t}:{i}>\x1b[3{c}m{a}{b}\x1b[0m</{t}:{i}>"),
                    (0, true) => anstream::eprintln!("<{t}:{i}>\x1b[3{c}m{a}{b}\x1b[0m</{t}:{i}>"),
                    (1, false) => anstream::print!("<{t}:{i}>\x1b[3{c}m{}{}\x1b[0m</{t}:{i}>\n", a, b),
                    (1, true) => anstream::eprint!("<{t}:{i}>\x1b[3{c}m{}{}\x1b[0m</{t}:{i}>\n", a, b),
                    (2, false) => writeln!(anstream::stdout(), "<{}:{}>\x1b[3{}m{}{}\x1b[0m</{}:{}>", t, i, c, a, b, t, i).expect("writeln"),
                    (2, true) => writeln!(anstream::stderr(), "<{}:{}>\x1b[3{}m{}{}\x1b[0m</{}:{}>", t, i, c, a, b, t, i).expect("writeln"),
                    (3, false) => write!(anstream::stdout(), "{}", Frags(&line_frags(t, i, c, &a, &b))).expect("write"),
                    (3, true) => write!(anstream::stderr(), "{}", Frags(&line_frags(t, i, c, &a, &b))).expect("write"),
                    (_, false) => anstream::stdout().write_all(line_frags(t, i, c, &a, &b).concat().as_bytes()).expect("write_all"),
                    (_, true) => anstream::stderr().write_all(line_frags(t, i, c, &a, &b).concat().as_bytes()).expect("write_all"),
                }
                // a message without arguments (`Arguments::as_str()` is `Some`): still one contiguous line
                if i % 4 == 3 {
                    if err {
                        anstream::eprintln!("<L>\x1b[35mliteral line\x1b[0m</L>");
                    } else {
                        anstream::println!("<L>\x1b[35mliteral line\x1b[0m</L>");
                    }
                }
            }
        }));
    }
    let mut rc = 0;
    for h in hs {
        if h.join().is_err() {
            rc = 3;
        }
    }
    stop.store(true, std::sync::atomic::Ordering::Relaxed);
    if let Some(h) = flipper {
        let _ = h.join();
    }
    let _ = std::io::stdout().flush();
    rc
}

/// the same line cut into many small fragments, escape sequences split across them
fn line_frags(t: usize, i: usize, c: usize, a: &str, b: &str) -> Vec<String> {
    let mut v = vec![format!("<{t}:{i}>"), "\x1b".to_owned(), "[3".to_owned(), format!("{c}"), "m".to_owned()];
    for ch in a.chars() {
        v.push(ch.to_string());
    }
    v.push(String::new());
    v.push(b.to_owned());
    v.push("\x1b[".to_owned());
    v.push("0m".to_owned());
    v.push(format!("</{t}:{i}>"));
    v.push("\n".to_owned());
    v
}

/// `hcore --c19-regstress <writers> <readers> <iters>`.
/// Phase 1: writers store only Always / Never while readers keep calling
/// `ColorChoice::global()`: every read must be Auto (the initial value), Always or
/// Never -- never AlwaysAnsi, never a panic.  When the writers are joined the value
/// must be one of the written ones (Always / Never) and stay put.
/// Phase 2: one final write (AlwaysAnsi); every read of every thread returns it.
/// Prints `REG ok ...` / `REG BAD ...`.
pub fn regstress(args: &[String]) -> i32 {
    use anstream::ColorChoice as C;
    use std::sync::atomic::{AtomicBool, AtomicUsize, Ordering};
    use std::sync::Arc;
    let writers: usize = args[0].parse().expect("writers");
    let readers: usize = args[1].parse().expect("readers");
    let iters: usize = args[2].parse().expect("iters");
    let first = C::global();
    if first != C::Auto {
        println!("REG BAD initial value is {first:?}");
        return 1;
    }
    let stop = Arc::new(AtomicBool::new(false));
    let bad = Arc::new(AtomicUsize::new(0));
    let seen = Arc::new([AtomicUsize::new(0), AtomicUsize::new(0), AtomicUsize::new(0), AtomicUsize::new(0)]);
    let barrier = Arc::new(std::sync::Barrier::new(writers + readers));
    let mut ws = Vec::new();
    for w in 0..writers {
        let barrier = barrier.clone();
        ws.push(std::thread::spawn(move || {
            barrier.wait();
            for i in 0..iters {
                if (i + w) % 2 == 0 {
                    C::Always.write_global();
                } else {
                    C::Never.write_global();
                }
            }
        }));
    }
    let mut rs = Vec::new();
    for _ in 0..readers {
        let (barrier, stop, bad, seen) = (barrier.clone(), stop.clone(), bad.clone(), seen.clone());
        rs.push(std::thread::spawn(move || {
            barrier.wait();
            let mut n = 0usize;
            while !stop.load(Ordering::SeqCst) {
                match std::panic::catch_unwind(C::global) {
                    Ok(C::Auto) => seen[0].fetch_add(1, Ordering::Relaxed),
                    Ok(C::Always) => seen[2].fetch_add(1, Ordering::Relaxed),
                    Ok(C::Never) => seen[3].fetch_add(1, Ordering::Relaxed),
                    Ok(C::AlwaysAnsi) => {
                        seen[1].fetch_add(1, Ordering::Relaxed);
                        bad.fetch_add(1, Ordering::Relaxed)
                    }
                    Err(_) => bad.fetch_add(1, Ordering::Relaxed),
                };
                n += 1;
            }
            n
        }));
    }
    let mut panicked = false;
    for h in ws {
        panicked |= h.join().is_err();
    }
    // writers are done: the value is one of the written ones and no longer changes
    let settled = C::global();
    let mut unsettled = 0usize;
    if writers > 0 && iters > 0 {
        if settled != C::Always && settled != C::Never {
            unsettled += 1;
        }
        unsettled += (0..1000).filter(|_| C::global() != settled).count();
    }
    stop.store(true, Ordering::SeqCst);
    let mut reads = 0usize;
    for h in rs {
        match h.join() {
            Ok(n) => reads += n,
            Err(_) => panicked = true,
        }
    }
    // phase 2: a last write, then readers only
    C::AlwaysAnsi.write_global();
    let mut hs = Vec::new();
    for _ in 0..readers.max(1) {
        hs.push(std::thread::spawn(|| (0..1000).filter(|_| C::global() != C::AlwaysAnsi).count()));
    }
    let mut after_bad = 0usize;
    for h in hs {
        after_bad += h.join().unwrap_or(1000);
    }
    let s: Vec<usize> = seen.iter().map(|a| a.load(Ordering::SeqCst)).collect();
    let nbad = bad.load(Ordering::SeqCst);
    if panicked || nbad != 0 || unsettled != 0 || after_bad != 0 {
        println!("REG BAD panicked={panicked} reads_of_a_value_never_written={nbad} unsettled_after_writers={unsettled} reads_after_final_write_not_returning_it={after_bad}");
        return 1;
    }
    println!("REG ok reads={reads} auto={} always_ansi={} always={} never={} settled={settled:?} after_final=ok", s[0], s[1], s[2], s[3]);
    0
}
