//! C01 / C03: the strip adapters (one-shot and incremental).
use crate::{hex, unhex};
use anstream::adapter::{strip_bytes, strip_str, StripBytes, StripStr};

fn off(base: &[u8], p: &[u8]) -> usize {
    let o = p.as_ptr() as usize - base.as_ptr() as usize;
    assert!(o + p.len() <= base.len(), "piece outside of the input");
    o
}

fn pieces(base: &[u8], it: impl Iterator<Item = Vec<(usize, Vec<u8>)>>) -> String {
    let _ = base;
    let mut out = Vec::new();
    for chunk in it {
        let s: Vec<String> = chunk.iter().map(|(o, p)| format!("{}:{}", o, hex(p))).collect();
        out.push(s.join(" "));
    }
    out.join(" | ")
}

pub fn cuts(s: &str, n: usize) -> Vec<usize> {
    let mut v: Vec<usize> = if s == "-" { vec![] } else { s.split(',').map(|x| x.parse().unwrap()).collect() };
    v.push(n);
    v
}

/// `sb <hex>`: pieces of strip_bytes with their offsets; `sbcat`: concatenation
pub fn sb(f: &[&str], cat: bool) -> String {
    let data = unhex(f[0]);
    let ps: Vec<(usize, Vec<u8>)> = strip_bytes(&data).map(|p| (off(&data, p), p.to_vec())).collect();
    // the provided Iterator methods agree with stepping through next()
    assert_eq!(strip_bytes(&data).count(), ps.len(), "count()");
    assert_eq!(strip_bytes(&data).last().map(|p| p.to_vec()), ps.last().map(|x| x.1.clone()), "last()");
    assert_eq!(strip_bytes(&data).nth(1).map(|p| p.to_vec()), ps.get(1).map(|x| x.1.clone()), "nth(1)");
    {
        let mut st = StripBytes::new();
        assert_eq!(st.strip_next(&data).count(), ps.len(), "StripBytesIter::count()");
        let mut st = StripBytes::new();
        assert_eq!(st.strip_next(&data).last().map(|p| p.to_vec()), ps.last().map(|x| x.1.clone()), "StripBytesIter::last()");
    }
    if cat {
        let all: Vec<u8> = ps.iter().flat_map(|(_, p)| p.clone()).collect();
        // into_vec must agree with the iterator
        assert_eq!(all, strip_bytes(&data).into_vec());
        hex(&all)
    } else {
        pieces(&data, std::iter::once(ps))
    }
}

/// `ss <hex>`: pieces of strip_str (input must be UTF-8)
pub fn ss(f: &[&str], cat: bool) -> String {
    let data = unhex(f[0]);
    let Ok(text) = std::str::from_utf8(&data) else { return "INVALID-UTF8".to_owned() };
    let ps: Vec<(usize, Vec<u8>)> = strip_str(text)
        .map(|p| {
            // returned pieces must be valid UTF-8 inside the input (C04)
            assert!(std::str::from_utf8(p.as_bytes()).is_ok());
            (off(&data, p.as_bytes()), p.as_bytes().to_vec())
        })
        .collect();
    assert_eq!(strip_str(text).count(), ps.len(), "count()");
    assert_eq!(strip_str(text).last().map(|p| p.as_bytes().to_vec()), ps.last().map(|x| x.1.clone()), "last()");
    assert_eq!(strip_str(text).nth(1).map(|p| p.as_bytes().to_vec()), ps.get(1).map(|x| x.1.clone()), "nth(1)");
    {
        let mut st = StripStr::new();
        assert_eq!(st.strip_next(text).count(), ps.len(), "StripStrIter::count()");
    }
    if cat {
        let all: Vec<u8> = ps.iter().flat_map(|(_, p)| p.clone()).collect();
        assert_eq!(all, strip_str(text).to_string().into_bytes());
        hex(&all)
    } else {
        pieces(&data, std::iter::once(ps))
    }
}

/// `sbc <hex> <cuts>`: StripBytes fed chunk by chunk (offsets relative to the chunk)
pub fn sbc(f: &[&str], cat: bool) -> String {
    let data = unhex(f[0]);
    let cs = cuts(f[1], data.len());
    let mut st = StripBytes::new();
    let mut prev = 0;
    let mut chunks = Vec::new();
    for c in cs {
        let chunk = &data[prev..c];
        prev = c;
        if c % 2 == 1 {
            // the state is a value: go on with a clone
            let copy = st.clone();
            assert!(copy == st, "Clone / PartialEq for StripBytes");
            st = copy;
        }
        let ps: Vec<(usize, Vec<u8>)> = st.strip_next(chunk).map(|p| (off(chunk, p), p.to_vec())).collect();
        chunks.push(ps);
    }
    if cat {
        hex(&chunks.iter().flatten().flat_map(|(_, p)| p.clone()).collect::<Vec<u8>>())
    } else {
        pieces(&data, chunks.into_iter())
    }
}

/// `ssc <hex> <cuts>`: StripStr fed chunk by chunk (cuts at char boundaries)
pub fn ssc(f: &[&str], cat: bool) -> String {
    let data = unhex(f[0]);
    let cs = cuts(f[1], data.len());
    let mut st = StripStr::new();
    let mut prev = 0;
    let mut chunks = Vec::new();
    for c in cs {
        let chunk = &data[prev..c];
        prev = c;
        let Ok(text) = std::str::from_utf8(chunk) else { return "INVALID-UTF8".to_owned() };
        if c % 2 == 1 {
            let copy = st.clone();
            assert!(copy == st, "Clone / PartialEq for StripStr");
            st = copy;
        }
        let ps: Vec<(usize, Vec<u8>)> = st
            .strip_next(text)
            .map(|p| {
                assert!(std::str::from_utf8(p.as_bytes()).is_ok());
                (off(chunk, p.as_bytes()), p.as_bytes().to_vec())
            })
            .collect();
        chunks.push(ps);
    }
    if cat {
        hex(&chunks.iter().flatten().flat_map(|(_, p)| p.clone()).collect::<Vec<u8>>())
    } else {
        pieces(&data, chunks.into_iter())
    }
}

/// `ssd <hex> <k>`: call `next()` k times on `strip_str(..)`, then `to_string()` and `format!("{}")`
/// of the partly consumed iterator (Display does not exhaust it), then drain the rest
pub fn ssd(f: &[&str]) -> String {
    ssd_(f, false)
}

/// `ssdcat`: the same, each of the three continuations prefixed by what was consumed first
/// (so every field must equal the stripped form of the whole input)
pub fn ssdcat(f: &[&str]) -> String {
    ssd_(f, true)
}

fn ssd_(f: &[&str], cat: bool) -> String {
    let data = unhex(f[0]);
    let k: usize = f[1].parse().unwrap();
    let Ok(text) = std::str::from_utf8(&data) else { return "INVALID-UTF8".to_owned() };
    let mut it = strip_str(text);
    let mut first = Vec::new();
    for _ in 0..k {
        match it.next() {
            Some(p) => first.extend_from_slice(p.as_bytes()),
            None => break,
        }
    }
    let a = it.to_string();
    let b = format!("{it}");
    let c = format!("{it:>12.3}");      // the pieces are `str`s: flags apply per piece (std behaviour), only compared
    let rest: Vec<u8> = it.flat_map(|p| p.as_bytes().to_vec()).collect();
    let _ = c;
    if cat {
        let j = |x: &[u8]| crate::hexo(&[&first[..], x].concat());
        return format!("{} {} {}", j(a.as_bytes()), j(b.as_bytes()), j(&rest));
    }
    format!("{} {} {} {}", crate::hexo(&first), crate::hexo(a.as_bytes()), crate::hexo(b.as_bytes()), crate::hexo(&rest))
}

/// `sbx <hex1> <hex2> <k>`: StrippedBytes::new(h1), take k pieces, into_vec of a clone, drain, is_empty, extend(h2), drain
pub fn sbx(f: &[&str]) -> String {
    sbx_(f, false)
}

/// `sbxcat`: everything the iterator yielded over both slices, concatenated
pub fn sbxcat(f: &[&str]) -> String {
    sbx_(f, true)
}

fn sbx_(f: &[&str], cat: bool) -> String {
    let d1 = unhex(f[0]);
    let d2 = unhex(f[1]);
    let k: usize = f[2].parse().unwrap();
    let mut it = strip_bytes(&d1);
    let mut first = Vec::new();
    for _ in 0..k {
        match it.next() {
            Some(p) => first.extend_from_slice(p),
            None => break,
        }
    }
    let cloned = it.clone().into_vec();
    let mut rest1 = Vec::new();
    for p in it.by_ref() {
        rest1.extend_from_slice(p);
    }
    let empty = it.is_empty();
    // an iterator is a value: for odd k the run goes on with a clone of the exhausted iterator
    // (whatever it carries across `extend` -- escape state, pending UTF-8 decoder state -- the clone carries too)
    if k % 2 == 1 {
        let copy = it.clone();
        it = copy;
    }
    it.extend(&d2);
    let rest2: Vec<u8> = it.flat_map(|p| p.to_vec()).collect();
    if cat {
        return crate::hexo(&[&first[..], &rest1[..], &rest2[..]].concat());
    }
    format!("{} {} {} {} {}", crate::hexo(&first), crate::hexo(&cloned), crate::hexo(&rest1), empty as u8, crate::hexo(&rest2))
}

pub fn dispatch(kind: &str, f: &[&str]) -> Option<String> {
    Some(match kind {
        "sb" => sb(f, false),
        "sbcat" => sb(f, true),
        "ss" => ss(f, false),
        "sscat" => ss(f, true),
        "sbc" => sbc(f, false),
        "sbccat" => sbc(f, true),
        "ssc" => ssc(f, false),
        "ssccat" => ssc(f, true),
        "ssd" => ssd(f),
        "ssdcat" => ssdcat(f),
        "sbx" => sbx(f),
        "sbxcat" => sbxcat(f),
        _ => return None,
    })
}
