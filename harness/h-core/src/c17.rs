//! C17: coloured write through the ANSI fallback
//! (`anstyle_wincon::WinconStream::write_colored`, `anstyle_wincon::ansi::write_colored`).
//!
//! case:   `wc <sink> <fg|-> <bg|-> <pre hex> <data hex> <script>`
//!   sink    `box`  = `Box<dyn Write>`, `send` = `Box<dyn Write + Send>`,
//!           `sync` = `Box<dyn Write + Send + Sync>`, `ref` = `&mut dyn Write`,
//!           `fn`   = `ansi::write_colored` called directly on the scripted writer,
//!           `vec`  = `Vec<u8>`, `file` = `std::fs::File`   (accept-all scripts only)
//!           `out` / `err` = the real `std::io::Stdout` / `Stderr` of a child process (pipes)
//!           `full` = `File` on /dev/full, `ro` = `File` opened read-only (every write fails)
//!   script  comma-separated: `a<n>` accept n bytes, `eI|eW|eO|eZ` fail with
//!           Interrupted / WouldBlock / Other / WriteZero, `all` (last) or an exhausted
//!           script = accept everything
//! result: `ok:<k>|err:<I|W|O|Z|?> <received hex> <calls>` (scripted sinks; calls =
//!         `<buf hex>=a<n>|e<K>` per inner `write`), `ok:<k>|err:.. <received hex>` (vec, file)
use crate::{hex, unhex};
use anstyle::AnsiColor;
use anstyle_wincon::WinconStream;
use std::collections::VecDeque;
use std::io::{self, ErrorKind, Write};
use std::sync::atomic::{AtomicUsize, Ordering};
use std::sync::{Arc, Mutex};

#[derive(Clone, Copy)]
enum Resp {
    Accept(usize),
    Fail(ErrorKind),
}

#[derive(Default)]
struct State {
    script: VecDeque<Resp>,
    received: Vec<u8>,
    calls: Vec<String>,
}

/// inner writer driven by a script, one entry per `write`; shares its state so that
/// it can be handed over as a `Box<dyn Write + Send + Sync>`
struct Scripted {
    st: Arc<Mutex<State>>,
}

fn kind_letter(k: ErrorKind) -> &'static str {
    match k {
        ErrorKind::Interrupted => "I",
        ErrorKind::WouldBlock => "W",
        ErrorKind::Other => "O",
        ErrorKind::WriteZero => "Z",
        _ => "?",
    }
}

fn show_buf(b: &[u8]) -> String {
    if b.is_empty() {
        "-".to_owned()
    } else {
        hex(b)
    }
}

impl Write for Scripted {
    fn write(&mut self, buf: &[u8]) -> io::Result<usize> {
        let mut st = self.st.lock().unwrap();
        match st.script.pop_front() {
            None => {
                st.received.extend_from_slice(buf);
                st.calls.push(format!("{}=a{}", show_buf(buf), buf.len()));
                Ok(buf.len())
            }
            Some(Resp::Accept(n)) => {
                let k = n.min(buf.len());
                st.received.extend_from_slice(&buf[..k]);
                st.calls.push(format!("{}=a{}", show_buf(buf), k));
                Ok(k)
            }
            Some(Resp::Fail(kind)) => {
                st.calls.push(format!("{}=e{}", show_buf(buf), kind_letter(kind)));
                Err(io::Error::new(kind, "scripted failure"))
            }
        }
    }

    fn flush(&mut self) -> io::Result<()> {
        self.st.lock().unwrap().calls.push("flush".to_owned());
        Ok(())
    }
}

fn parse_script(s: &str) -> VecDeque<Resp> {
    let mut out = VecDeque::new();
    if s == "-" {
        return out;
    }
    for tok in s.split(',') {
        match tok {
            "all" => {}
            "eI" => out.push_back(Resp::Fail(ErrorKind::Interrupted)),
            "eW" => out.push_back(Resp::Fail(ErrorKind::WouldBlock)),
            "eO" => out.push_back(Resp::Fail(ErrorKind::Other)),
            "eZ" => out.push_back(Resp::Fail(ErrorKind::WriteZero)),
            _ => {
                let n: usize = tok.strip_prefix('a').expect("script token").parse().expect("script count");
                out.push_back(Resp::Accept(n));
            }
        }
    }
    out
}

fn colour(s: &str) -> Option<AnsiColor> {
    use AnsiColor::*;
    const ALL: [AnsiColor; 16] = [
        Black,
        Red,
        Green,
        Yellow,
        Blue,
        Magenta,
        Cyan,
        White,
        BrightBlack,
        BrightRed,
        BrightGreen,
        BrightYellow,
        BrightBlue,
        BrightMagenta,
        BrightCyan,
        BrightWhite,
    ];
    if s == "-" {
        None
    } else {
        Some(ALL[s.parse::<usize>().expect("colour number")])
    }
}

fn show_res(r: &io::Result<usize>) -> String {
    match r {
        Ok(k) => format!("ok:{k}"),
        Err(e) => format!("err:{}", kind_letter(e.kind())),
    }
}

/// a fresh file name next to the harness' own output file (under the framework's
/// .cache directory), falling back to the system temp dir
fn temp_path() -> std::path::PathBuf {
    static COUNTER: AtomicUsize = AtomicUsize::new(0);
    let dir = std::env::args()
        .nth(2)
        .and_then(|p| std::path::Path::new(&p).parent().map(|d| d.to_path_buf()))
        .filter(|d| d.is_dir())
        .unwrap_or_else(std::env::temp_dir);
    let n = COUNTER.fetch_add(1, Ordering::SeqCst);
    dir.join(format!("c17-{}-{}.tmp", std::process::id(), n))
}

fn wc(f: &[&str]) -> String {
    let sink = f[0];
    let fg = colour(f[1]);
    let bg = colour(f[2]);
    let pre = unhex(f[3]);
    let data = unhex(f[4]);
    let script = parse_script(f[5]);
    match sink {
        "vec" => {
            assert!(script.is_empty(), "vec needs an accept-all script");
            let mut v: Vec<u8> = pre;
            let r = v.write_colored(fg, bg, &data);
            format!("{} {}", show_res(&r), show_buf(&v))
        }
        "file" => {
            assert!(script.is_empty(), "file needs an accept-all script");
            let path = temp_path();
            let r;
            {
                let mut file = std::fs::File::create(&path).expect("create temp file");
                file.write_all(&pre).expect("write pre");
                r = file.write_colored(fg, bg, &data);
                file.flush().expect("flush");
            }
            let got = std::fs::read(&path).expect("read back");
            let _ = std::fs::remove_file(&path);
            format!("{} {}", show_res(&r), show_buf(&got))
        }
        "out" | "err" => {
            // the impls for std::io::Stdout / Stderr: a child process with both streams on pipes
            assert!(script.is_empty() && pre.is_empty(), "std streams: accept-all, nothing before");
            let exe = std::env::current_exe().expect("current_exe");
            let out = std::process::Command::new(exe)
                .args(["--wc-child", sink, f[1], f[2], f[4]])
                .stdin(std::process::Stdio::null())
                .output()
                .expect("spawn child");
            if !out.status.success() {
                return format!("CHILD-FAILED {:?}", out.status.code());
            }
            let (got, answer) = if sink == "out" { (out.stdout, out.stderr) } else { (out.stderr, out.stdout) };
            format!("{} {}", String::from_utf8_lossy(&answer), show_buf(&got))
        }
        "full" | "ro" => {
            // a `File` whose every write fails: /dev/full (ENOSPC), or a file opened read-only (EBADF)
            assert!(pre.is_empty(), "failing files start empty");
            let mut file = if sink == "full" {
                std::fs::OpenOptions::new().write(true).open("/dev/full").expect("open /dev/full")
            } else {
                std::fs::File::open("/dev/null").expect("open /dev/null read-only")
            };
            let r = file.write_colored(fg, bg, &data);
            // the error kind the OS reports is not the model's business: any failure counts as `O`
            let shown = match &r {
                Ok(k) => format!("ok:{k}"),
                Err(_) => "err:O".to_owned(),
            };
            format!("{} -", shown)
        }
        _ => {
            let st = Arc::new(Mutex::new(State {
                script,
                received: pre,
                calls: Vec::new(),
            }));
            let mut inner = Scripted { st: Arc::clone(&st) };
            let r = match sink {
                "box" => {
                    let mut b: Box<dyn Write> = Box::new(inner);
                    <Box<dyn Write> as WinconStream>::write_colored(&mut b, fg, bg, &data)
                }
                "send" => {
                    let mut b: Box<dyn Write + Send> = Box::new(inner);
                    <Box<dyn Write + Send> as WinconStream>::write_colored(&mut b, fg, bg, &data)
                }
                "sync" => {
                    let mut b: Box<dyn Write + Send + Sync> = Box::new(inner);
                    <Box<dyn Write + Send + Sync> as WinconStream>::write_colored(&mut b, fg, bg, &data)
                }
                "ref" => {
                    // explicitly the `impl WinconStream for &mut T` (a method call would
                    // pick the impl for `dyn Write` itself)
                    let mut r: &mut dyn Write = &mut inner;
                    <&mut dyn Write as WinconStream>::write_colored(&mut r, fg, bg, &data)
                }
                "fn" => anstyle_wincon::ansi::write_colored(&mut inner, fg, bg, &data),
                _ => panic!("unknown sink {sink}"),
            };
            let st = st.lock().unwrap();
            let calls = if st.calls.is_empty() { "-".to_owned() } else { st.calls.join(",") };
            format!("{} {} {}", show_res(&r), show_buf(&st.received), calls)
        }
    }
}

/// child mode `hcore --wc-child <out|err> <fg> <bg> <data hex>`: one coloured write on the real stream,
/// unlocked (`out`, `err`) -- the answer goes to the other stream
pub fn wc_child(args: &[String]) -> i32 {
    let (fg, bg, data) = (colour(&args[1]), colour(&args[2]), unhex(&args[3]));
    if args[0] == "out" {
        let r = std::io::stdout().write_colored(fg, bg, &data);
        let _ = std::io::stdout().flush();
        eprint!("{}", show_res(&r));
    } else {
        let r = std::io::stderr().write_colored(fg, bg, &data);
        print!("{}", show_res(&r));
        let _ = std::io::stdout().flush();
    }
    0
}


/// inner writer that accepts everything and keeps only what is small: a write of more than 64 bytes is
/// recorded as its LENGTH (the bytes are never read, so a multi-GiB slice of untouched zero pages costs nothing)
#[derive(Default)]
struct CountOnly {
    small: Vec<Vec<u8>>,
    big: Vec<usize>,
    order: Vec<bool>, // true = big
}

impl Write for CountOnly {
    fn write(&mut self, buf: &[u8]) -> io::Result<usize> {
        if buf.len() > 64 {
            self.big.push(buf.len());
            self.order.push(true);
        } else {
            self.small.push(buf.to_vec());
            self.order.push(false);
        }
        Ok(buf.len())
    }
    fn flush(&mut self) -> io::Result<()> {
        Ok(())
    }
}

/// `wchuge <fg|-> <bg|-> <log2> <extra>`: a coloured write of 2^log2 + extra zero bytes into an accept-all writer;
/// the count reported must be the number of data bytes the writer accepted, whatever its size.
/// result: `ok:<n> <bytes before the data hex>|D<len>|<bytes after the data hex>`
fn wchuge(f: &[&str]) -> String {
    let fg = colour(f[0]);
    let bg = colour(f[1]);
    let n: usize = (1usize << f[2].parse::<u32>().expect("log2")) + f[3].parse::<usize>().expect("extra");
    let data = vec![0u8; n]; // zeroed allocation: pages are mapped lazily and never touched
    let mut w = CountOnly::default();
    let r = anstyle_wincon::ansi::write_colored(&mut w, fg, bg, &data);
    let mut pre = Vec::new();
    let mut post = Vec::new();
    let mut seen_big = false;
    let mut si = 0;
    for big in &w.order {
        if *big {
            seen_big = true;
        } else {
            if seen_big { post.extend_from_slice(&w.small[si]) } else { pre.extend_from_slice(&w.small[si]) }
            si += 1;
        }
    }
    let d: Vec<String> = w.big.iter().map(|l| format!("D{l}")).collect();
    format!("{} {}|{}|{}", show_res(&r), show_buf(&pre), d.join("+"), show_buf(&post))
}

pub fn dispatch(kind: &str, f: &[&str]) -> Option<String> {
    Some(match kind {
        "wc" => wc(f),
        "wchuge" => wchuge(f),
        _ => return None,
    })
}
