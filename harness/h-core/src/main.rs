//! Correspondence harness for the `anstyle`, `anstyle-parse`, `anstream`,
//! `colorchoice`, `anstyle-query`, `anstyle-wincon` cluster.
//!
//! usage: hcore <case-file> <out-file>
//! Every input line is one case `<kind> <field>...` (byte strings in hex); one
//! canonical result line is written per case, in order.  A panic inside a case is
//! the result `PANIC`.

use std::fmt::Write as _;
use std::io::{BufRead, Write};
use std::panic::{catch_unwind, AssertUnwindSafe};

#[path = "../../common/lits.rs"]
mod lits;
mod c01;
mod c02;
mod c06;
mod c05;
mod c07;
mod c09;
mod c13;
mod c17;
mod c19;
// C19: shadow copy of anstream's private / sealed parts, at the crate root (see shadow.rs)
include!("shadow.rs");

pub fn unhex(s: &str) -> Vec<u8> {
    if s == "-" {
        return Vec::new();
    }
    let b = s.as_bytes();
    assert!(b.len() % 2 == 0, "odd hex");
    (0..b.len() / 2)
        .map(|i| u8::from_str_radix(&s[2 * i..2 * i + 2], 16).expect("hex"))
        .collect()
}

pub fn hex(b: &[u8]) -> String {
    let mut s = String::with_capacity(b.len() * 2);
    for x in b {
        let _ = write!(s, "{x:02x}");
    }
    s
}

pub fn hexo(b: &[u8]) -> String {
    if b.is_empty() {
        "-".to_owned()
    } else {
        hex(b)
    }
}

fn run_case(line: &str) -> String {
    let mut it = line.split(' ');
    let kind = it.next().unwrap_or("");
    let f: Vec<&str> = it.collect();
    // every module answers for the case kinds it knows
    None.or_else(|| c01::dispatch(kind, &f))
        .or_else(|| c02::dispatch(kind, &f))
        .or_else(|| c05::dispatch(kind, &f))
        .or_else(|| c06::dispatch(kind, &f))
        .or_else(|| c07::dispatch(kind, &f))
        .or_else(|| c09::dispatch(kind, &f))
        .or_else(|| c13::dispatch(kind, &f))
        .or_else(|| c17::dispatch(kind, &f))
        .or_else(|| c19::dispatch(kind, &f))
        .unwrap_or_else(|| format!("UNKNOWN-KIND {kind}"))
}

fn main() {
    let args: Vec<String> = std::env::args().collect();
    if args.len() >= 2 && args[1] == "--c09-child" {
        // hidden mode of the C09 check: see c09.rs
        return c09::child_main(&args[2..]);
    }
    if args.len() == 5 && args[1] == "--c09m-child" {
        // hidden mode of the C09 check: see c09.rs `c09m`
        std::process::exit(c09::macro_child(&args[2..]));
    }
    if args.len() == 6 && args[1] == "--c08-lock" {
        // hidden mode of the C08 check: see c06.rs
        std::process::exit(c06::lock_child(&args[2..]));
    }
    if args.len() == 6 && args[1] == "--wc-child" {
        // hidden mode of the C17 check: see c17.rs
        std::process::exit(c17::wc_child(&args[2..]));
    }
    if args.len() == 5 && args[1] == "--pm-child" {
        // hidden mode of the C08 / C09 check: see c06.rs `pm`
        std::process::exit(c06::pm_child(&args[2..]));
    }
    // hidden modes: C19 stress runs (sanity test of the runtime assumptions)
    if args.len() == 6 && args[1] == "--c19-stress" {
        std::process::exit(c19::stress(&args[2..]));
    }
    if args.len() == 5 && args[1] == "--c19-regstress" {
        std::process::exit(c19::regstress(&args[2..]));
    }
    if args.len() != 3 {
        eprintln!("usage: hcore <case-file> <out-file>");
        std::process::exit(2);
    }
    std::panic::set_hook(Box::new(|_| {}));
    let input = std::io::BufReader::new(std::fs::File::open(&args[1]).expect("open cases"));
    let mut out = std::io::BufWriter::new(std::fs::File::create(&args[2]).expect("create out"));
    for line in input.lines() {
        let line = line.expect("read");
        if line.is_empty() {
            continue;
        }
        let mut r = catch_unwind(AssertUnwindSafe(|| run_case(&line))).unwrap_or_else(|_| "PANIC".to_owned());
        if r.is_empty() {
            r.push('-');
        }
        writeln!(out, "{r}").expect("write");
    }
    out.flush().expect("flush");
}
