//! C06 / C08: StripStream and AutoStream over scripted inner writers.
use crate::{hex, unhex};
use std::cell::RefCell;
use std::io::Write;
use std::rc::Rc;

#[derive(Clone, Copy, Debug)]
pub enum Resp {
    Accept(usize),
    Fail(std::io::ErrorKind),
}

#[derive(Default)]
pub struct Log {
    pub received: Vec<u8>,
    pub calls: Vec<String>,
}

/// inner writer driven by a script: one entry per `write`; exhausted = accept all
pub struct Scripted {
    pub script: std::collections::VecDeque<Resp>,
    pub log: Rc<RefCell<Log>>,
}

pub fn kind_name(k: std::io::ErrorKind) -> &'static str {
    use std::io::ErrorKind::*;
    match k {
        Interrupted => "I",
        WouldBlock => "W",
        WriteZero => "Z",
        _ => "O",
    }
}

impl Write for Scripted {
    fn write(&mut self, buf: &[u8]) -> std::io::Result<usize> {
        let mut log = self.log.borrow_mut();
        match self.script.pop_front() {
            None => {
                log.received.extend_from_slice(buf);
                log.calls.push(format!("w{}={}", hex(buf), buf.len()));
                Ok(buf.len())
            }
            Some(Resp::Accept(n)) => {
                let k = n.min(buf.len());
                log.received.extend_from_slice(&buf[..k]);
                log.calls.push(format!("w{}={}", hex(buf), k));
                Ok(k)
            }
            Some(Resp::Fail(kind)) => {
                log.calls.push(format!("w{}=e{}", hex(buf), kind_name(kind)));
                Err(std::io::Error::new(kind, "scripted"))
            }
        }
    }
    fn flush(&mut self) -> std::io::Result<()> {
        self.log.borrow_mut().calls.push("F".to_owned());
        Ok(())
    }
}

/// the scripted writer behind `dyn Write + Send (+ Sync)`: the harness is single-threaded, the
/// marker traits only select the trait-object impls of the crate under test
pub struct ScriptedSend(pub Scripted);
unsafe impl Send for ScriptedSend {}
unsafe impl Sync for ScriptedSend {}
impl Write for ScriptedSend {
    fn write(&mut self, buf: &[u8]) -> std::io::Result<usize> {
        self.0.write(buf)
    }
    fn flush(&mut self) -> std::io::Result<()> {
        self.0.flush()
    }
}

pub fn parse_script(s: &str) -> std::collections::VecDeque<Resp> {
    let mut out = std::collections::VecDeque::new();
    if s == "-" {
        return out;
    }
    for tok in s.split(',') {
        let r = match tok {
            "eI" => Resp::Fail(std::io::ErrorKind::Interrupted),
            "eW" => Resp::Fail(std::io::ErrorKind::WouldBlock),
            "eO" => Resp::Fail(std::io::ErrorKind::Other),
            t => Resp::Accept(t[1..].parse().expect("accept count")),
        };
        out.push_back(r);
    }
    out
}

struct Frags(Vec<String>);
impl std::fmt::Display for Frags {
    fn fmt(&self, f: &mut std::fmt::Formatter<'_>) -> std::fmt::Result {
        for s in &self.0 {
            f.write_str(s)?;
        }
        Ok(())
    }
}

fn res_n(r: std::io::Result<usize>) -> String {
    match r {
        Ok(n) => format!("ok:{n}"),
        Err(e) => format!("err:{}", kind_name(e.kind())),
    }
}
fn res_u(r: std::io::Result<()>) -> String {
    match r {
        Ok(()) => "ok".to_owned(),
        Err(e) => format!("err:{}", kind_name(e.kind())),
    }
}

pub fn run_op(w: &mut dyn Write, op: &str) -> String {
    let (k, rest) = op.split_at(1);
    let rest = rest.strip_prefix(':').unwrap_or(rest);
    match k {
        "w" => res_n(w.write(&unhex(rest))),
        "a" => res_u(w.write_all(&unhex(rest))),
        "v" => {
            let bufs: Vec<Vec<u8>> = rest.split('/').map(unhex).collect();
            let slices: Vec<std::io::IoSlice<'_>> = bufs.iter().map(|b| std::io::IoSlice::new(b)).collect();
            res_n(w.write_vectored(&slices))
        }
        "f" => {
            let frags: Vec<String> = rest.split('/').map(|h| String::from_utf8(unhex(h)).expect("utf8 fragment")).collect();
            if frags.len() == 1 {
                if let Some(r) = crate::lits::write_lit(w, &frags[0]) {
                    return res_u(r);
                }
            }
            res_u(write!(w, "{}", Frags(frags)))
        }
        "F" => res_u(w.flush()),
        _ => panic!("unknown op"),
    }
}

/// `strm <mode> <writer kind> <script> <op,op,...>`
pub fn strm(f: &[&str]) -> String {
    let mode = f[0];
    let wkind = f[1];
    let ops: Vec<&str> = if f[3] == "-" { vec![] } else { f[3].split(',').collect() };
    let log = Rc::new(RefCell::new(Log::default()));
    let mut results = Vec::new();
    let choice_name = |c: anstream::ColorChoice| match c {
        anstream::ColorChoice::Auto => "auto",
        anstream::ColorChoice::AlwaysAnsi => "ansi",
        anstream::ColorChoice::Always => "always",
        anstream::ColorChoice::Never => "never",
    };
    let mut current = String::from("-");
    let received: Vec<u8>;
    let mut history = String::from("-");
    macro_rules! drive {
        ($inner:expr, $get:expr) => {{
            let inner = $inner;
            if mode == "strip" {
                let mut s = anstream::StripStream::new(inner);
                assert!(!s.is_terminal(), "StripStream::is_terminal over a writer that is no terminal");
                for op in &ops {
                    results.push(run_op(&mut s, op));
                }
                let back = s.into_inner();
                $get(back)
            } else {
                let choice = match mode {
                    "never" | "auto-never" => anstream::ColorChoice::Never,
                    "ansi" | "auto-ansi" => anstream::ColorChoice::AlwaysAnsi,
                    "always" | "auto-always" => anstream::ColorChoice::Always,
                    _ => panic!("mode"),
                };
                let mut s = if mode.starts_with("auto-") {
                    anstream::ColorChoice::write_global(choice);
                    let s = anstream::AutoStream::new(inner, anstream::ColorChoice::Auto);
                    anstream::ColorChoice::write_global(anstream::ColorChoice::Auto);
                    s
                } else {
                    anstream::AutoStream::new(inner, choice)
                };
                current = choice_name(s.current_choice()).to_owned();
                assert!(!s.is_terminal(), "AutoStream::is_terminal over a writer that is no terminal");
                for op in &ops {
                    results.push(run_op(&mut s, op));
                }
                let back = s.into_inner();
                $get(back)
            }
        }};
    }
    match wkind {
        "boxed" => {
            let inner: Box<dyn Write> = Box::new(Scripted { script: parse_script(f[2]), log: log.clone() });
            drive!(inner, |_b: Box<dyn Write>| ());
            received = log.borrow().received.clone();
            history = log.borrow().calls.join(";");
            if history.is_empty() {
                history = "-".to_owned();
            }
        }
        "send" => {
            let inner: Box<dyn Write + Send> = Box::new(ScriptedSend(Scripted { script: parse_script(f[2]), log: log.clone() }));
            drive!(inner, |_b: Box<dyn Write + Send>| ());
            received = log.borrow().received.clone();
            history = log.borrow().calls.join(";");
            if history.is_empty() {
                history = "-".to_owned();
            }
        }
        "sync" => {
            let inner: Box<dyn Write + Send + Sync> = Box::new(ScriptedSend(Scripted { script: parse_script(f[2]), log: log.clone() }));
            drive!(inner, |_b: Box<dyn Write + Send + Sync>| ());
            received = log.borrow().received.clone();
            history = log.borrow().calls.join(";");
            if history.is_empty() {
                history = "-".to_owned();
            }
        }
        "vec" => {
            received = drive!(Vec::<u8>::new(), |b: Vec<u8>| b);
        }
        "buffer" => {
            #[allow(deprecated)]
            {
                received = drive!(anstream::Buffer::new(), |b: anstream::Buffer| {
                    assert_eq!(b.as_bytes(), AsRef::<[u8]>::as_ref(&b), "Buffer::as_bytes / AsRef");
                    b.as_bytes().to_vec()
                });
            }
        }
        "file" => {
            let dir = std::env::var("VERIF_SCRATCH").unwrap_or_else(|_| std::env::temp_dir().to_string_lossy().into_owned());
            let path = std::path::Path::new(&dir).join(format!("c06-{}-{:?}.bin", std::process::id(), std::thread::current().id()));
            let file = std::fs::File::create(&path).expect("create scratch file");
            drive!(file, |b: std::fs::File| drop(b));
            received = std::fs::read(&path).expect("read back");
            let _ = std::fs::remove_file(&path);
        }
        _ => panic!("writer kind"),
    }
    format!(
        "{} | {} | {} | {}",
        if results.is_empty() { "-".to_owned() } else { results.join(",") },
        if received.is_empty() { "-".to_owned() } else { hex(&received) },
        history,
        current
    )
}

/// `drv <script> <input hex>`: the standard caller protocol over `StripStream::write`
pub fn drv(f: &[&str], through_auto: bool) -> String {
    let log = Rc::new(RefCell::new(Log::default()));
    let inner: Box<dyn Write> = Box::new(Scripted { script: parse_script(f[0]), log: log.clone() });
    let mut s: Box<dyn Write> = if through_auto {
        Box::new(anstream::AutoStream::new(inner, anstream::ColorChoice::Never))
    } else {
        Box::new(anstream::StripStream::new(inner))
    };
    let data = unhex(f[1]);
    let mut buf = &data[..];
    let mut outcome = "ok".to_owned();
    let mut guard = 0usize;
    while !buf.is_empty() {
        guard += 1;
        if guard > 10 * (data.len() + 10) + 1000 {
            outcome = "livelock".to_owned();
            break;
        }
        match s.write(buf) {
            Ok(0) => {
                outcome = "err:Z".to_owned();
                break;
            }
            Ok(n) => buf = &buf[n..],
            Err(e) if e.kind() == std::io::ErrorKind::Interrupted => {}
            Err(e) => {
                outcome = format!("err:{}", kind_name(e.kind()));
                break;
            }
        }
    }
    let received = log.borrow().received.clone();
    format!("{} | {}", outcome, if received.is_empty() { "-".to_owned() } else { hex(&received) })
}

/// `drvv <script> <hex/hex/...>`: the caller protocol over `write_vectored` (std's write_all_vectored loop)
pub fn drvv(f: &[&str]) -> String {
    let log = Rc::new(RefCell::new(Log::default()));
    let inner: Box<dyn Write> = Box::new(Scripted { script: parse_script(f[0]), log: log.clone() });
    let mut s = anstream::StripStream::new(inner);
    let bufs: Vec<Vec<u8>> = f[1].split('/').map(unhex).collect();
    let total: usize = bufs.iter().map(|b| b.len()).sum();
    let mut slices: Vec<std::io::IoSlice<'_>> = bufs.iter().map(|b| std::io::IoSlice::new(b)).collect();
    let mut rest = &mut slices[..];
    std::io::IoSlice::advance_slices(&mut rest, 0);
    let mut outcome = "ok".to_owned();
    let mut guard = 0usize;
    while !rest.is_empty() {
        guard += 1;
        if guard > 10 * (total + 10) + 1000 {
            outcome = "livelock".to_owned();
            break;
        }
        match s.write_vectored(rest) {
            Ok(0) => {
                outcome = "err:Z".to_owned();
                break;
            }
            Ok(n) => std::io::IoSlice::advance_slices(&mut rest, n),
            Err(e) if e.kind() == std::io::ErrorKind::Interrupted => {}
            Err(e) => {
                outcome = format!("err:{}", kind_name(e.kind()));
                break;
            }
        }
    }
    let received = log.borrow().received.clone();
    format!("{} | {}", outcome, if received.is_empty() { "-".to_owned() } else { hex(&received) })
}

/// child mode `hcore --c08-lock <mode> <out|err> <hex1> <hex2>`: write hex1 through an anstream
/// stream over the REAL stdout / stderr, call `.lock()`, write hex2 through the locked stream
pub fn lock_child(args: &[String]) -> i32 {
    let (mode, which, h1, h2) = (&args[0], &args[1], unhex(&args[2]), unhex(&args[3]));
    let choice = match mode.as_str() {
        "never" => anstream::ColorChoice::Never,
        "ansi" => anstream::ColorChoice::AlwaysAnsi,
        "always" => anstream::ColorChoice::Always,
        _ => anstream::ColorChoice::Never,
    };
    let r: std::io::Result<()> = (|| {
        if mode == "strip" {
            if which == "out" {
                let mut s = anstream::StripStream::new(std::io::stdout());
                s.write_all(&h1)?;
                let mut l = s.lock();
                l.write_all(&h2)?;
                l.flush()
            } else {
                let mut s = anstream::StripStream::new(std::io::stderr());
                s.write_all(&h1)?;
                let mut l = s.lock();
                l.write_all(&h2)?;
                l.flush()
            }
        } else if which == "out" {
            let mut s = anstream::AutoStream::new(std::io::stdout(), choice);
            s.write_all(&h1)?;
            let mut l = s.lock();
            l.write_all(&h2)?;
            l.flush()
        } else {
            let mut s = anstream::AutoStream::new(std::io::stderr(), choice);
            s.write_all(&h1)?;
            let mut l = s.lock();
            l.write_all(&h2)?;
            l.flush()
        }
    })();
    if r.is_ok() { 0 } else { 3 }
}

/// `lk8 <mode> <out|err> <hex1> <hex2>`: run the child above, capture what arrives on the pipe
pub fn lk8(f: &[&str]) -> String {
    let exe = std::env::current_exe().expect("current_exe");
    let out = std::process::Command::new(exe)
        .arg("--c08-lock")
        .args(f)
        .stdin(std::process::Stdio::null())
        .output()
        .expect("spawn child");
    if !out.status.success() {
        return format!("CHILD-FAILED {:?}", out.status.code());
    }
    let got = if f[1] == "out" { out.stdout } else { out.stderr };
    if got.is_empty() { "-".to_owned() } else { hex(&got) }
}

/// `tas <never|ansi> <hex/hex/...>`: `anstream::_macros::to_adapted_string` (what the print macros use
/// under test) with the global choice fixed; fragments are handed over by a Display impl one at a time
pub fn tas(f: &[&str]) -> String {
    let choice = if f[0] == "never" { anstream::ColorChoice::Never } else { anstream::ColorChoice::AlwaysAnsi };
    let frags: Vec<String> = f[1].split('/').map(|h| String::from_utf8(unhex(h)).expect("utf8 fragment")).collect();
    anstream::ColorChoice::write_global(choice);
    let s = anstream::_macros::to_adapted_string(&Frags(frags), &Vec::<u8>::new());
    anstream::ColorChoice::write_global(anstream::ColorChoice::Auto);
    if s.is_empty() { "-".to_owned() } else { hex(s.as_bytes()) }
}

/// child mode `hcore --pm-child <out|err> <nl 0|1> <call,call,...>` (call = hex/hex/... fragments): one
/// `anstream::print!` / `println!` / `eprint!` / `eprintln!` per call on the REAL stdout / stderr
pub fn pm_child(args: &[String]) -> i32 {
    let nl = args[1] == "1";
    for call in args[2].split(',') {
        let frags: Vec<String> = if call == "-" { vec![] } else { call.split('/').map(|h| String::from_utf8(unhex(h)).expect("utf8 fragment")).collect() };
        let d = Frags(frags);
        match (args[0].as_str(), nl) {
            ("out", false) => anstream::print!("{}", d),
            ("out", true) => anstream::println!("{}", d),
            (_, false) => anstream::eprint!("{}", d),
            (_, true) => anstream::eprintln!("{}", d),
        }
    }
    0
}

/// `pm <out|err> <nl 0|1> <call,call,...> [<name>=<value>]...`: run the child above with exactly the given
/// environment (names / values in hex) and both standard streams on pipes; answer what arrived on the stream
pub fn pm(f: &[&str]) -> String {
    use std::os::unix::ffi::OsStringExt;
    let exe = std::env::current_exe().expect("current_exe");
    let mut cmd = std::process::Command::new(exe);
    cmd.arg("--pm-child").args(&f[..3]).env_clear().stdin(std::process::Stdio::null());
    for b in &f[3..] {
        let (n, v) = b.split_once('=').expect("name=value");
        let un = |h: &str| if h == "-" { Vec::new() } else { unhex(h) };
        cmd.env(std::ffi::OsString::from_vec(un(n)), std::ffi::OsString::from_vec(un(v)));
    }
    let out = cmd.output().expect("spawn child");
    if !out.status.success() {
        return format!("CHILD-FAILED {:?}", out.status.code());
    }
    let (got, other) = if f[0] == "out" { (out.stdout, out.stderr) } else { (out.stderr, out.stdout) };
    if !other.is_empty() {
        return format!("OTHER-STREAM {}", hex(&other));
    }
    if got.is_empty() { "-".to_owned() } else { hex(&got) }
}

pub fn dispatch(kind: &str, f: &[&str]) -> Option<String> {
    Some(match kind {
        "strm" => strm(f),
        "drv" => drv(f, false),
        "drvn" => drv(f, true),
        "drvv" => drvv(f),
        "lk8" => lk8(f),
        "tas" => tas(f),
        "pm" => pm(f),
        _ => return None,
    })
}
