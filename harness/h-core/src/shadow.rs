// Shadow module tree of `anstream`'s private / sealed parts (DESIGN.md section 4).
// `include!`d by main.rs at the crate root so that the copied files' `crate::stream`,
// `crate::strip`, `crate::auto`, `crate::fmt`, `crate::adapter`, `crate::Buffer`,
// `crate::ColorChoice`, `crate::StripStream` paths resolve.  The copies are made by
// build.rs from the working tree (inner attributes / `//!` lines dropped, nothing
// else changed); the Windows-only parts stay compiled out.

#[allow(dead_code, unused_imports, deprecated, missing_docs, clippy::all)]
pub mod stream {
    include!(concat!(env!("OUT_DIR"), "/stream.rs"));

    // ---- C19: the lock-recording probe ---------------------------------------
    // Impls of the sealed traits for a writer that records when its "lock" is
    // taken and released and every call made through the guard.
    use std::cell::RefCell;
    use std::rc::Rc;

    pub type Log = Rc<RefCell<Vec<String>>>;

    fn hx(b: &[u8]) -> String {
        if b.is_empty() {
            "-".to_owned()
        } else {
            crate::hex(b)
        }
    }

    /// the raw stream handed to `AutoStream` / `StripStream`
    pub struct Probe(pub Log);

    /// what `as_locked_write` returns
    pub struct ProbeGuard(Log);

    impl Drop for ProbeGuard {
        fn drop(&mut self) {
            self.0.borrow_mut().push("REL".to_owned());
        }
    }

    impl std::io::Write for ProbeGuard {
        fn write(&mut self, buf: &[u8]) -> std::io::Result<usize> {
            self.0.borrow_mut().push(format!("W:{}", hx(buf)));
            Ok(buf.len())
        }
        fn write_vectored(&mut self, bufs: &[std::io::IoSlice<'_>]) -> std::io::Result<usize> {
            let parts: Vec<String> = bufs.iter().map(|b| hx(b)).collect();
            self.0.borrow_mut().push(format!("WV:{}", parts.join(",")));
            Ok(bufs.iter().map(|b| b.len()).sum())
        }
        fn flush(&mut self) -> std::io::Result<()> {
            self.0.borrow_mut().push("F".to_owned());
            Ok(())
        }
        fn write_all(&mut self, buf: &[u8]) -> std::io::Result<()> {
            self.0.borrow_mut().push(format!("WA:{}", hx(buf)));
            Ok(())
        }
        // write_fmt: std's default, as for std::io::StdoutLock
    }

    // calls that reach the raw stream WITHOUT going through a guard
    impl std::io::Write for Probe {
        fn write(&mut self, buf: &[u8]) -> std::io::Result<usize> {
            self.0.borrow_mut().push(format!("UNLOCKED-W:{}", hx(buf)));
            Ok(buf.len())
        }
        fn flush(&mut self) -> std::io::Result<()> {
            self.0.borrow_mut().push("UNLOCKED-F".to_owned());
            Ok(())
        }
    }

    impl private::Sealed for Probe {}
    impl private::Sealed for ProbeGuard {}

    impl IsTerminal for Probe {
        fn is_terminal(&self) -> bool {
            false
        }
    }
    impl IsTerminal for ProbeGuard {
        fn is_terminal(&self) -> bool {
            false
        }
    }

    impl RawStream for Probe {}
    impl RawStream for ProbeGuard {}

    impl AsLockedWrite for Probe {
        type Write<'w> = ProbeGuard;

        fn as_locked_write(&mut self) -> Self::Write<'_> {
            self.0.borrow_mut().push("ACQ".to_owned());
            ProbeGuard(self.0.clone())
        }
    }
}

#[allow(dead_code, unused_imports, deprecated, missing_docs, clippy::all)]
pub mod strip {
    include!(concat!(env!("OUT_DIR"), "/strip.rs"));
}

#[allow(dead_code, unused_imports, deprecated, missing_docs, clippy::all)]
pub mod auto {
    include!(concat!(env!("OUT_DIR"), "/auto.rs"));
}

#[allow(dead_code, unused_imports, deprecated, missing_docs, clippy::all)]
pub mod fmt {
    include!(concat!(env!("OUT_DIR"), "/fmt.rs"));
}

#[allow(dead_code, unused_imports, deprecated, missing_docs, clippy::all)]
pub mod buffer {
    include!(concat!(env!("OUT_DIR"), "/buffer.rs"));
}

pub mod adapter {
    pub use anstream::adapter::*;
}

#[allow(unused_imports)]
pub use auto::AutoStream;
#[allow(unused_imports, deprecated)]
pub use buffer::Buffer;
#[allow(unused_imports)]
pub use colorchoice::ColorChoice;
#[allow(unused_imports)]
pub use strip::StripStream;
