//! C13: `anstyle::{Effects, Style, AnsiColor, Ansi256Color}` algebra.
//!
//! An effect set is named by its mask over the twelve public constants in
//! declaration order (bit j of the mask = the j-th constant is inserted).  The raw
//! `u16` inside an `Effects` is read back through its derived `Hash` (safe, exact).
//!
//! kinds
//!   eff1 <a>                      unary observations of one set
//!   effx <a> <b,b,...>            every binary operation on (a, b), full results
//!   effrow <a> <b0> <n>           the same operations for b0 <= b < b0+n, one digest per operation
//!   col16 <i> / colstr <i>        the 16-colour tables for the i-th variant
//!   col256 <n>                    Ansi256Color(n) <-> AnsiColor
//!   sty <fg> <bg> <ul> <eff> <v> <e>   setters / getters / operators on one style
use crate::hex;
use anstyle::{Ansi256Color, AnsiColor, Color, Effects, RgbColor, Style};
use std::hash::{Hash, Hasher};

const ALL: [Effects; 12] = [
    Effects::BOLD,
    Effects::DIMMED,
    Effects::ITALIC,
    Effects::UNDERLINE,
    Effects::DOUBLE_UNDERLINE,
    Effects::CURLY_UNDERLINE,
    Effects::DOTTED_UNDERLINE,
    Effects::DASHED_UNDERLINE,
    Effects::BLINK,
    Effects::INVERT,
    Effects::HIDDEN,
    Effects::STRIKETHROUGH,
];

const ALLC: [AnsiColor; 16] = [
    AnsiColor::Black,
    AnsiColor::Red,
    AnsiColor::Green,
    AnsiColor::Yellow,
    AnsiColor::Blue,
    AnsiColor::Magenta,
    AnsiColor::Cyan,
    AnsiColor::White,
    AnsiColor::BrightBlack,
    AnsiColor::BrightRed,
    AnsiColor::BrightGreen,
    AnsiColor::BrightYellow,
    AnsiColor::BrightBlue,
    AnsiColor::BrightMagenta,
    AnsiColor::BrightCyan,
    AnsiColor::BrightWhite,
];

/// Hasher that records the single `u16` a derived `Hash` of `Effects` feeds it.
struct Raw {
    v: u16,
    n: u32,
}

impl Hasher for Raw {
    fn finish(&self) -> u64 {
        0
    }
    fn write(&mut self, _bytes: &[u8]) {
        panic!("Effects no longer hashes as one u16");
    }
    fn write_u16(&mut self, i: u16) {
        self.v = i;
        self.n += 1;
    }
}

fn bits(e: Effects) -> u16 {
    let mut h = Raw { v: 0, n: 0 };
    e.hash(&mut h);
    assert!(h.n == 1, "Effects no longer hashes as one u16");
    h.v
}

fn mk(mask: u16) -> Effects {
    assert!(mask < 4096, "mask out of range");
    let mut e = Effects::new();
    for (j, c) in ALL.iter().enumerate() {
        if mask >> j & 1 == 1 {
            e = e.insert(*c);
        }
    }
    e
}

fn table() -> Vec<Effects> {
    (0..4096u16).map(mk).collect()
}

/// the nine binary observations, in the order ins rem con set1 set0 or sub ora suba
fn binops(a: Effects, b: Effects) -> [u16; 9] {
    let mut oa = a;
    oa |= b;
    let mut sa = a;
    sa -= b;
    [
        bits(a.insert(b)),
        bits(a.remove(b)),
        a.contains(b) as u16,
        bits(a.set(b, true)),
        bits(a.set(b, false)),
        bits(a | b),
        bits(a - b),
        bits(oa),
        bits(sa),
    ]
}

const OPS: [&str; 9] = ["ins", "rem", "con", "set1", "set0", "or", "sub", "ora", "suba"];

fn eff1(f: &[&str]) -> String {
    let a: u16 = f[0].parse().expect("mask");
    let e = mk(a);
    let mut cmask = 0u16;
    for (j, c) in ALL.iter().enumerate() {
        if e.contains(*c) {
            cmask |= 1 << j;
        }
    }
    let it: Vec<String> = e.iter().map(|x| bits(x).to_string()).collect();
    format!(
        "bits={} cmask={} plain={} clear={} new={} dflt={} self={} iter={} dbg={}",
        bits(e),
        cmask,
        e.is_plain() as u8,
        bits(e.clear()),
        bits(Effects::new()),
        bits(Effects::default()),
        e.contains(e) as u8,
        if it.is_empty() { "-".to_owned() } else { it.join(",") },
        {
            // the debug form names exactly the members whatever width / precision the caller gives
            let plain = format!("{e:?}");
            let flagged = [format!("{e:14?}"), format!("{e:.3?}"), format!("{e:<9.0?}"), format!("{e:*^30.2?}")];
            let mut h = hex(plain.as_bytes());
            // the iterator protocol: whatever was already consumed, every provided method agrees with
            // stepping through `next()`
            for k in 0..4usize {
                let mut it = e.iter();
                for _ in 0..k {
                    it.next();
                }
                let rest: Vec<Effects> = {
                    let mut c = it.clone();
                    let mut v = Vec::new();
                    while let Some(x) = c.next() {
                        v.push(x);
                    }
                    v
                };
                let (lo, hi) = it.size_hint();
                let ok = it.clone().count() == rest.len()
                    && it.clone().last() == rest.last().copied()
                    && it.clone().nth(1) == rest.get(1).copied()
                    && it.clone().collect::<Vec<_>>() == rest
                    && it.clone().fold(0u16, |a, x| a | bits(x)) == rest.iter().fold(0u16, |a, x| a | bits(*x))
                    && lo <= rest.len()
                    && hi.map_or(true, |h| h >= rest.len());
                if !ok {
                    h.push_str(&format!("!iter{k}"));
                }
            }
            for (i, x) in flagged.iter().enumerate() {
                if *x != plain {
                    h.push_str(&format!("!flags{}:{}", i, hex(x.as_bytes())));
                }
            }
            h
        }
    )
}

fn effx(f: &[&str]) -> String {
    let a = mk(f[0].parse().expect("mask"));
    let mut out = Vec::new();
    for bs in f[1].split(',') {
        let b = mk(bs.parse().expect("mask"));
        let r = binops(a, b);
        out.push(r.iter().map(|x| x.to_string()).collect::<Vec<_>>().join(","));
    }
    out.join(";")
}

fn effrow(f: &[&str]) -> String {
    let a = mk(f[0].parse().expect("mask"));
    let b0: u32 = f[1].parse().expect("b0");
    let n: u32 = f[2].parse().expect("n");
    let t = table();
    let mut h = [2166136261u64; 9];
    for b in b0..b0 + n {
        let r = binops(a, t[b as usize]);
        for k in 0..9 {
            h[k] = ((h[k] ^ r[k] as u64) * 16777619) & 0xffff_ffff;
        }
    }
    (0..9).map(|k| format!("{}={:08x}", OPS[k], h[k])).collect::<Vec<_>>().join(" ")
}

fn opt_disc(c: Option<AnsiColor>) -> String {
    match c {
        Some(c) => (c as u8).to_string(),
        None => "-".to_owned(),
    }
}

fn col16(f: &[&str]) -> String {
    let i: usize = f[0].parse().expect("index");
    let c = ALLC[i];
    format!(
        "disc={} on={} off={} isb={} from={} from256={} into={}",
        c as u8,
        c.bright(true) as u8,
        c.bright(false) as u8,
        c.is_bright() as u8,
        Ansi256Color::from_ansi(c).index(),
        Ansi256Color::from(c).0,
        opt_disc(Ansi256Color::from_ansi(c).into_ansi())
    )
}

fn colstr(f: &[&str]) -> String {
    let i: usize = f[0].parse().expect("index");
    let c = ALLC[i];
    format!(
        "fg={} bg={}",
        hex(format!("{}", c.render_fg()).as_bytes()),
        hex(format!("{}", c.render_bg()).as_bytes())
    )
}

fn col256(f: &[&str]) -> String {
    let n: u8 = f[0].parse().expect("index");
    let c = Ansi256Color(n).into_ansi();
    format!(
        "index={} into={} back={}",
        Ansi256Color::from(n).index(),
        opt_disc(c),
        match c {
            Some(c) => Ansi256Color::from_ansi(c).index().to_string(),
            None => "-".to_owned(),
        }
    )
}

fn parse_color(s: &str) -> Option<Color> {
    if s == "-" {
        return None;
    }
    let (tag, rest) = s.split_at(1);
    Some(match tag {
        "a" => Color::Ansi(ALLC[rest.parse::<usize>().expect("ansi")]),
        "i" => Color::Ansi256(Ansi256Color(rest.parse().expect("ansi256"))),
        "r" => {
            let v = u32::from_str_radix(rest, 16).expect("rgb");
            Color::Rgb(RgbColor((v >> 16) as u8, (v >> 8) as u8, v as u8))
        }
        _ => panic!("colour tag"),
    })
}

fn show_color(c: Option<Color>) -> String {
    match c {
        None => "-".to_owned(),
        Some(Color::Ansi(c)) => format!("a{}", c as u8),
        Some(Color::Ansi256(c)) => format!("i{}", c.index()),
        Some(Color::Rgb(c)) => format!("r{:02x}{:02x}{:02x}", c.r(), c.g(), c.b()),
    }
}

fn show_style(s: Style) -> String {
    format!(
        "{}/{}/{}/{}",
        show_color(s.get_fg_color()),
        show_color(s.get_bg_color()),
        show_color(s.get_underline_color()),
        bits(s.get_effects())
    )
}

fn sty(f: &[&str]) -> String {
    let s = Style::new()
        .fg_color(parse_color(f[0]))
        .bg_color(parse_color(f[1]))
        .underline_color(parse_color(f[2]))
        .effects(mk(f[3].parse().expect("mask")));
    let v = parse_color(f[4]);
    let e = mk(f[5].parse().expect("mask"));
    // colour builders: `fg.on(bg)` / `fg.on_default()` (on Color and on each colour kind) are the
    // default style with exactly those colours, and From conversions keep the value
    let mut builders = String::new();
    if let Some(fg) = s.get_fg_color() {
        let want0 = Style::new().fg_color(Some(fg));
        let mut ok = fg.on_default() == want0;
        if let Some(bg) = v {
            let want = Style::new().fg_color(Some(fg)).bg_color(Some(bg));
            ok &= fg.on(bg) == want;
            ok &= match fg {
                Color::Ansi(a) => a.on(bg) == want && a.on_default() == want0 && Color::from(a) == fg,
                Color::Ansi256(x) => x.on(bg) == want && x.on_default() == want0 && Color::from(x) == fg && Color::from(x.index()) == fg,
                Color::Rgb(r) => r.on(bg) == want && r.on_default() == want0 && Color::from(r) == fg && Color::from((r.r(), r.g(), r.b())) == fg,
            };
        }
        builders = format!(" builders={}", if ok { "ok" } else { "DIFFER" });
    }
    let mut oa = s;
    oa |= e;
    let mut sa = s;
    sa -= e;
    let parts = vec![
        format!("self={}", show_style(s)),
        format!("fg={}", show_style(s.fg_color(v))),
        format!("bg={}", show_style(s.bg_color(v))),
        format!("ul={}", show_style(s.underline_color(v))),
        format!("eff={}", show_style(s.effects(e))),
        format!("bold={}", show_style(s.bold())),
        format!("dimmed={}", show_style(s.dimmed())),
        format!("italic={}", show_style(s.italic())),
        format!("underline={}", show_style(s.underline())),
        format!("blink={}", show_style(s.blink())),
        format!("invert={}", show_style(s.invert())),
        format!("hidden={}", show_style(s.hidden())),
        format!("strikethrough={}", show_style(s.strikethrough())),
        format!("or={}", show_style(s | e)),
        format!("sub={}", show_style(s - e)),
        format!("ora={}", show_style(oa)),
        format!("suba={}", show_style(sa)),
        format!("eq={}", (s == e) as u8),
        format!("from={}", show_style(Style::from(e))),
        format!("fromeq={}", (Style::from(e) == e) as u8),
        format!("plain={}", s.is_plain() as u8),
        format!("new={}", show_style(Style::new())),
        format!("dflt={}", show_style(Style::default())),
    ];
    let mut out = parts.join(";");
    if builders.contains("DIFFER") {
        out.push_str(";builders=DIFFER");     // only printed on a mismatch: the model prints nothing here
    }
    out
}

pub fn dispatch(kind: &str, f: &[&str]) -> Option<String> {
    Some(match kind {
        "eff1" => eff1(f),
        "effx" => effx(f),
        "effrow" => effrow(f),
        "col16" => col16(f),
        "colstr" => colstr(f),
        "col256" => col256(f),
        "sty" => sty(f),
        _ => return None,
    })
}
