//! C02: callback trace of `anstyle_parse::Parser::advance`.
use crate::{hex, unhex};
use anstyle_parse::state::{state_change, State};
use anstyle_parse::{Params, Parser, Perform};
use std::fmt::Write as _;

#[derive(Default)]
pub struct Rec {
    pub out: String,
    pub n: usize,
}

fn params(p: &Params) -> String {
    let groups: Vec<String> = p
        .iter()
        .map(|g| g.iter().map(|v| v.to_string()).collect::<Vec<_>>().join(","))
        .collect();
    // the other views of the same parameters agree with `iter()`
    let values: usize = p.iter().map(|g| g.len()).sum();
    assert_eq!(p.len(), values, "Params::len");
    assert_eq!(p.is_empty(), values == 0, "Params::is_empty");
    assert_eq!(p.iter().size_hint().1, Some(values), "ParamsIter::size_hint");
    let mut by_ref: Vec<String> = Vec::new();
    for g in p {
        by_ref.push(g.iter().map(|v| v.to_string()).collect::<Vec<_>>().join(","));
    }
    assert_eq!(by_ref, groups, "IntoIterator for &Params");
    let dbg: Vec<String> = p.iter().map(|g| g.iter().map(|v| v.to_string()).collect::<Vec<_>>().join(":")).collect();
    assert_eq!(format!("{p:?}"), format!("[{}]", dbg.join(";")), "Debug for Params");
    assert!(p.clone() == *p, "Clone / PartialEq for Params");
    // ParamsIter is an Iterator whose every other method is the provided one, i.e. defined by `next`:
    // positional / consuming adaptors must agree with stepping, from every cursor position, and none may panic
    let raw: Vec<Vec<u16>> = p.iter().map(|g| g.to_vec()).collect();
    for k in 0..=raw.len() + 2 {
        assert_eq!(p.iter().nth(k).map(|g| g.to_vec()), raw.get(k).cloned(), "ParamsIter::nth({k})");
        let skipped: Vec<Vec<u16>> = p.iter().skip(k).map(|g| g.to_vec()).collect();
        assert_eq!(skipped, raw.iter().skip(k).cloned().collect::<Vec<_>>(), "ParamsIter::skip({k})");
        let at = |k: usize| {
            let mut it = p.iter();
            for _ in 0..k {
                it.next();
            }
            it
        };
        let left = raw.len().saturating_sub(k);
        let left_values: usize = raw.iter().skip(k).map(|g| g.len()).sum();
        // (upstream reports the number of remaining VALUES as both bounds; the lower bound therefore exceeds the
        // number of groups still to come when a group has sub-parameters -- noted in DESIGN.md, outside every property)
        let (_lo, hi) = at(k).size_hint();
        assert!(hi == Some(left_values), "ParamsIter::size_hint after {k} steps");
        assert_eq!(at(k).count(), left, "ParamsIter::count after {k} steps");
        assert_eq!(at(k).last().map(|g| g.to_vec()), if left > 0 { raw.last().cloned() } else { None }, "ParamsIter::last after {k} steps");
        assert_eq!(at(k).fold(0usize, |a, g| a + g.len()), left_values, "ParamsIter::fold after {k} steps");
        let mut by_nth = at(k);
        let far = by_nth.nth(raw.len() + 1);
        assert!(far.is_none(), "ParamsIter::nth past the end");
        let _ = by_nth.size_hint();
        assert!(by_nth.next().is_none(), "ParamsIter exhausted by nth stays exhausted");
        let stepped: Vec<Vec<u16>> = at(k).step_by(2).map(|g| g.to_vec()).collect();
        assert_eq!(stepped, raw.iter().skip(k).step_by(2).cloned().collect::<Vec<_>>(), "ParamsIter::step_by(2) after {k} steps");
    }
    format!("{}:{}", groups.len(), groups.join(";"))
}

fn ints(i: &[u8]) -> String {
    format!("{}:{}", i.len(), hex(i))
}

impl Rec {
    fn sep(&mut self) {
        if self.n > 0 {
            self.out.push(' ');
        }
        self.n += 1;
    }
}

impl Perform for Rec {
    fn print(&mut self, c: char) {
        self.sep();
        let _ = write!(self.out, "p:{}", c as u32);
    }
    fn execute(&mut self, byte: u8) {
        self.sep();
        let _ = write!(self.out, "x:{byte}");
    }
    fn hook(&mut self, p: &Params, i: &[u8], ignore: bool, action: u8) {
        self.sep();
        let _ = write!(self.out, "h:{}:{}:{}:{}", params(p), ints(i), ignore as u8, action);
    }
    fn put(&mut self, byte: u8) {
        self.sep();
        let _ = write!(self.out, "u:{byte}");
    }
    fn unhook(&mut self) {
        self.sep();
        self.out.push('U');
    }
    fn osc_dispatch(&mut self, p: &[&[u8]], bell: bool) {
        self.sep();
        let f: Vec<String> = p.iter().map(|s| hex(s)).collect();
        let _ = write!(self.out, "o:{}:{}:{}", p.len(), f.join(","), bell as u8);
    }
    fn csi_dispatch(&mut self, p: &Params, i: &[u8], ignore: bool, action: u8) {
        self.sep();
        let _ = write!(self.out, "c:{}:{}:{}:{}", params(p), ints(i), ignore as u8, action);
    }
    fn esc_dispatch(&mut self, i: &[u8], ignore: bool, byte: u8) {
        self.sep();
        let _ = write!(self.out, "e:{}:{}:{}", ints(i), ignore as u8, byte);
    }
}

pub fn events(f: &[&str]) -> String {
    let bytes = unhex(f[0]);
    let mut parser = Parser::<anstyle_parse::DefaultCharAccumulator>::new();
    let mut rec = Rec::default();
    // a parser is a value: at input-dependent positions the run goes on with a clone of it
    let h = bytes.iter().fold(5usize, |a, b| a.wrapping_mul(33).wrapping_add(*b as usize));
    let every = [0usize, 1, 3, 7][h % 4];
    for (i, b) in bytes.into_iter().enumerate() {
        if every != 0 && (i + h / 4) % every == 0 {
            let copy = parser.clone();
            assert!(copy == parser, "Clone / PartialEq for Parser");
            parser = copy;
        }
        parser.advance(&mut rec, b);
    }
    rec.out
}

/// events produced by `rest` after the parser has consumed `prefix`
pub fn events_after(f: &[&str]) -> String {
    let prefix = unhex(f[0]);
    let rest = unhex(f[1]);
    let mut parser = Parser::<anstyle_parse::DefaultCharAccumulator>::new();
    let mut rec = Rec::default();
    for b in prefix {
        parser.advance(&mut rec, b);
    }
    let mut rec = Rec::default();
    for b in rest {
        parser.advance(&mut rec, b);
    }
    rec.out
}

const STATES: [State; 16] = [
    State::Anywhere,
    State::CsiEntry,
    State::CsiIgnore,
    State::CsiIntermediate,
    State::CsiParam,
    State::DcsEntry,
    State::DcsIgnore,
    State::DcsIntermediate,
    State::DcsParam,
    State::DcsPassthrough,
    State::Escape,
    State::EscapeIntermediate,
    State::Ground,
    State::OscString,
    State::SosPmApcString,
    State::Utf8,
];

/// `tbl <state discriminant>`: the 256 results of the public `state_change`
pub fn table_row(f: &[&str]) -> String {
    let d: u8 = f[0].parse().expect("state");
    // the checked conversions from the packed representation
    for raw in 0..=255u8 {
        match State::try_from(raw) {
            Ok(s) => assert!(raw < 16 && s as u8 == raw, "State::try_from({raw})"),
            Err(e) => assert!(raw >= 16 && e == raw, "State::try_from({raw})"),
        }
        match anstyle_parse::state::Action::try_from(raw) {
            Ok(a) => assert!(raw < 16 && a as u8 == raw, "Action::try_from({raw})"),
            Err(e) => assert!(raw >= 16 && e == raw, "Action::try_from({raw})"),
        }
    }
    let st = *STATES.iter().find(|s| **s as u8 == d).expect("state discriminant");
    let mut out = String::new();
    for b in 0..=255u8 {
        let (s, a) = state_change(st, b);
        let _ = write!(out, "{}.{} ", s as u8, a as u8);
    }
    out.trim_end().to_owned()
}

pub fn dispatch(kind: &str, f: &[&str]) -> Option<String> {
    Some(match kind {
        "tbl" => table_row(f),
        "c02" | "c02big" => events(f),
        "c02after" => events_after(f),
        _ => return None,
    })
}
