//! C02: callback trace of `anstyle_parse::Parser::advance`.
use crate::{hex, unhex};
use anstyle_parse::state::{state_change, State};
use anstyle_parse::{Params, Parser, Perform};
use std::fmt::Write as _;

#[derive(Default)]
pub struct Rec {
    pub out: String,
    pub n: usize,
}

fn params(p: &Params) -> String {
    let groups: Vec<String> = p
        .iter()
        .map(|g| g.iter().map(|v| v.to_string()).collect::<Vec<_>>().join(","))
        .collect();
    format!("{}:{}", groups.len(), groups.join(";"))
}

fn ints(i: &[u8]) -> String {
    format!("{}:{}", i.len(), hex(i))
}

impl Rec {
    fn sep(&mut self) {
        if self.n > 0 {
            self.out.push(' ');
        }
        self.n += 1;
    }
}

impl Perform for Rec {
    fn print(&mut self, c: char) {
        self.sep();
        let _ = write!(self.out, "p:{}", c as u32);
    }
    fn execute(&mut self, byte: u8) {
        self.sep();
        let _ = write!(self.out, "x:{byte}");
    }
    fn hook(&mut self, p: &Params, i: &[u8], ignore: bool, action: u8) {
        self.sep();
        let _ = write!(self.out, "h:{}:{}:{}:{}", params(p), ints(i), ignore as u8, action);
    }
    fn put(&mut self, byte: u8) {
        self.sep();
        let _ = write!(self.out, "u:{byte}");
    }
    fn unhook(&mut self) {
        self.sep();
        self.out.push('U');
    }
    fn osc_dispatch(&mut self, p: &[&[u8]], bell: bool) {
        self.sep();
        let f: Vec<String> = p.iter().map(|s| hex(s)).collect();
        let _ = write!(self.out, "o:{}:{}:{}", p.len(), f.join(","), bell as u8);
    }
    fn csi_dispatch(&mut self, p: &Params, i: &[u8], ignore: bool, action: u8) {
        self.sep();
        let _ = write!(self.out, "c:{}:{}:{}:{}", params(p), ints(i), ignore as u8, action);
    }
    fn esc_dispatch(&mut self, i: &[u8], ignore: bool, byte: u8) {
        self.sep();
        let _ = write!(self.out, "e:{}:{}:{}", ints(i), ignore as u8, byte);
    }
}

pub fn events(f: &[&str]) -> String {
    let bytes = unhex(f[0]);
    let mut parser = Parser::<anstyle_parse::DefaultCharAccumulator>::new();
    let mut rec = Rec::default();
    for b in bytes {
        parser.advance(&mut rec, b);
    }
    rec.out
}

/// events produced by `rest` after the parser has consumed `prefix`
pub fn events_after(f: &[&str]) -> String {
    let prefix = unhex(f[0]);
    let rest = unhex(f[1]);
    let mut parser = Parser::<anstyle_parse::DefaultCharAccumulator>::new();
    let mut rec = Rec::default();
    for b in prefix {
        parser.advance(&mut rec, b);
    }
    let mut rec = Rec::default();
    for b in rest {
        parser.advance(&mut rec, b);
    }
    rec.out
}

const STATES: [State; 16] = [
    State::Anywhere,
    State::CsiEntry,
    State::CsiIgnore,
    State::CsiIntermediate,
    State::CsiParam,
    State::DcsEntry,
    State::DcsIgnore,
    State::DcsIntermediate,
    State::DcsParam,
    State::DcsPassthrough,
    State::Escape,
    State::EscapeIntermediate,
    State::Ground,
    State::OscString,
    State::SosPmApcString,
    State::Utf8,
];

/// `tbl <state discriminant>`: the 256 results of the public `state_change`
pub fn table_row(f: &[&str]) -> String {
    let d: u8 = f[0].parse().expect("state");
    let st = *STATES.iter().find(|s| **s as u8 == d).expect("state discriminant");
    let mut out = String::new();
    for b in 0..=255u8 {
        let (s, a) = state_change(st, b);
        let _ = write!(out, "{}.{} ", s as u8, a as u8);
    }
    out.trim_end().to_owned()
}

pub fn dispatch(kind: &str, f: &[&str]) -> Option<String> {
    Some(match kind {
        "tbl" => table_row(f),
        "c02" | "c02big" => events(f),
        "c02after" => events_after(f),
        _ => return None,
    })
}
