//! C16 -- the adapter crates, observed through the real target libraries.
//!
//! Case kinds (`<lib>` is one of ansi_term crossterm owo termcolor yansi):
//!   adm <lib> fg|bg|ul <tcolour> [<bytes>]   the library's own rendering of "x" in a style that holds
//!   adm <lib> at <attribute>     [<bytes>]   ONLY that colour / attribute (built with the library's API,
//!                                            no adapter involved); result: the bytes, hex
//!   adv <lib> <fg> <bg> <ul> <eff>           the adapter's result for that anstyle style, as a canonical
//!                                            value: fg=<tcolour> bg=<tcolour> ul=<tcolour> at=<a>,<a>,..
//!   adr <lib> <fg> <bg> <ul> <eff> [<bytes>] the library's rendering of "x" in the adapter's result, hex
//!   ads <fg rrggbbaa> <bg rrggbbaa> <bits>   anstyle_syntect::to_anstyle, as <fg>,<bg>,<ul>,<eff>
//! A trailing <bytes> field (second-stage case lines, see vlib/props/c16.py) is ignored here: the
//! rendering is always done afresh.
//!
//! anstyle colours: `-` | a<0..15> | x<0..255> | r<r>.<g>.<b>; <eff> is the decimal bit set over
//! BOLD, DIMMED, ITALIC, UNDERLINE, DOUBLE_UNDERLINE, CURLY_UNDERLINE, DOTTED_UNDERLINE,
//! DASHED_UNDERLINE, BLINK, INVERT, HIDDEN, STRIKETHROUGH (bit 0 .. bit 11).
//! Target colours <tcolour>: `-` | n:<ConstructorName> | x:<index> | r:<r>.<g>.<b>.
//! Attribute names are the identifiers the adapter sources use: ansi_term / owo-colors / yansi builder
//! method names, crossterm `Attribute` variants, termcolor setter names; sorted alphabetically.

const EFFECTS: [anstyle::Effects; 12] = [
    anstyle::Effects::BOLD,
    anstyle::Effects::DIMMED,
    anstyle::Effects::ITALIC,
    anstyle::Effects::UNDERLINE,
    anstyle::Effects::DOUBLE_UNDERLINE,
    anstyle::Effects::CURLY_UNDERLINE,
    anstyle::Effects::DOTTED_UNDERLINE,
    anstyle::Effects::DASHED_UNDERLINE,
    anstyle::Effects::BLINK,
    anstyle::Effects::INVERT,
    anstyle::Effects::HIDDEN,
    anstyle::Effects::STRIKETHROUGH,
];

const ANSI: [anstyle::AnsiColor; 16] = [
    anstyle::AnsiColor::Black,
    anstyle::AnsiColor::Red,
    anstyle::AnsiColor::Green,
    anstyle::AnsiColor::Yellow,
    anstyle::AnsiColor::Blue,
    anstyle::AnsiColor::Magenta,
    anstyle::AnsiColor::Cyan,
    anstyle::AnsiColor::White,
    anstyle::AnsiColor::BrightBlack,
    anstyle::AnsiColor::BrightRed,
    anstyle::AnsiColor::BrightGreen,
    anstyle::AnsiColor::BrightYellow,
    anstyle::AnsiColor::BrightBlue,
    anstyle::AnsiColor::BrightMagenta,
    anstyle::AnsiColor::BrightCyan,
    anstyle::AnsiColor::BrightWhite,
];

fn rgb3(s: &str) -> Option<(u8, u8, u8)> {
    let v: Vec<&str> = s.split('.').collect();
    if v.len() != 3 {
        return None;
    }
    Some((v[0].parse().ok()?, v[1].parse().ok()?, v[2].parse().ok()?))
}

/// anstyle colour of a case field; outer None = malformed
fn src_colour(s: &str) -> Option<Option<anstyle::Color>> {
    if s == "-" {
        return Some(None);
    }
    let (k, rest) = s.split_at(1);
    Some(Some(match k {
        "a" => anstyle::Color::Ansi(*ANSI.get(rest.parse::<usize>().ok()?)?),
        "x" => anstyle::Color::Ansi256(anstyle::Ansi256Color(rest.parse().ok()?)),
        "r" => {
            let (r, g, b) = rgb3(rest)?;
            anstyle::Color::Rgb(anstyle::RgbColor(r, g, b))
        }
        _ => return None,
    }))
}

fn src_style(f: &[&str]) -> Option<anstyle::Style> {
    let fg = src_colour(f.first()?)?;
    let bg = src_colour(f.get(1)?)?;
    let ul = src_colour(f.get(2)?)?;
    let bits: u32 = f.get(3)?.parse().ok()?;
    if bits >= 4096 {
        return None;
    }
    let mut e = anstyle::Effects::new();
    for (k, c) in EFFECTS.iter().enumerate() {
        if bits & (1 << k) != 0 {
            e |= *c;
        }
    }
    Some(anstyle::Style::new().fg_color(fg).bg_color(bg).underline_color(ul).effects(e))
}

/// a target colour field: Named / indexed / rgb
enum TC<'a> {
    Named(&'a str),
    Fixed(u8),
    Rgb(u8, u8, u8),
}

fn tcolour(s: &str) -> Option<TC<'_>> {
    let (k, rest) = s.split_at(2.min(s.len()));
    match k {
        "n:" => Some(TC::Named(rest)),
        "x:" => Some(TC::Fixed(rest.parse().ok()?)),
        "r:" => {
            let (r, g, b) = rgb3(rest)?;
            Some(TC::Rgb(r, g, b))
        }
        _ => None,
    }
}

fn canon(fg: String, bg: String, ul: String, mut at: Vec<String>) -> String {
    at.sort();
    at.dedup();
    format!("fg={fg} bg={bg} ul={ul} at={}", if at.is_empty() { "-".to_owned() } else { at.join(",") })
}

fn opt(c: Option<String>) -> String {
    c.unwrap_or_else(|| "-".to_owned())
}

// ---------------------------------------------------------------------------
// ansi_term

mod at {
    use super::TC;
    use ansi_term::{Colour, Style};

    pub fn colour(c: &TC<'_>) -> Option<Colour> {
        Some(match c {
            TC::Named("Black") => Colour::Black,
            TC::Named("Red") => Colour::Red,
            TC::Named("Green") => Colour::Green,
            TC::Named("Yellow") => Colour::Yellow,
            TC::Named("Blue") => Colour::Blue,
            TC::Named("Purple") => Colour::Purple,
            TC::Named("Cyan") => Colour::Cyan,
            TC::Named("White") => Colour::White,
            TC::Fixed(n) => Colour::Fixed(*n),
            TC::Rgb(r, g, b) => Colour::RGB(*r, *g, *b),
            TC::Named(_) => return None,
        })
    }

    pub fn show(c: Colour) -> String {
        match c {
            Colour::Fixed(n) => format!("x:{n}"),
            Colour::RGB(r, g, b) => format!("r:{r}.{g}.{b}"),
            other => format!("n:{other:?}"),
        }
    }

    pub fn attr(s: Style, name: &str) -> Option<Style> {
        Some(match name {
            "bold" => s.bold(),
            "dimmed" => s.dimmed(),
            "italic" => s.italic(),
            "underline" => s.underline(),
            "blink" => s.blink(),
            "reverse" => s.reverse(),
            "hidden" => s.hidden(),
            "strikethrough" => s.strikethrough(),
            _ => return None,
        })
    }

    pub fn value(s: &Style) -> String {
        let mut a = Vec::new();
        for (on, n) in [
            (s.is_bold, "bold"),
            (s.is_dimmed, "dimmed"),
            (s.is_italic, "italic"),
            (s.is_underline, "underline"),
            (s.is_blink, "blink"),
            (s.is_reverse, "reverse"),
            (s.is_hidden, "hidden"),
            (s.is_strikethrough, "strikethrough"),
        ] {
            if on {
                a.push(n.to_owned());
            }
        }
        super::canon(super::opt(s.foreground.map(show)), super::opt(s.background.map(show)), "-".to_owned(), a)
    }

    pub fn render(s: &Style) -> Vec<u8> {
        s.paint("x").to_string().into_bytes()
    }
}

// ---------------------------------------------------------------------------
// crossterm

mod ct {
    use super::TC;
    use crossterm::style::{Attribute, Color, ContentStyle};

    pub fn colour(c: &TC<'_>) -> Option<Color> {
        Some(match c {
            TC::Named("Reset") => Color::Reset,
            TC::Named("Black") => Color::Black,
            TC::Named("DarkGrey") => Color::DarkGrey,
            TC::Named("Red") => Color::Red,
            TC::Named("DarkRed") => Color::DarkRed,
            TC::Named("Green") => Color::Green,
            TC::Named("DarkGreen") => Color::DarkGreen,
            TC::Named("Yellow") => Color::Yellow,
            TC::Named("DarkYellow") => Color::DarkYellow,
            TC::Named("Blue") => Color::Blue,
            TC::Named("DarkBlue") => Color::DarkBlue,
            TC::Named("Magenta") => Color::Magenta,
            TC::Named("DarkMagenta") => Color::DarkMagenta,
            TC::Named("Cyan") => Color::Cyan,
            TC::Named("DarkCyan") => Color::DarkCyan,
            TC::Named("White") => Color::White,
            TC::Named("Grey") => Color::Grey,
            TC::Fixed(n) => Color::AnsiValue(*n),
            TC::Rgb(r, g, b) => Color::Rgb { r: *r, g: *g, b: *b },
            TC::Named(_) => return None,
        })
    }

    pub fn show(c: Color) -> String {
        match c {
            Color::AnsiValue(n) => format!("x:{n}"),
            Color::Rgb { r, g, b } => format!("r:{r}.{g}.{b}"),
            other => format!("n:{other:?}"),
        }
    }

    pub fn attr(name: &str) -> Option<Attribute> {
        Attribute::iterator().find(|a| format!("{a:?}") == name)
    }

    pub fn value(s: &ContentStyle) -> String {
        let a = Attribute::iterator().filter(|a| s.attributes.has(*a)).map(|a| format!("{a:?}")).collect();
        super::canon(
            super::opt(s.foreground_color.map(show)),
            super::opt(s.background_color.map(show)),
            super::opt(s.underline_color.map(show)),
            a,
        )
    }

    pub fn render(s: &ContentStyle) -> Vec<u8> {
        // NO_COLOR in the environment would silence every colour command
        crossterm::style::force_color_output(true);
        s.apply("x").to_string().into_bytes()
    }
}

// ---------------------------------------------------------------------------
// owo-colors

mod ow {
    use super::TC;
    use owo_colors::{AnsiColors, DynColors, Style, XtermColors};

    pub fn colour(c: &TC<'_>) -> Option<DynColors> {
        Some(match c {
            TC::Named(n) => DynColors::Ansi(match *n {
                "Black" => AnsiColors::Black,
                "Red" => AnsiColors::Red,
                "Green" => AnsiColors::Green,
                "Yellow" => AnsiColors::Yellow,
                "Blue" => AnsiColors::Blue,
                "Magenta" => AnsiColors::Magenta,
                "Cyan" => AnsiColors::Cyan,
                "White" => AnsiColors::White,
                "Default" => AnsiColors::Default,
                "BrightBlack" => AnsiColors::BrightBlack,
                "BrightRed" => AnsiColors::BrightRed,
                "BrightGreen" => AnsiColors::BrightGreen,
                "BrightYellow" => AnsiColors::BrightYellow,
                "BrightBlue" => AnsiColors::BrightBlue,
                "BrightMagenta" => AnsiColors::BrightMagenta,
                "BrightCyan" => AnsiColors::BrightCyan,
                "BrightWhite" => AnsiColors::BrightWhite,
                _ => return None,
            }),
            TC::Fixed(n) => DynColors::Xterm(XtermColors::from(*n)),
            TC::Rgb(r, g, b) => DynColors::Rgb(*r, *g, *b),
        })
    }

    pub fn attr(s: Style, name: &str) -> Option<Style> {
        Some(match name {
            "bold" => s.bold(),
            "dimmed" => s.dimmed(),
            "italic" => s.italic(),
            "underline" => s.underline(),
            "blink" => s.blink(),
            "blink_fast" => s.blink_fast(),
            "reversed" => s.reversed(),
            "hidden" => s.hidden(),
            "strikethrough" => s.strikethrough(),
            _ => return None,
        })
    }

    fn xterm_names() -> &'static std::collections::HashMap<String, u8> {
        static M: std::sync::OnceLock<std::collections::HashMap<String, u8>> = std::sync::OnceLock::new();
        M.get_or_init(|| (0..=255u8).map(|i| (format!("{:?}", XtermColors::from(i)), i)).collect())
    }

    /// Debug form of an Option<DynColors> -> canonical colour
    fn show(d: &str) -> Option<String> {
        if d == "None" {
            return Some("-".to_owned());
        }
        let inner = d.strip_prefix("Some(")?.strip_suffix(')')?;
        if let Some(n) = inner.strip_prefix("Ansi(") {
            return Some(format!("n:{}", n.strip_suffix(')')?));
        }
        if let Some(n) = inner.strip_prefix("Xterm(") {
            return Some(format!("x:{}", xterm_names().get(n.strip_suffix(')')?)?));
        }
        if let Some(n) = inner.strip_prefix("Rgb(") {
            let v: Vec<&str> = n.strip_suffix(')')?.split(", ").collect();
            if v.len() == 3 {
                return Some(format!("r:{}.{}.{}", v[0], v[1], v[2]));
            }
        }
        None
    }

    /// `Style`'s fields are private: the value is read off its derived Debug form
    /// `Style { fg: .., bg: .., bold: .., style_flags: StyleFlags(n) }`; the bits of
    /// StyleFlags are owo-colors 4.0's DIMMED_SHIFT .. STRIKETHROUGH_SHIFT = 0 .. 7.
    pub fn value(s: &Style) -> String {
        let d = format!("{s:?}");
        let parse = || -> Option<String> {
            let body = d.strip_prefix("Style { fg: ")?.strip_suffix(") }")?;
            let (fg, rest) = body.split_once(", bg: ")?;
            let (bg, rest) = rest.split_once(", bold: ")?;
            let (bold, flags) = rest.split_once(", style_flags: StyleFlags(")?;
            let flags: u8 = flags.parse().ok()?;
            let mut a = Vec::new();
            match bold {
                "true" => a.push("bold".to_owned()),
                "false" => {}
                _ => return None,
            }
            for (k, n) in ["dimmed", "italic", "underline", "blink", "blink_fast", "reversed", "hidden", "strikethrough"].iter().enumerate() {
                if flags & (1 << k) != 0 {
                    a.push((*n).to_owned());
                }
            }
            Some(super::canon(show(fg)?, show(bg)?, "-".to_owned(), a))
        };
        parse().unwrap_or_else(|| format!("UNPARSED {d}"))
    }

    pub fn render(s: &Style) -> Vec<u8> {
        format!("{}", s.style("x")).into_bytes()
    }
}

// ---------------------------------------------------------------------------
// termcolor

mod tc {
    use super::TC;
    use termcolor::{Color, ColorSpec, WriteColor};

    pub fn colour(c: &TC<'_>) -> Option<Color> {
        Some(match c {
            TC::Named("Black") => Color::Black,
            TC::Named("Blue") => Color::Blue,
            TC::Named("Green") => Color::Green,
            TC::Named("Red") => Color::Red,
            TC::Named("Cyan") => Color::Cyan,
            TC::Named("Magenta") => Color::Magenta,
            TC::Named("Yellow") => Color::Yellow,
            TC::Named("White") => Color::White,
            TC::Fixed(n) => Color::Ansi256(*n),
            TC::Rgb(r, g, b) => Color::Rgb(*r, *g, *b),
            TC::Named(_) => return None,
        })
    }

    pub fn show(c: &Color) -> String {
        match c {
            Color::Ansi256(n) => format!("x:{n}"),
            Color::Rgb(r, g, b) => format!("r:{r}.{g}.{b}"),
            other => format!("n:{other:?}"),
        }
    }

    pub fn attr(s: &mut ColorSpec, name: &str) -> Option<()> {
        match name {
            "set_bold" => s.set_bold(true),
            "set_dimmed" => s.set_dimmed(true),
            "set_italic" => s.set_italic(true),
            "set_underline" => s.set_underline(true),
            "set_intense" => s.set_intense(true),
            "set_strikethrough" => s.set_strikethrough(true),
            _ => return None,
        };
        Some(())
    }

    pub fn value(s: &ColorSpec) -> String {
        let mut a = Vec::new();
        for (on, n) in [
            (s.bold(), "set_bold"),
            (s.dimmed(), "set_dimmed"),
            (s.italic(), "set_italic"),
            (s.underline(), "set_underline"),
            (s.intense(), "set_intense"),
            (s.strikethrough(), "set_strikethrough"),
            (!s.reset(), "set_reset(false)"),
        ] {
            if on {
                a.push(n.to_owned());
            }
        }
        super::canon(super::opt(s.fg().map(show)), super::opt(s.bg().map(show)), "-".to_owned(), a)
    }

    pub fn render(s: &ColorSpec) -> Vec<u8> {
        let mut w = termcolor::Ansi::new(Vec::new());
        w.set_color(s).expect("set_color");
        std::io::Write::write_all(&mut w, b"x").expect("write");
        w.reset().expect("reset");
        w.into_inner()
    }
}

// ---------------------------------------------------------------------------
// yansi

mod ya {
    use super::TC;
    use yansi::{Color, Paint, Style};

    pub fn colour(c: &TC<'_>) -> Option<Color> {
        Some(match c {
            TC::Named(n) => match *n {
                "Primary" => Color::Primary,
                "Black" => Color::Black,
                "Red" => Color::Red,
                "Green" => Color::Green,
                "Yellow" => Color::Yellow,
                "Blue" => Color::Blue,
                "Magenta" => Color::Magenta,
                "Cyan" => Color::Cyan,
                "White" => Color::White,
                "BrightBlack" => Color::BrightBlack,
                "BrightRed" => Color::BrightRed,
                "BrightGreen" => Color::BrightGreen,
                "BrightYellow" => Color::BrightYellow,
                "BrightBlue" => Color::BrightBlue,
                "BrightMagenta" => Color::BrightMagenta,
                "BrightCyan" => Color::BrightCyan,
                "BrightWhite" => Color::BrightWhite,
                _ => return None,
            },
            TC::Fixed(n) => Color::Fixed(*n),
            TC::Rgb(r, g, b) => Color::Rgb(*r, *g, *b),
        })
    }

    pub fn show(c: Color) -> String {
        match c {
            Color::Fixed(n) => format!("x:{n}"),
            Color::Rgb(r, g, b) => format!("r:{r}.{g}.{b}"),
            other => format!("n:{other:?}"),
        }
    }

    pub fn attr(s: Style, name: &str) -> Option<Style> {
        Some(match name {
            "bold" => s.bold(),
            "dim" => s.dim(),
            "italic" => s.italic(),
            "underline" => s.underline(),
            "blink" => s.blink(),
            "rapid_blink" => s.rapid_blink(),
            "invert" => s.invert(),
            "conceal" => s.conceal(),
            "strike" => s.strike(),
            _ => return None,
        })
    }

    /// the attribute set is private: it is read off the derived Debug form
    /// `Style { foreground: .., background: .., attributes: {A, B}, quirks: {..}, .. }`
    pub fn value(s: &Style) -> String {
        let d = format!("{s:?}");
        let parse = || -> Option<String> {
            let (_, rest) = d.split_once("attributes: {")?;
            let (attrs, rest) = rest.split_once("}, quirks: {")?;
            let (quirks, _) = rest.split_once('}')?;
            let mut a = Vec::new();
            for n in attrs.split(", ").filter(|n| !n.is_empty()) {
                a.push(
                    match n {
                        "Bold" => "bold",
                        "Dim" => "dim",
                        "Italic" => "italic",
                        "Underline" => "underline",
                        "Blink" => "blink",
                        "RapidBlink" => "rapid_blink",
                        "Invert" => "invert",
                        "Conceal" => "conceal",
                        "Strike" => "strike",
                        _ => return None,
                    }
                    .to_owned(),
                );
            }
            for q in quirks.split(", ").filter(|n| !n.is_empty()) {
                a.push(format!("quirk:{q}"));
            }
            Some(super::canon(super::opt(s.foreground.map(show)), super::opt(s.background.map(show)), "-".to_owned(), a))
        };
        parse().unwrap_or_else(|| format!("UNPARSED {d}"))
    }

    pub fn render(s: &Style) -> Vec<u8> {
        yansi::enable();
        "x".paint(*s).to_string().into_bytes()
    }
}

// ---------------------------------------------------------------------------

fn adm(lib: &str, slot: &str, what: &str) -> Option<Vec<u8>> {
    let col = if slot == "at" { None } else { Some(tcolour(what)?) };
    Some(match lib {
        "ansi_term" => {
            let s = ansi_term::Style::new();
            at::render(&match slot {
                "fg" => s.fg(at::colour(col.as_ref()?)?),
                "bg" => s.on(at::colour(col.as_ref()?)?),
                "at" => at::attr(s, what)?,
                _ => return None,
            })
        }
        "crossterm" => {
            let mut s = crossterm::style::ContentStyle::default();
            match slot {
                "fg" => s.foreground_color = Some(ct::colour(col.as_ref()?)?),
                "bg" => s.background_color = Some(ct::colour(col.as_ref()?)?),
                "ul" => s.underline_color = Some(ct::colour(col.as_ref()?)?),
                "at" => s.attributes.set(ct::attr(what)?),
                _ => return None,
            }
            ct::render(&s)
        }
        "owo" => {
            let s = owo_colors::Style::new();
            ow::render(&match slot {
                "fg" => s.color(ow::colour(col.as_ref()?)?),
                "bg" => s.on_color(ow::colour(col.as_ref()?)?),
                "at" => ow::attr(s, what)?,
                _ => return None,
            })
        }
        "termcolor" => {
            let mut s = termcolor::ColorSpec::new();
            match slot {
                "fg" => {
                    s.set_fg(Some(tc::colour(col.as_ref()?)?));
                }
                "bg" => {
                    s.set_bg(Some(tc::colour(col.as_ref()?)?));
                }
                "at" => tc::attr(&mut s, what)?,
                _ => return None,
            }
            tc::render(&s)
        }
        "yansi" => {
            let s = yansi::Style::new();
            ya::render(&match slot {
                "fg" => s.fg(ya::colour(col.as_ref()?)?),
                "bg" => s.bg(ya::colour(col.as_ref()?)?),
                "at" => ya::attr(s, what)?,
                _ => return None,
            })
        }
        _ => return None,
    })
}

/// the public per-colour helpers agree with what the style conversions do with a colour
fn colour_helpers(lib: &str, s: anstyle::Style) {
    for c in [s.get_fg_color(), s.get_bg_color()].into_iter().flatten() {
        let only = anstyle::Style::new().fg_color(Some(c));
        match lib {
            "owo" => {
                let direct = owo_colors::Style::new().color(anstyle_owo_colors::to_owo_colors(c));
                assert_eq!(ow::value(&anstyle_owo_colors::to_owo_style(only)), ow::value(&direct), "to_owo_colors");
            }
            "termcolor" => {
                assert_eq!(anstyle_termcolor::to_termcolor_spec(only).fg(), Some(&anstyle_termcolor::to_termcolor_color(c)), "to_termcolor_color");
            }
            "yansi" => {
                // (the adapter names the unset background explicitly: `Primary`, yansi's "terminal default")
                let direct = yansi::Style::new().fg(anstyle_yansi::to_yansi_color(c)).bg(yansi::Color::Primary);
                assert_eq!(ya::value(&anstyle_yansi::to_yansi_style(only)), ya::value(&direct), "to_yansi_color");
            }
            _ => {}
        }
    }
}

fn adv(lib: &str, s: anstyle::Style, render: bool) -> Option<String> {
    if !render {
        colour_helpers(lib, s);
    }
    Some(match lib {
        "ansi_term" => {
            let t = anstyle_ansi_term::to_ansi_term(s);
            if render { crate::hex(&at::render(&t)) } else { at::value(&t) }
        }
        "crossterm" => {
            let t = anstyle_crossterm::to_crossterm(s);
            if render { crate::hex(&ct::render(&t)) } else { ct::value(&t) }
        }
        "owo" => {
            let t = anstyle_owo_colors::to_owo_style(s);
            if render { crate::hex(&ow::render(&t)) } else { ow::value(&t) }
        }
        "termcolor" => {
            let t = anstyle_termcolor::to_termcolor_spec(s);
            if render { crate::hex(&tc::render(&t)) } else { tc::value(&t) }
        }
        "yansi" => {
            let t = anstyle_yansi::to_yansi_style(s);
            if render { crate::hex(&ya::render(&t)) } else { ya::value(&t) }
        }
        _ => return None,
    })
}

fn show_src(c: Option<anstyle::Color>) -> String {
    match c {
        None => "-".to_owned(),
        Some(anstyle::Color::Ansi(a)) => format!("a{}", ANSI.iter().position(|x| *x == a).expect("ansi colour")),
        Some(anstyle::Color::Ansi256(x)) => format!("x{}", x.0),
        Some(anstyle::Color::Rgb(c)) => format!("r{}.{}.{}", c.0, c.1, c.2),
    }
}

fn ads(f: &[&str]) -> Option<String> {
    use syntect::highlighting::{Color, FontStyle, Style};
    let col = |s: &str| -> Option<Color> {
        let b = crate::unhex(s);
        if b.len() != 4 {
            return None;
        }
        Some(Color { r: b[0], g: b[1], b: b[2], a: b[3] })
    };
    let st = Style { foreground: col(f.first()?)?, background: col(f.get(1)?)?, font_style: FontStyle::from_bits(f.get(2)?.parse().ok()?)? };
    let a = anstyle_syntect::to_anstyle(st);
    assert_eq!(a.get_fg_color(), Some(anstyle_syntect::to_anstyle_color(st.foreground)), "to_anstyle_color");
    assert_eq!(a.get_bg_color(), Some(anstyle_syntect::to_anstyle_color(st.background)), "to_anstyle_color");
    assert_eq!(a.get_effects(), anstyle_syntect::to_anstyle_effects(st.font_style), "to_anstyle_effects");
    let e = a.get_effects();
    let mut bits = 0u32;
    for (k, c) in EFFECTS.iter().enumerate() {
        if e.contains(*c) {
            bits |= 1 << k;
        }
    }
    // any effect outside the twelve known constants would show up as a difference here
    let mut known = anstyle::Effects::new();
    for c in EFFECTS.iter() {
        if e.contains(*c) {
            known |= *c;
        }
    }
    if known != e {
        return Some(format!("UNKNOWN-EFFECT {e:?}"));
    }
    Some(format!("{},{},{},{}", show_src(a.get_fg_color()), show_src(a.get_bg_color()), show_src(a.get_underline_color()), bits))
}

pub fn dispatch(kind: &str, f: &[&str]) -> Option<String> {
    let bad = || Some("BADCASE".to_owned());
    match kind {
        "adm" => {
            if f.len() < 3 {
                return bad();
            }
            Some(adm(f[0], f[1], f[2]).map_or_else(|| "BADCASE".to_owned(), |b| crate::hex(&b)))
        }
        "adv" | "adr" => {
            if f.len() < 5 {
                return bad();
            }
            match src_style(&f[1..5]) {
                Some(s) => adv(f[0], s, kind == "adr").or_else(bad),
                None => bad(),
            }
        }
        "ads" => ads(f).or_else(bad),
        _ => None,
    }
}
