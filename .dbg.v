(* Proofs/WinconGen.v -- the functions TRANSLATED from crates/anstream/src/adapter/wincon.rs
   (Generated/WinconFn.v, written by tools/gen_fn_wincon.py on every run: WinconCapture::{reset,
   print, execute, csi_dispatch}, to_ansi_color, next_bytes, and anstyle's AnsiColor::bright) are
   extensionally equal to the hand model Model/Wincon.v that the theorems of C07 / C03 / C18 / C14
   are about.  A change to the Rust functions changes the translation; if it changes their
   meaning, one of these proofs fails. *)
From Coq Require Import NArith List Bool Lia.
From AV Require Import Generated.Table Spec.Vt Spec.Sgr Model.Base Model.Imp Model.Utf8parse Model.Parser
  Generated.ParserFn Model.Wincon Generated.WinconFn Proofs.ParserGen.
Import ListNotations.
Local Open Scope N_scope.

(* ---- AnsiColor::bright, to_ansi_color --------------------------------------------------- *)

(* the hand model works with palette indices: bright(true) on a normal colour is +8 *)
Lemma g_ansi_bright_true a :
  ansi_idx a <= 7 -> exists r, g_ansi_bright a true = Some r /\ ansi_idx r = ansi_idx a + 8.
Proof. destruct a; cbn; intros H; try (exfalso; lia); eexists; split; reflexivity. Qed.

(* the complete table, both directions *)
Lemma g_ansi_bright_idx a yes :
  option_map ansi_idx (g_ansi_bright a yes) =
  Some (if yes then (if ansi_idx a <? 8 then ansi_idx a + 8 else ansi_idx a)
        else (if ansi_idx a <? 8 then ansi_idx a else ansi_idx a - 8)).
Proof. destruct a, yes; reflexivity. Qed.

Lemma g_to_ansi_color_eq d :
  exists r, g_to_ansi_color d = Some r /\ option_map ansi_idx r = to_ansi_color d.
Proof.
  unfold g_to_ansi_color, to_ansi_color.
  destruct (d <=? 7) eqn:E.
  - apply N.leb_le in E.
    assert (H : d = 0 \/ d = 1 \/ d = 2 \/ d = 3 \/ d = 4 \/ d = 5 \/ d = 6 \/ d = 7) by lia.
    repeat (destruct H as [-> | H]); try subst d; eexists; split; reflexivity.
  - apply N.leb_gt in E.
    repeat match goal with |- context [?a =? ?b] => replace (a =? b) with false by (symmetry; apply N.eqb_neq; lia) end.
    eexists; split; reflexivity.
Qed.

(* the two ways the dispatcher uses it *)
Lemma ansi_plain d (K : acolor -> option (bctl (sstyle * wstate * option N * option N * target))) K' :
  (forall u, ansi_idx u <= 7 -> K u = K' (ansi_idx u)) ->
  (r <- g_to_ansi_color d ;; u <- r ;; K u) = (c <- to_ansi_color d ;; K' c).
Proof.
  intros HK. destruct (g_to_ansi_color_eq d) as [r [-> E]]. rewrite <- E.
  destruct r as [u|]; cbn [option_map]; [|reflexivity].
  apply HK. unfold to_ansi_color in E. destruct (d <=? 7) eqn:L; cbn in E; [|discriminate].
  injection E as ->. apply N.leb_le; exact L.
Qed.

Lemma ansi_bright d (K : acolor -> option (bctl (sstyle * wstate * option N * option N * target))) K' :
  (forall u, K u = K' (ansi_idx u)) ->
  (r <- g_to_ansi_color d ;; u <- r ;; br <- g_ansi_bright u true ;; K br) = (c <- to_ansi_color d ;; K' (c + 8)).
Proof.
  intros HK. destruct (g_to_ansi_color_eq d) as [r [-> E]]. rewrite <- E.
  destruct r as [u|]; cbn [option_map]; [|reflexivity].
  assert (L : ansi_idx u <= 7).
  { unfold to_ansi_color in E. destruct (d <=? 7) eqn:L; cbn in E; [|discriminate]. injection E as ->. apply N.leb_le; exact L. }
  destruct (g_ansi_bright_true u L) as [b [-> Eb]]. rewrite HK, Eb. reflexivity.
Qed.

(* ---- the decoder loops -------------------------------------------------------------------- *)

Definition dtup (d : dstate) := (d_style d, d_state d, d_r d, d_g d, d_target d).

Definition step_res (o : option (dstate * bool)) : option (bctl (sstyle * wstate * option N * option N * target)) :=
  match o with
  | Some (d, true) => Some (BBreak (dtup d))
  | Some (d, false) => Some (BNext (dtup d))
  | None => None
  end.

(* `for value in param`: any loop body that does what value_step does *)
Lemma values_loop_for f :
  (forall v s w r g t, f v (s, w, r, g, t) = step_res (value_step (mkD s w r g t) v)) ->
  forall vs s w r g t, for_list0 f vs (s, w, r, g, t) = option_map dtup (values_loop (mkD s w r g t) vs).
Proof.
  intros Hf. induction vs as [|v vs IH]; intros s w r g t; cbn [for_list0 values_loop].
  - reflexivity.
  - rewrite Hf. destruct (value_step (mkD s w r g t) v) as [[d1 [|]]|]; cbn [step_res]; try reflexivity.
    destruct d1 as [s1 w1 r1 g1 t1]. cbn [dtup d_style d_state d_r d_g d_target]. apply IH.
Qed.

Definition after_param (d1 : dstate) : dstate :=
  match d_state d1 with WUnderline => set_d d1 (d_style d1) WNormal | _ => d1 end.

(* `for param in params` *)
Lemma params_loop_for f :
  (forall p s w r g t, f p (s, w, r, g, t) =
     match values_loop (mkD s w r g t) p with Some d1 => Some (BNext (dtup (after_param d1))) | None => None end) ->
  forall ps s w r g t, for_list0 f ps (s, w, r, g, t) = option_map dtup (params_loop (mkD s w r g t) ps).
Proof.
  intros Hf. induction ps as [|p ps IH]; intros s w r g t; cbn [for_list0 params_loop].
  - reflexivity.
  - rewrite Hf. destruct (values_loop (mkD s w r g t) p) as [d1|]; [|reflexivity].
    fold (after_param d1). destruct (after_param d1) as [s1 w1 r1 g1 t1].
    cbn [dtup d_style d_state d_r d_g d_target]. apply IH.
Qed.

(* one `if` of the translated chain at a time: both sides test the same condition *)
Ltac chain_step :=
  match goal with
  | |- (if ?c then _ else _) = _ => destruct c eqn:?
  end.

Ltac leaf :=
  cbn [step_res dtup d_style d_state d_r d_g d_target set_d];
  first
    [ reflexivity
    | match goal with
      | |- context [csub ?a ?b] => destruct (csub a b); [|reflexivity]
      end;
      first [ apply ansi_plain; intros; reflexivity | apply ansi_bright; intros; reflexivity ] ].

Lemma g_cap_csi_dispatch_eq cap ps ints ign a :
  g_cap_csi_dispatch cap ps ints ign a = capture_event cap (ECsi ps ints ign a).
Proof.
  unfold g_cap_csi_dispatch, capture_event.
  destruct ign; [reflexivity|]. destruct (negb (a =? 109)); [reflexivity|].
  unfold is_empty at 1. destruct ints; cbn [negb]; [|reflexivity].
  cbv zeta. unfold sgr_dispatch.
  match goal with |- context [for_list0 ?F ps ?i] => rewrite (params_loop_for F) end.
  - destruct (params_loop (mkD (c_style cap) WNormal None None TFg) ps) as [[s1 w1 r1 g1 t1]|]; cbn [option_map dtup d_style]; [|reflexivity].
    destruct cap as [cs cp cr]. unfold set_c_ready, set_c_style, is_empty. cbn [c_style c_printable c_ready].
    destruct (negb (style_eqb s1 cs) && negb match cp with [] => true | _ :: _ => false end); reflexivity.
  - (* the body of the outer loop *)
    intros p s w r g t. cbv beta iota.
    match goal with |- context [for_list0 ?G p ?i] => rewrite (values_loop_for G) end.
    + destruct (values_loop (mkD s w r g t) p) as [[s1 w1 r1 g1 t1]|]; cbn [option_map dtup d_style d_state d_r d_g d_target]; [|reflexivity].
      unfold after_param. destruct w1; reflexivity.
    + (* the body of the inner loop: `match (state, *value)` *)
      clear. intros v s w r g t. cbv beta iota zeta.
      unfold value_step, in_rng. cbn [d_style d_state d_r d_g d_target].
      destruct w; cbn [wstate_eqb andb].
      * repeat (chain_step; [solve [leaf]|]). Show. 
Abort.
