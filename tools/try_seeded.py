#!/usr/bin/env python3
"""tools/try_seeded.py <mutation dir> <seed id> [<property id> ...]

Confirms a seeded change (patch.diff + demonstration + meta.json produced by an
independent sub-agent in a scratch worktree) and runs the registered checks
against it:
  1. fresh scratch worktree of /repo: apply the patch, build, run the existing
     test suite (must pass), run the demonstration (must fail); revert the patch,
     run the demonstration again (must pass);
  2. apply the patch to /repo itself, run ./check <property> for each property
     given (default: the one in meta.json), undo the patch straight afterwards;
  3. store everything under /verif/seeded/<seed id>/.
Nothing is ever committed to /repo."""
import json
import os
import shutil
import subprocess
import sys
import time

VERIF = os.path.dirname(os.path.dirname(os.path.abspath(__file__)))
REPO = "/repo"


def cp(src, dst):
    """copy a file or a directory tree (a demonstration may be a small crate)"""
    if os.path.isdir(src):
        shutil.copytree(src, dst if not os.path.isdir(dst) else os.path.join(dst, os.path.basename(src)), dirs_exist_ok=True,
                        ignore=shutil.ignore_patterns("target"))
    else:
        shutil.copy(src, dst)


def sh(cmd, cwd=None, timeout=3600):
    p = subprocess.run(cmd, cwd=cwd, shell=True, stdout=subprocess.PIPE, stderr=subprocess.STDOUT, timeout=timeout,
                       env=dict(os.environ, CARGO_NET_OFFLINE="true"))
    return p.returncode, p.stdout.decode("utf-8", "replace")


def check_isolated(checks, props, patch, sid, key_broken=False):
    """Same as check_in_place without touching the shared /repo (other work may be reading it): a private mount
    namespace in which a patched copy of the repository is bind-mounted over /repo, and a private copy of
    /verif (or of $SEED_VSRC, an older state of it) with its build caches to run the checks in."""
    rcopy = "/tmp/seedrepo_%s_%d" % (sid, os.getpid())
    vsrc = os.environ.get("SEED_VSRC", VERIF)
    vcopy = os.environ.get("SEED_VCOPY", "/tmp/vseed")
    sh("rm -rf %s && mkdir -p %s && rsync -a --exclude target %s/ %s/" % (rcopy, rcopy, REPO, rcopy))
    rc, o = sh("git apply %s" % patch, cwd=rcopy)
    assert rc == 0, o
    sh("mkdir -p %s && rsync -a --delete --exclude replays %s/ %s/ && mkdir -p %s/replays" % (vcopy, vsrc, vcopy, vcopy))
    try:
        for pid in props:
            t0 = time.time()
            rc, o = sh("unshare --mount sh -c 'mount --bind %s /repo && cd %s && ./check %s --tier quick'" % (rcopy, vcopy, pid), timeout=3600)
            viol = [l for l in o.split("\n") if l.startswith("VIOLATION")]
            checks[pid] = {"exit": rc, "violation_lines": viol, "tail": o[-700:], "wall_s": round(time.time() - t0, 1),
                           "detected": rc == 1 and bool(viol), "with_failing_input": bool(viol) and "no-failing-input-found" not in viol[0],
                           "broken": [l.strip() for l in o.split("\n") if l.strip().startswith("broken:")],
                           "how": "patched copy of /repo bind-mounted over /repo in a private mount namespace; checks run in a copy of /verif"
                                  + (" as of " + sh("git -C %s rev-parse --short HEAD" % vsrc)[1].strip() if vsrc != VERIF else "")}
            for l in viol:
                rel = l.split("replay=")[1].split()[0]
                src = os.path.join(vcopy, rel)
                if os.path.exists(src):
                    d = os.path.join(VERIF, "seeded", sid)
                    os.makedirs(d, exist_ok=True)
                    shutil.copy(src, os.path.join(d, "replay_%s.json" % pid))
                    os.remove(src)
    finally:
        sh("rm -rf %s" % rcopy)


def check_in_place(out, props, patch, sid):
    # checks against /repo itself
    rc, o = sh("git -C %s status --porcelain" % REPO)
    assert o.strip() == "", "/repo is not clean: " + o
    rc, o = sh("git -C %s apply %s" % (REPO, patch))
    try:
        for pid in props:
            t0 = time.time()
            rc, o = sh("./check %s --tier quick" % pid, cwd=VERIF, timeout=3600)
            viol = [l for l in o.split("\n") if l.startswith("VIOLATION")]
            out["checks"][pid] = {"exit": rc, "violation_lines": viol, "tail": o[-700:], "wall_s": round(time.time() - t0, 1),
                                  "detected": rc == 1 and bool(viol), "with_failing_input": bool(viol) and "no-failing-input-found" not in viol[0]}
            for l in viol:
                rel = l.split("replay=")[1].split()[0]
                src = os.path.join(VERIF, rel)
                if os.path.exists(src):
                    d = os.path.join(VERIF, "seeded", sid)
                    os.makedirs(d, exist_ok=True)
                    shutil.copy(src, os.path.join(d, "replay_%s.json" % pid))
                    os.remove(src)
    finally:
        sh("git -C %s checkout -- ." % REPO)
    rc, o = sh("git -C %s status --porcelain" % REPO)
    assert o.strip() == "", "/repo not restored: " + o


def main():
    mdir, sid = sys.argv[1], sys.argv[2]
    meta = json.load(open(os.path.join(mdir, "meta.json")))
    props = sys.argv[3:] or [meta["property"]]
    patch = os.path.join(mdir, "patch.diff")
    out = {"seed_id": sid, "meta": meta, "confirmation": {}, "checks": {}}
    wt = "/tmp/confirm_%s_%d" % (sid, os.getpid())
    sh("git -C %s worktree remove --force %s" % (REPO, wt))
    rc, o = sh("git -C %s worktree add -q --detach %s HEAD" % (REPO, wt))
    assert rc == 0, o
    try:
        # demonstration files: everything in the mutation dir except patch/meta/TASK
        demos = [f for f in os.listdir(mdir) if f not in ("patch.diff", "meta.json", "TASK.txt")]
        demo_cmd = meta.get("demo_cmd", "").replace(os.environ.get("SEED_WT", "/tmp/mut_%s" % meta["property"]), wt)
        # place demo files where the agent had them: look them up in its worktree
        src_wt = os.environ.get("SEED_WT", "/tmp/mut_%s" % meta["property"])
        rc, o = sh("git apply %s" % patch, cwd=wt)
        out["confirmation"]["patch_applies"] = rc == 0
        rc, o = sh("cargo test --offline --workspace --no-fail-fast 2>&1 | grep -E 'test result|FAILED|^error' | sort | uniq -c", cwd=wt)
        suite_ok = "FAILED" not in o and "error" not in o and "test result: ok" in o
        out["confirmation"]["suite_passes_with_patch"] = suite_ok
        out["confirmation"]["suite_summary"] = o[-600:]
        placed = []
        for f in demos:
            rc, o = sh("cd %s && git ls-files --others --exclude-standard | grep -F '%s' | head -1" % (src_wt, f))
            rel = o.strip().split("\n")[0] if o.strip() else None
            if rel and os.path.isdir(os.path.join(mdir, f)):
                rel = rel[:rel.index(f) + len(f)]       # the directory itself, not a file inside it
            if rel:
                os.makedirs(os.path.dirname(os.path.join(wt, rel)), exist_ok=True)
                cp(os.path.join(mdir, f), os.path.join(wt, rel))
                placed.append(rel)
        out["confirmation"]["demo_files"] = placed
        rc1, o1 = sh(demo_cmd, cwd=wt)
        out["confirmation"]["demo_fails_with_patch"] = rc1 != 0
        sh("git apply -R %s" % patch, cwd=wt)
        rc2, o2 = sh(demo_cmd, cwd=wt)
        out["confirmation"]["demo_passes_without_patch"] = rc2 == 0
        out["confirmation"]["demo_output_with_patch"] = o1[-800:]
    finally:
        sh("git -C %s worktree remove --force %s" % (REPO, wt))
    confirmed = all(out["confirmation"].get(k) for k in ("patch_applies", "suite_passes_with_patch", "demo_fails_with_patch", "demo_passes_without_patch"))
    out["confirmed"] = confirmed
    if os.environ.get("SEED_ISOLATED"):
        check_isolated(out["checks"], props, patch, sid)
    else:
        check_in_place(out, props, patch, sid)
    d = os.path.join(VERIF, "seeded", sid)
    os.makedirs(d, exist_ok=True)
    for f in os.listdir(mdir):
        if f != "TASK.txt":
            cp(os.path.join(mdir, f), os.path.join(d, f))
    meta2 = dict(meta)
    meta2["confirmed_by_me"] = out["confirmation"]
    meta2["confirmed"] = confirmed
    meta2["checks_run"] = out["checks"]
    json.dump(meta2, open(os.path.join(d, "meta.json"), "w"), indent=1)
    print(json.dumps({"seed": sid, "confirmed": confirmed, "confirmation": {k: v for k, v in out["confirmation"].items() if isinstance(v, bool)},
                      "checks": {p: {k: c[k] for k in ("exit", "detected", "with_failing_input", "wall_s")} for p, c in out["checks"].items()}}, indent=1))
    # restore evidence files of the checks (they were rewritten by a run on a mutated tree)
    if not os.environ.get("SEED_ISOLATED"):
        sh("git checkout -- evidence", cwd=VERIF)


if __name__ == "__main__":
    main()
