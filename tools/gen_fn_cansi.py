#!/usr/bin/env python3
"""Function translator, third-party crate cansi (dependency of crates/anstyle-roff):
~/.cargo/registry/src/*/cansi-<version pinned by /repo/Cargo.lock>/src/{parsing.rs,categorise.rs,lib.rs}
-> coq/Generated/CansiFn.v (C15).

TRANSLATED (tools/rs2v) into Gallina over the types of the hand model (Model/Roff.v: `rf_sgr`, `rf_cat`,
`rf_match`; a &str is its UTF-8 bytes, a cansi::Color / cansi::Intensity its declaration number):
  parsing.rs     CSI (const), terminated_byte, parse (the escape finder: both nested `while` loops)
  lib.rs         v3::CategorisedSlice::with_sgr
  categorise.rs  SEPARATOR (const), adjust_sgr (all 48 arms + the wildcard), handle_seq, categorise_text_v3
                 (= cansi::v3::categorise_text, what anstyle-roff calls)
Proofs/CansiGen.v proves `g_cansi_categorise_text text = Some (rf_categorise text)` (for UTF-8 text): the hand model
the theorems of C15 are about.  The source is located by tools/thirdparty.py (version from Cargo.lock, registry
directory of exactly that version, compared with what cargo links into harness/h-roff).

Not translated: the deprecated v2 API (categorise_text, construct_text_no_codes, line_iter, the From impls) and
v3::{line_iter, construct_text_no_codes, clone_style}: anstyle-roff does not call them.  `struct SGR`, `struct Match`,
`struct v3::CategorisedSlice`, `enum Color`, `enum Intensity` are checked field by field / variant by variant.
What the functions CALL is vocabulary (std): str::{len, starts_with(&str), as_bytes, chars().next(), split(char)},
char::len_utf8, &str[a..b], Vec::{with_capacity, push, len}, RangeInclusive::contains, Iterator::fold,
Option::expect, SGR::default() (derive(Default) on a struct of Options)."""
import os
import re
import sys

sys.path.insert(0, os.path.dirname(os.path.abspath(__file__)))
from rs2v.driver import translate, TranslateError, check_struct   # noqa: E402
from rs2v.emit import EmitError, Emitter, UNKNOWN                      # noqa: E402
from rs2v.rparser import parse_file, find_items, ParseError, type_name   # noqa: E402
from rs2v.lexer import LexError   # noqa: E402
import thirdparty                 # noqa: E402

U8, USZ, BOOL = ("int", "u8"), ("int", "usize"), ("bool",)
BYTES = ("list", U8)
STR, SGR, MATCH, CAT = ("struct", "Str"), ("struct", "SGR"), ("struct", "Match"), ("struct", "CategorisedSlice")
CHARS, CHAR, RANGE = ("struct", "Chars"), ("struct", "Char"), ("struct", "RangeInclusive")
CCOL, CINT = ("enum", "Color"), ("enum", "Intensity")

COLORS = ["Black", "Red", "Green", "Yellow", "Blue", "Magenta", "Cyan", "White",
          "BrightBlack", "BrightRed", "BrightGreen", "BrightYellow", "BrightBlue", "BrightMagenta", "BrightCyan", "BrightWhite"]
INTENSITY = ["Normal", "Bold", "Faint"]
OB = ("opt", BOOL)
SGR_FIELDS = [("fg", ("opt", CCOL)), ("bg", ("opt", CCOL)), ("intensity", ("opt", CINT)), ("italic", OB), ("underline", OB),
              ("blink", OB), ("reversed", OB), ("hidden", OB), ("strikethrough", OB)]


def shape(coq, self_mode, params, ret, total=True):
    return {"coq": coq, "self": self_mode, "params": params, "ret": ret, "total": total, "cfg": False}


def noargs(e, what):
    if e.args:
        raise EmitError("%s takes no argument" % what)


def m_pure(fmt, ty, what):
    def h(em, e, rt, rty, env, k):
        noargs(e, what)
        return k(fmt % rt, ty, env)
    return h


def f_const(term, ty, what):
    def h(em, e, env, k):
        if e.args:
            raise EmitError("%s takes no argument" % what)
        return k(term, ty, env)
    return h


def f_with_capacity(em, e, env, k):
    """Vec::with_capacity(n): the empty vector (n is evaluated: `matches.len() + 1`); the element type comes from the
    annotation of the `let` (local_types) or is fixed by the vocabulary"""
    if len(e.args) != 1:
        raise EmitError("Vec::with_capacity takes one argument")
    return em.expr(e.args[0], env, lambda _t, _ty, env1: k("[]", ("list", UNKNOWN), env1))


def m_starts_with(em, e, rt, rty, env, k):
    if len(e.args) != 1:
        raise EmitError("str::starts_with takes one argument")

    def k1(t, ty, env1):
        if ty != STR:
            raise EmitError("str::starts_with(%r): only a &str pattern is in the vocabulary" % (ty,))
        return k("(rf_starts_with %s %s)" % (rt, t), BOOL, env1)
    return em.expr(e.args[0], env, k1)


def m_split(em, e, rt, rty, env, k):
    """str::split(<char>): the separator must be a char constant / literal"""
    if len(e.args) != 1:
        raise EmitError("str::split takes one argument")

    def k1(t, ty, env1):
        if ty != ("int", "char"):
            raise EmitError("str::split(%r): only a char separator is in the vocabulary" % (ty,))
        return k("(rf_split %s %s)" % (t, rt), ("list", STR), env1)
    return em.expr(e.args[0], env, k1)


def m_fold(em, e, rt, rty, env, k):
    """Iterator::fold(init, <translated function of (accumulator, item)>)"""
    if len(e.args) != 2 or rty[0] != "list":
        raise EmitError("Iterator::fold(init, f) on a list")
    a = e.args[1]
    if a.kind != "path" or len(a.segs) != 1 or a.segs[0] not in em.fn_shapes:
        raise EmitError("Iterator::fold: the function is not a translated function")
    sh = em.fn_shapes[a.segs[0]]
    if sh.get("self") or [p[0] for p in sh["params"]] != ["in", "in"] or sh.get("cfg"):
        raise EmitError("Iterator::fold(%s): not a function of two by-value parameters" % a.segs[0])

    def k1(t, ty, env1):
        if ty != sh["params"][0][1] or ty != sh["ret"] or rty[1] != sh["params"][1][1]:
            raise EmitError("Iterator::fold(%r, %s) over %r" % (ty, sh["coq"], rty))
        if sh["total"]:
            return k("(fold_left %s %s %s)" % (sh["coq"], rt, t), ty, env1)
        return em.bind("rf_fold_m %s %s %s" % (sh["coq"], rt, t), ty, env1, k, hint="fd")
    return em.expr(e.args[0], env, k1)


def m_expect(em, e, rt, rty, env, k):
    if len(e.args) != 1 or e.args[0].kind != "str":
        raise EmitError("Option::expect(<literal>)")
    return em.bind(rt, rty[1], env, k, hint="ex")


def range_hook(em, e, env, k):
    """`(lo..=hi)` as a value (only `.contains` is in the vocabulary): the pair of its bounds"""
    if not e.incl or e.lo is None or e.hi is None:
        raise EmitError("range value other than lo..=hi")
    return em.exprs([e.lo, e.hi], env, lambda ts, tys, env1: k("(%s, %s)" % (ts[0], ts[1]), RANGE, env1))


def m_range_contains(em, e, rt, rty, env, k):
    if len(e.args) != 1:
        raise EmitError("RangeInclusive::contains takes one argument")
    return em.expr(e.args[0], env, lambda t, ty, env1: k("(rf_range_incl_contains %s %s)" % (rt, t), BOOL, env1))


def vocab(consts, area):
    nocheck = {"check": False, "fields": {}}
    v = {
        "reserved": ["k", "next", "rec_fuel", "len", "slice"],
        "no_transparent": ("as_bytes", "into"),
        "type_alias": {"str": STR, "CategorisedSlices": ("list", CAT)},
        "enums": {
            "Color": {"coq": "N", "eqb": "N.eqb", "native": False, "variants": {n: str(i) for i, n in enumerate(COLORS)}},
            "Intensity": {"coq": "N", "eqb": "N.eqb", "native": False, "variants": {n: str(i) for i, n in enumerate(INTENSITY)}},
        },
        "structs": {
            "Str": dict(nocheck, coq="(list N)", eqb="rf_eqb", index_range=("slice", STR)),
            "Chars": dict(nocheck, coq="(list N)"),
            "Char": dict(nocheck, coq="(list N)"),
            "RangeInclusive": dict(nocheck, coq="(N * N)"),
            "SGR": {"coq": "rf_sgr", "var": "sgr", "check": area == "lib",
                    "ctor": ("mkRfSgr", [f for f, _ in SGR_FIELDS]),
                    "fields": {f: ("cs_" + f, "set_cs_" + f, t) for f, t in SGR_FIELDS}},
            "Match": {"coq": "rf_match", "var": "m", "check": area == "par", "ctor": ("mkRfMatch", ["start", "end", "text"]),
                      "fields": {"start": ("rfm_start", None, USZ), "end": ("rfm_end", None, USZ), "text": ("rfm_text", None, STR)}},
            "CategorisedSlice": {"coq": "rf_cat", "var": "c", "check": False,
                                 "ctor": ("rf_cslice_mk", ["text", "start", "end"] + [f for f, _ in SGR_FIELDS]),
                                 "fields": dict({"text": ("rf_cslice_text", None, STR), "start": (None, None, USZ), "end": (None, None, USZ)},
                                                **{f: ("rf_cslice_" + f, None, t) for f, t in SGR_FIELDS})},
        },
        "consts": consts,
        "fns": {
            "SGR::default": f_const("rf_sgr_default", SGR, "SGR::default"),
            "Vec::with_capacity": f_with_capacity,
        },
        "methods": {
            ("Str", "len"): m_pure("(len %s)", USZ, "str::len"),
            ("Str", "as_bytes"): m_pure("%s", BYTES, "str::as_bytes"),
            ("Str", "starts_with"): m_starts_with,
            ("Str", "chars"): m_pure("%s", CHARS, "str::chars"),
            ("Chars", "next"): m_pure("(rf_chars_next %s)", ("opt", CHAR), "Chars::next"),
            ("Char", "len_utf8"): m_pure("(rf_char_len_utf8 %s)", USZ, "char::len_utf8"),
            ("opt", "expect"): m_expect,
            ("Str", "split"): m_split,
            ("list", "fold"): m_fold,
            ("RangeInclusive", "contains"): m_range_contains,
        },
        "range_hook": range_hook,
        "local_types": {"parse": {"v": ("list", MATCH)}},
        # both loops of parse: every iteration of the outer loop moves `start` forward, every iteration of the inner
        # one moves `end` forward, neither beyond the text (+ the iteration that leaves)
        "fuel": {"parse": ["(S (S (length text1)))"] + ["(S (length text1))"] * 3},
        "opaque": {},
    }
    return v


HEADER = ("(* GENERATED by tools/gen_fn_cansi.py (tools/rs2v) from the cargo registry source of cansi %s\n"
          "   (src/parsing.rs, src/lib.rs, src/categorise.rs; version pinned by Cargo.lock) -- do not edit *)")
REQ = """From Coq Require Import NArith List Bool.
From AV Require Import Generated.Style Model.Style Generated.Palette Spec.Lossy Model.Lossy Generated.Roff Model.Roff Model.Base Model.Imp.
Import ListNotations.
Local Open Scope N_scope.
Local Open Scope bool_scope."""


def check_enum(items, name, expected):
    ens = find_items(items, "enum", name)
    if len(ens) != 1:
        raise TranslateError("enum %s: %d definitions" % (name, len(ens)))
    got = []
    for vname, payload, disc, _attrs in ens[0].variants:
        if payload or disc is not None:
            raise TranslateError("enum %s::%s: payload / explicit discriminant" % (name, vname))
        got.append(vname)
    if got != expected:
        raise TranslateError("enum %s: variants %r, the vocabulary (and the hand model's numbering) has %r" % (name, got, expected))


def squash(s):
    return re.sub(r"\s+", "", s)


def const_item(items, name, kind):
    cs = find_items(items, "const", name)
    if len(cs) != 1:
        raise TranslateError("const %s: %d definitions" % (name, len(cs)))
    c = cs[0]
    if c.val.kind != kind:
        raise TranslateError("const %s: not a %s literal" % (name, kind))
    return c


def register(generators, gm):
    def parse(rel, src):
        try:
            return parse_file(src)
        except (ParseError, LexError) as e:
            raise TranslateError("cansi %s: parse error: %s" % (rel, e))

    def gen():
        try:
            version, _d = thirdparty.crate_dir(gm, "cansi")
            par = thirdparty.read_crate(gm, "cansi", "src/parsing.rs")
            cat = thirdparty.read_crate(gm, "cansi", "src/categorise.rs")
            lib = thirdparty.read_crate(gm, "cansi", "src/lib.rs")
            litems, pitems, citems = parse("src/lib.rs", lib), parse("src/parsing.rs", par), parse("src/categorise.rs", cat)
            # the data types
            check_enum(litems, "Color", COLORS)
            check_enum(litems, "Intensity", INTENSITY)
            sgr = find_items(litems, "struct", "SGR")
            if len(sgr) != 1 or "Default" not in " ".join(str(a) for a in (sgr[0].attrs or [])):
                raise TranslateError("lib.rs: struct SGR no longer derives Default (SGR::default() is modelled as all-None)")
            v3 = [m for m in find_items(litems, "mod", "v3")]
            if len(v3) != 1:
                raise TranslateError("lib.rs: mod v3: %d definitions" % len(v3))
            em0 = Emitter(vocab({}, "none"), litems)
            check_struct(v3[0].items, "CategorisedSlice", vocab({}, "none")["structs"]["CategorisedSlice"]["fields"], em0)
            # which names are which: the `use` lines / re-exports the parser skips
            lq, cq = squash(gm.strip_comments(lib)), squash(gm.strip_comments(cat))
            for need, where, q in (("pubuseparsing::{parse,Match};", "lib.rs", lq),
                                   ("pubusesuper::categorise::categorise_text_v3ascategorise_text;", "lib.rs", lq),
                                   ("usesuper::{split_on_new_line,SGR};", "lib.rs", lq),
                                   ("pubusecrate::{Color,Intensity};", "lib.rs", lq),
                                   ("usesuper::*;", "categorise.rs", cq)):
                if need not in q:
                    raise TranslateError("cansi %s: `%s` not found (the vocabulary depends on it)" % (where, need))
            # constants
            csi = const_item(pitems, "CSI", "str")
            sep = const_item(citems, "SEPARATOR", "charlit")
            if any(b >= 128 for b in csi.val.val):
                raise TranslateError("const CSI: non-ASCII literal")
            consts = {"CSI": ("g_cansi_CSI", STR), "SEPARATOR": ("g_cansi_SEPARATOR", ("int", "char"))}
            shapes = {}
            out = [translate(par, vocab(consts, "par"), [
                ("terminated_byte", None, "g_cansi_terminated_byte", {}),
                ("parse", None, "g_cansi_parse", {}),
            ], HEADER % version, REQ + "\n\n(* parsing.rs: const CSI *)\nDefinition g_cansi_CSI : list N := [%s].\n"
                "(* categorise.rs: const SEPARATOR *)\nDefinition g_cansi_SEPARATOR : N := %d." % ("; ".join(str(b) for b in csi.val.val), sep.val.val), shapes)]
            out.append(translate(lib, vocab(consts, "lib"), [
                ("with_sgr", "CategorisedSlice", "g_cansi_with_sgr", {}),
            ], "", "", shapes))
            shapes["v3::CategorisedSlice::with_sgr"] = shapes["CategorisedSlice::with_sgr"]
            out.append(translate(cat, vocab(consts, "cat"), [
                ("adjust_sgr", None, "g_cansi_adjust_sgr", {}),
                ("handle_seq", None, "g_cansi_handle_seq", {}),
                ("categorise_text_v3", None, "g_cansi_categorise_text", {}),
            ], "", "", shapes))
            return "\n".join(out) + "\n"
        except TranslateError as e:
            raise gm.GenError(str(e))
        except KeyError as e:
            raise gm.GenError("function not found: %s" % e)
    generators["CansiFn"] = gen
