"""A small `macro_rules!` expander (token level) for the function translators.

Third-party crates generate whole impls from a table with a declarative macro (owo-colors: `colors!`,
`xterm_colors!`, `style_flags_methods!`, `style_methods!`, `impl_fmt!`, the local `text_effect_fmt!`).
`expand(src, names)` returns the source text in which every INVOCATION of the macros named is replaced by its
expansion (the definitions stay where they are: the parser skips `macro_rules!` items; a definition inside a
function body is removed, the parser has no statement form for it).  The result is what rustc would compile,
for the subset:

  * one rule per macro (`(matcher) => {transcriber}`), anything else is an ExpandError;
  * fragment kinds ident, literal, path, ty (a path), tt, expr (ONE token or a path: enough for tables), meta;
  * repetitions `$( .. ) sep? (*|+|?)`, nested, with variables of outer depth usable inside;
  * hygiene is not modelled: the macros named must not introduce bindings that could capture (checked by the
    translation being type-correct Gallina and by the equality proofs; rustc's hygiene only renames);
  * the lexer drops comments, doc comments included, and yields `#[..]` as ONE token: a matcher token `#[$x:meta]`
    therefore matches ZERO OR MORE attribute tokens of the input, a transcriber token `#[$x]` expands to nothing
    (attributes that are doc comments / lints; a `#[cfg]` smuggled through a macro argument would be lost --
    ExpandError when an attribute token of the input that is consumed this way starts with `#[cfg`).

Expansion is repeated until no invocation of a named macro is left (a macro may expand to invocations of
others), at most 8 rounds."""
from .lexer import tokenize, Tok


class ExpandError(Exception):
    pass


OPEN = {"(": ")", "[": "]", "{": "}"}


def _group_end(toks, i):
    """toks[i] opens a group: index of the matching closer"""
    depth = 0
    j = i
    while j < len(toks):
        t = toks[j]
        if t.kind == "punct" and t.text in OPEN:
            depth += 1
        elif t.kind == "punct" and t.text in (")", "]", "}"):
            depth -= 1
            if depth == 0:
                return j
        j += 1
    raise ExpandError("unbalanced group at token %d (%s)" % (i, toks[i].text))


def _is(t, text):
    return t.kind == "punct" and t.text == text


# --------------------------------------------------------------------------- matcher / transcriber trees

def _parse_pattern(toks, matcher):
    """token list -> tree: ("tok", Tok) | ("var", name, frag) | ("rep", subtree, sep Tok|None, op) | ("group", open, subtree, close)
    | ("attrvar",) ; in a transcriber ("var", name, None)"""
    out = []
    i = 0
    n = len(toks)
    while i < n:
        t = toks[i]
        if t.kind == "attr" and "$" in t.text:
            out.append(("attrvar",))
            i += 1
            continue
        if _is(t, "$") and _MULTI and (i + 1 >= n or not (toks[i + 1].kind == "ident" or _is(toks[i + 1], "("))):
            out.append(("tok", t))      # a literal `$` (the argument of a `$dollar:tt` parameter)
            i += 1
            continue
        if _is(t, "$"):
            nx = toks[i + 1]
            if _is(nx, "("):
                j = _group_end(toks, i + 1)
                sub = _parse_pattern(toks[i + 2:j], matcher)
                k = j + 1
                sep = None
                if k < n and not (toks[k].kind == "punct" and toks[k].text in ("*", "+", "?")):
                    sep = toks[k]
                    k += 1
                if k >= n or not (toks[k].kind == "punct" and toks[k].text in ("*", "+", "?")):
                    raise ExpandError("repetition without * + ?")
                out.append(("rep", sub, sep, toks[k].text))
                i = k + 1
                continue
            if nx.kind != "ident":
                raise ExpandError("`$` followed by %r" % nx.text)
            if matcher:
                if not _is(toks[i + 2], ":") or toks[i + 3].kind != "ident":
                    raise ExpandError("matcher variable $%s without fragment kind" % nx.text)
                out.append(("var", nx.text, toks[i + 3].text))
                i += 4
            else:
                out.append(("var", nx.text, None))
                i += 2
            continue
        if t.kind == "punct" and t.text in OPEN:
            j = _group_end(toks, i)
            out.append(("group", t, _parse_pattern(toks[i + 1:j], matcher), toks[j]))
            i = j + 1
            continue
        out.append(("tok", t))
        i += 1
    return out


_MULTI = False      # set while expand_multi runs (several rules per macro, expr fragments of several tokens)


def _match_frag(frag, toks, i):
    """tokens of one fragment starting at toks[i] -> end index, or None"""
    n = len(toks)
    if i >= n:
        return None
    t = toks[i]
    if frag == "ident":
        return i + 1 if t.kind == "ident" else None
    if frag == "literal":
        return i + 1 if t.kind in ("int", "str", "char", "byte", "bstr", "float") else None
    if frag == "expr" and _MULTI:
        # expand_multi: an expression is every token up to a `,` `;` `=>` outside groups (rustc's follow set of expr)
        j = i
        while j < n and not (toks[j].kind == "punct" and toks[j].text in (",", ";", "=>")):
            if toks[j].kind == "punct" and toks[j].text in (")", "]", "}"):
                break
            j = _group_end(toks, j) + 1 if toks[j].kind == "punct" and toks[j].text in OPEN else j + 1
        return j if j > i else None
    if frag in ("path", "ty", "expr"):
        if frag == "expr" and t.kind in ("int", "str", "char", "byte", "bstr"):
            return i + 1
        if t.kind != "ident":
            return None
        j = i + 1
        while j + 1 < n and _is(toks[j], "::") and toks[j + 1].kind == "ident":
            j += 2
        if frag == "ty" and _MULTI and j < n and _is(toks[j], "<"):
            # expand_multi: generic arguments of a type path (`std::io::StdinLock<'_>`)
            depth = 0
            while j < n:
                if toks[j].kind == "punct" and toks[j].text in ("<", ">", ">>"):
                    depth += {"<": 1, ">": -1, ">>": -2}[toks[j].text]
                    if depth <= 0:
                        return j + 1 if depth == 0 else None
                j += 1
            return None
        return j
    if frag == "tt":
        if t.kind == "punct" and t.text in OPEN:
            return _group_end(toks, i) + 1
        return i + 1
    raise ExpandError("fragment kind `%s` is not supported" % frag)


def _match(pat, toks, i, binds):
    """match the pattern list against toks[i:], greedy without backtracking; returns the index reached or None"""
    for pi, p in enumerate(pat):
        kind = p[0]
        if kind == "tok":
            if i < len(toks) and toks[i].kind == p[1].kind and toks[i].text == p[1].text:
                i += 1
            else:
                return None
        elif kind == "attrvar":
            while i < len(toks) and toks[i].kind == "attr":
                if toks[i].text.replace(" ", "").startswith("#[cfg"):
                    raise ExpandError("a #[cfg] attribute handed to a macro as $x:meta")
                i += 1
        elif kind == "var":
            j = _match_frag(p[2], toks, i)
            if j is None:
                return None
            binds[p[1]] = toks[i:j]
            i = j
        elif kind == "group":
            if i >= len(toks) or not _is(toks[i], p[1].text):
                return None
            j = _group_end(toks, i)
            inner = toks[i + 1:j]
            r = _match(p[2], inner, 0, binds)
            if r is None or r != len(inner):
                return None
            i = j + 1
        elif kind == "rep":
            sub, sep, op = p[1], p[2], p[3]
            reps = []
            count = 0
            while True:
                if op == "?" and count == 1:
                    break
                save = i
                if count > 0 and sep is not None:
                    if i < len(toks) and toks[i].kind == sep.kind and toks[i].text == sep.text:
                        i += 1
                    else:
                        break
                b = {}
                try:
                    j = _match(sub, toks, i, b)
                except ExpandError:
                    raise
                if j is None or (j == i and not sub):
                    i = save
                    break
                if j == i:
                    i = save
                    break
                reps.append(b)
                i = j
                count += 1
            if op == "+" and count == 0:
                return None
            for name in _vars(sub):
                binds[name] = ("rep", [b.get(name) for b in reps])
            binds.setdefault("$reps", []).append((id(p), len(reps)))
    return i


def _vars(pat):
    out = []
    for p in pat:
        if p[0] == "var":
            out.append(p[1])
        elif p[0] == "rep":
            out.extend(_vars(p[1]))
        elif p[0] == "group":
            out.extend(_vars(p[2]))
    return out


def _transcribe(pat, binds, out):
    for p in pat:
        kind = p[0]
        if kind == "tok":
            out.append(p[1])
        elif kind == "attrvar":
            continue
        elif kind == "var":
            v = binds.get(p[1])
            if v is None:
                raise ExpandError("transcriber: unbound $%s" % p[1])
            if isinstance(v, tuple):
                raise ExpandError("transcriber: $%s used at the wrong repetition depth" % p[1])
            out.extend(v)
        elif kind == "group":
            out.append(p[1])
            _transcribe(p[2], binds, out)
            out.append(p[3])
        elif kind == "rep":
            names = [x for x in _vars(p[1]) if isinstance(binds.get(x), tuple)]
            if not names and _MULTI and p[1] and all(q[0] == "attrvar" for q in p[1]):
                continue      # `$(#[$attr])*`: attributes (doc comments, lints) are dropped, as for a bare `#[$attr]`
            if not names:
                raise ExpandError("transcriber: a repetition without a repeated variable")
            lens = set(len(binds[x][1]) for x in names)
            if len(lens) != 1:
                raise ExpandError("transcriber: repeated variables of different lengths")
            for k in range(lens.pop()):
                b = dict(binds)
                for x in names:
                    b[x] = binds[x][1][k]
                if k > 0 and p[2] is not None:
                    out.append(p[2])
                _transcribe(p[1], b, out)


# --------------------------------------------------------------------------- definitions / invocations

def _definitions(toks, names):
    """{name: (matcher tree, transcriber tree)}, and the token spans of definitions (start, end)"""
    defs = {}
    spans = []
    i = 0
    while i + 3 < len(toks):
        if toks[i].kind == "ident" and toks[i].text == "macro_rules" and _is(toks[i + 1], "!") and toks[i + 2].kind == "ident":
            name = toks[i + 2].text
            j = _group_end(toks, i + 3)
            end = j + 1
            if end < len(toks) and _is(toks[end], ";"):
                end += 1
            spans.append((i, end, name))
            if name in names:
                body = toks[i + 4:j]
                if not body or not (body[0].kind == "punct" and body[0].text in OPEN):
                    raise ExpandError("macro %s: no matcher" % name)
                m_end = _group_end(body, 0)
                if not _is(body[m_end + 1], "=>"):
                    raise ExpandError("macro %s: `=>` expected" % name)
                t_open = m_end + 2
                t_end = _group_end(body, t_open)
                rest = body[t_end + 1:]
                if rest and not (len(rest) == 1 and _is(rest[0], ";")):
                    raise ExpandError("macro %s: more than one rule" % name)
                if name in defs:
                    raise ExpandError("macro %s: defined twice" % name)
                defs[name] = (_parse_pattern(body[1:m_end], True), _parse_pattern(body[t_open + 1:t_end], False))
            i = end
            continue
        i += 1
    return defs, spans


def _expand_once(toks, defs, spans):
    out = []
    changed = False
    in_def = [False] * len(toks)
    for a, b, _n in spans:
        for k in range(a, b):
            in_def[k] = True
    i = 0
    n = len(toks)
    while i < n:
        t = toks[i]
        if (not in_def[i] and t.kind == "ident" and t.text in defs and i + 2 < n and _is(toks[i + 1], "!")
                and toks[i + 2].kind == "punct" and toks[i + 2].text in OPEN
                and not (i >= 2 and _is(toks[i - 1], "!") and toks[i - 2].text == "macro_rules")):
            j = _group_end(toks, i + 2)
            args = toks[i + 3:j]
            matcher, transcriber = defs[t.text]
            binds = {}
            r = _match(matcher, args, 0, binds)
            if r is None or r != len(args):
                raise ExpandError("macro %s: the invocation does not match the rule (stopped at argument token %s of %d)"
                                  % (t.text, r, len(args)))
            binds.pop("$reps", None)
            _transcribe(transcriber, binds, out)
            i = j + 1
            if i < n and _is(toks[i], ";"):
                i += 1      # `name!(..);` / `name! {..};`: the expansions used here are items / statement blocks
            changed = True
            continue
        out.append(t)
        i += 1
    return out, changed


def _render(toks, drop_local_defs):
    """token texts joined by blanks, a line break after ; { }"""
    parts = []
    for t in toks:
        if t.kind == "eof":
            continue
        parts.append(t.text)
        if t.kind == "punct" and t.text in (";", "{", "}"):
            parts.append("\n")
        else:
            parts.append(" ")
    return "".join(parts)


def expand(src, names, drop_defs_in_bodies=True):
    """source text with every invocation of the macros `names` expanded"""
    names = set(names)
    toks = [t for t in tokenize(src) if t.kind != "eof"]
    defs, spans = _definitions(toks, names)
    missing = names - set(defs)
    if missing:
        raise ExpandError("macro_rules! %s: no definition in this file" % ", ".join(sorted(missing)))
    for _round in range(8):
        toks, changed = _expand_once(toks, defs, spans)
        if not changed:
            break
        _d, spans = _definitions(toks, set())
    else:
        raise ExpandError("macro expansion does not terminate")
    # remove the definitions of the expanded macros (the parser skips macro_rules ITEMS, but has no statement form)
    _d, spans = _definitions(toks, set())
    keep = [True] * len(toks)
    for a, b, n in spans:
        if n in names:
            for k in range(a, b):
                keep[k] = False
    toks = [t for t, k in zip(toks, keep) if k]
    return _render(toks, drop_defs_in_bodies)


# --------------------------------------------------------------------------- several rules per macro, macros that define macros

def _definitions_multi(toks, names):
    """{name: [(matcher tree, transcriber tree), ..]} (the rules in source order), and the token spans of all definitions"""
    defs = {}
    spans = []
    i = 0
    while i + 3 < len(toks):
        if toks[i].kind == "ident" and toks[i].text == "macro_rules" and _is(toks[i + 1], "!") and toks[i + 2].kind == "ident":
            name = toks[i + 2].text
            j = _group_end(toks, i + 3)
            end = j + 1
            if end < len(toks) and _is(toks[end], ";"):
                end += 1
            spans.append((i, end, name))
            if name in names:
                if name in defs:
                    raise ExpandError("macro %s: defined twice" % name)
                body = toks[i + 4:j]
                rules = []
                b = 0
                while b < len(body):
                    if not (body[b].kind == "punct" and body[b].text in OPEN):
                        raise ExpandError("macro %s: no matcher" % name)
                    m_end = _group_end(body, b)
                    if m_end + 2 >= len(body) or not _is(body[m_end + 1], "=>"):
                        raise ExpandError("macro %s: `=>` expected" % name)
                    t_open = m_end + 2
                    t_end = _group_end(body, t_open)
                    rules.append((_parse_pattern(body[b + 1:m_end], True), _parse_pattern(body[t_open + 1:t_end], False)))
                    b = t_end + 1
                    if b < len(body):
                        if not _is(body[b], ";"):
                            raise ExpandError("macro %s: `;` expected between rules" % name)
                        b += 1
                if not rules:
                    raise ExpandError("macro %s: no rule" % name)
                defs[name] = rules
            i = end
            continue
        i += 1
    return defs, spans


def _expand_once_multi(toks, defs, spans):
    out = []
    changed = False
    in_def = [False] * len(toks)
    for a, b, _n in spans:
        for k in range(a, b):
            in_def[k] = True
    i = 0
    n = len(toks)
    while i < n:
        t = toks[i]
        if (not in_def[i] and t.kind == "ident" and t.text in defs and i + 2 < n and _is(toks[i + 1], "!")
                and toks[i + 2].kind == "punct" and toks[i + 2].text in OPEN):
            j = _group_end(toks, i + 2)
            args = toks[i + 3:j]
            for matcher, transcriber in defs[t.text]:       # the first rule that matches, as rustc
                binds = {}
                r = _match(matcher, args, 0, binds)
                if r is not None and r == len(args):
                    binds.pop("$reps", None)
                    _transcribe(transcriber, binds, out)
                    break
            else:
                raise ExpandError("macro %s: no rule matches the invocation `%s`" % (t.text, " ".join(x.text for x in args[:12])))
            i = j + 1
            if i < n and _is(toks[i], ";"):
                i += 1
            changed = True
            continue
        out.append(t)
        i += 1
    return out, changed


def expand_multi(src, names):
    """like expand, for macros with SEVERAL rules (the first rule that matches is taken, as rustc does), `expr` fragments
    of several tokens, and macros whose expansion DEFINES a macro named in `names` (html-escape: `escape_impl!` defines
    `escape_text!` through the `$dollar:tt` idiom): the definitions are collected again after every round.  A name that
    has no definition when the expansion is over is an ExpandError."""
    global _MULTI
    names = set(names)
    toks = [t for t in tokenize(src) if t.kind != "eof"]
    seen = set()
    _MULTI = True
    try:
        for _round in range(8):
            defs, spans = _definitions_multi(toks, names)
            seen |= set(defs)
            toks, changed = _expand_once_multi(toks, defs, spans)
            if not changed:
                break
        else:
            raise ExpandError("macro expansion does not terminate")
    finally:
        _MULTI = False
    missing = names - seen
    if missing:
        raise ExpandError("macro_rules! %s: no definition in this file" % ", ".join(sorted(missing)))
    _d, spans = _definitions_multi(toks, set())
    keep = [True] * len(toks)
    for a, b, n in spans:
        if n in names:
            for k in range(a, b):
                keep[k] = False
    toks = [t for t, k in zip(toks, keep) if k]
    return _render(toks, True)
