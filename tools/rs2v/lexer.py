"""Tokens of the Rust subset."""
import re


class LexError(Exception):
    pass


class Tok:
    __slots__ = ("kind", "text", "pos", "val")

    def __init__(self, kind, text, pos, val=None):
        self.kind = kind      # ident int str byte char life punct attr eof
        self.text = text
        self.pos = pos
        self.val = val

    def __repr__(self):
        return "%s(%r)" % (self.kind, self.text)


PUNCT3 = ["..=", "<<=", ">>=", "..."]
PUNCT2 = ["=>", "->", "::", "..", "==", "!=", "<=", ">=", "&&", "||", "+=", "-=", "*=", "/=", "%=", "|=", "&=", "^=", "<<", ">>"]
PUNCT1 = list("+-*/%^!&|=<>@.,;:#$?~()[]{}")

_INT = re.compile(r"0x[0-9a-fA-F_]+|0b[01_]+|0o[0-7_]+|[0-9][0-9_]*")
_SUFFIX = re.compile(r"(u8|u16|u32|u64|u128|usize|i8|i16|i32|i64|i128|isize)")
_IDENT = re.compile(r"[A-Za-z_][A-Za-z0-9_]*")
_FLOAT_TAIL = re.compile(r"\.[0-9][0-9_]*(f32|f64)?|(f32|f64)")

ESC = {"n": 10, "r": 13, "t": 9, "\\": 92, "0": 0, '"': 34, "'": 39}


def _unescape(body, what):
    out = bytearray()
    i = 0
    while i < len(body):
        c = body[i]
        if c == "\\":
            d = body[i + 1]
            if d == "x":
                out.append(int(body[i + 2:i + 4], 16))
                i += 4
            elif d == "u":
                j = body.index("}", i)
                out.extend(chr(int(body[i + 3:j], 16)).encode("utf-8"))
                i = j + 1
            elif d in ESC:
                out.append(ESC[d])
                i += 2
            elif d == "\n":
                i += 2
                while i < len(body) and body[i] in " \t\n\r":
                    i += 1
            else:
                raise LexError("unknown escape \\%s in %s" % (d, what))
        else:
            out.extend(c.encode("utf-8"))
            i += 1
    return bytes(out)


def _skip_group(src, i, open_c, close_c):
    depth = 0
    n = len(src)
    while i < n:
        c = src[i]
        if c == '"':
            i = _str_end(src, i)
            continue
        if c == open_c:
            depth += 1
        elif c == close_c:
            depth -= 1
            if depth == 0:
                return i + 1
        i += 1
    raise LexError("unbalanced %s" % open_c)


def _str_end(src, i):
    # src[i] == '"'
    j = i + 1
    n = len(src)
    while j < n:
        if src[j] == "\\":
            j += 2
            continue
        if src[j] == '"':
            return j + 1
        j += 1
    raise LexError("unterminated string")


def tokenize(src):
    toks = []
    i = 0
    n = len(src)
    while i < n:
        c = src[i]
        if c in " \t\r\n":
            i += 1
            continue
        if src.startswith("//", i):
            j = src.find("\n", i)
            i = n if j < 0 else j
            continue
        if src.startswith("/*", i):
            depth = 1
            j = i + 2
            while j < n and depth:
                if src.startswith("/*", j):
                    depth += 1
                    j += 2
                elif src.startswith("*/", j):
                    depth -= 1
                    j += 2
                else:
                    j += 1
            i = j
            continue
        if c == "#" and (src.startswith("#[", i) or src.startswith("#![", i)):
            k = src.index("[", i)
            j = _skip_group(src, k, "[", "]")
            toks.append(Tok("attr", src[i:j], i))
            i = j
            continue
        if c == '"':
            j = _str_end(src, i)
            toks.append(Tok("str", src[i:j], i, _unescape(src[i + 1:j - 1], "string")))
            i = j
            continue
        if c == "r" and (src.startswith('r"', i) or src.startswith('r#"', i)):
            h = 0
            j = i + 1
            while src[j] == "#":
                h += 1
                j += 1
            end = src.index('"' + "#" * h, j + 1)
            toks.append(Tok("str", src[i:end + 1 + h], i, src[j + 1:end].encode("utf-8")))
            i = end + 1 + h
            continue
        if c == "b" and src.startswith('b"', i):
            j = _str_end(src, i + 1)
            toks.append(Tok("bstr", src[i:j], i, _unescape(src[i + 2:j - 1], "byte string")))
            i = j
            continue
        if c == "b" and src.startswith("b'", i):
            j = i + 2
            if src[j] == "\\":
                j += 2
                if src[j - 1] == "x":
                    j += 2
            else:
                j += 1
            if src[j] != "'":
                raise LexError("bad byte literal at %d" % i)
            v = _unescape(src[i + 2:j], "byte literal")
            toks.append(Tok("byte", src[i:j + 1], i, v[0]))
            i = j + 1
            continue
        if c == "'":
            # char literal or lifetime
            m = re.match(r"'(\\x[0-9a-fA-F]{2}|\\u\{[0-9a-fA-F]+\}|\\.|[^\\'])'", src[i:])
            if m:
                body = m.group(1)
                v = _unescape(body, "char literal").decode("utf-8")
                toks.append(Tok("char", m.group(0), i, ord(v)))
                i += len(m.group(0))
                continue
            m = re.match(r"'[A-Za-z_][A-Za-z0-9_]*", src[i:])
            if m:
                toks.append(Tok("life", m.group(0), i))
                i += len(m.group(0))
                continue
            raise LexError("stray quote at %d" % i)
        m = _INT.match(src, i)
        if m and c.isdigit():
            j = m.end()
            text = m.group(0).replace("_", "")
            suffix = None
            ms = _SUFFIX.match(src, j)
            if ms:
                suffix = ms.group(1)
                j = ms.end()
            else:
                mf = _FLOAT_TAIL.match(src, j)
                if mf:
                    j2 = mf.end()
                    toks.append(Tok("float", src[i:j2], i))
                    i = j2
                    continue
            if text.startswith("0x"):
                v = int(text, 16)
            elif text.startswith("0b"):
                v = int(text, 2)
            elif text.startswith("0o"):
                v = int(text, 8)
            else:
                v = int(text)
            toks.append(Tok("int", src[i:j], i, (v, suffix)))
            i = j
            continue
        m = _IDENT.match(src, i)
        if m:
            toks.append(Tok("ident", m.group(0), i))
            i = m.end()
            continue
        for group in (PUNCT3, PUNCT2, PUNCT1):
            hit = None
            for p in group:
                if src.startswith(p, i):
                    hit = p
                    break
            if hit:
                toks.append(Tok("punct", hit, i))
                i += len(hit)
                break
        else:
            raise LexError("unexpected character %r at %d" % (c, i))
    toks.append(Tok("eof", "", n))
    return toks
