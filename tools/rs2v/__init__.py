"""rs2v -- a translator from a subset of Rust to Gallina (see DESIGN.md section 12).

  lexer.py   tokens
  rparser.py  recursive-descent parser of the Rust subset -> AST (class N)
  emit.py    AST -> Gallina, in an option (panic) monad with explicit state threading
"""
