"""`use` items: resolving imported names to the paths they stand for.

The parser skips `use` items, and most vocabularies read a path AS WRITTEN (`anstyle::AnsiColor::Red`), so a
maintainer who adds `use anstyle::AnsiColor;` (at the top of the file or inside one function) and then writes
`AnsiColor::Red` has changed no behaviour but every path.  `resolve_uses(src)` undoes that on the source text: every
`use` declaration is blanked out and every path that STARTS with an imported name, inside the scope of the declaration
(the enclosing `{ .. }`, else the file), is rewritten to the full path -- what rustc's name resolution does.  The
result is ordinary source for `parse_file` / `translate`; a source without `use` comes back unchanged (same string).

What cannot be resolved exactly is a UseError (the plug-ins turn it into a GEN-ERROR, never into a guess):
glob imports, an imported name that is also DECLARED in the file (`let bold`, `fn bold`, a closure parameter, ..: the
local would shadow the import in part of the scope), two imports of one name in one scope.
Work is done on tokens, so the contents of macro invocations (`matches!(c, AnsiColor::Red)`) are covered too.

`use_map(src)` only reads the top-level declarations ({imported name: full path}) for plug-ins whose vocabulary is
keyed by the imported names and which must know that a name still stands for the same item."""
from .lexer import tokenize


class UseError(Exception):
    pass

_DECL_BEFORE = {"fn", "struct", "enum", "union", "mod", "type", "trait", "let", "mut", "ref", "const", "static", "macro_rules"}


def _is(t, text):
    return t.kind in ("punct", "ident") and t.text == text


def _use_tree(toks, i, end):
    """the use-tree in toks[i:end] -> [(local name, [segments])]; `*` as local name for a glob"""
    out = []

    def tree(i, prefix):
        segs = []
        while i < end:
            t = toks[i]
            if _is(t, "{"):
                i += 1
                while i < end and not _is(toks[i], "}"):
                    j = tree(i, prefix + segs)
                    if j == i:
                        raise UseError("`use`: unexpected token %r" % toks[i].text)
                    i = j
                    if i < end and _is(toks[i], ","):
                        i += 1
                return i + 1
            if _is(t, "*"):
                out.append(("*", prefix + segs))
                return i + 1
            if _is(t, "::"):
                i += 1
                continue
            if t.kind == "ident" and t.text == "as":
                if i + 1 >= end or toks[i + 1].kind != "ident":
                    raise UseError("`use .. as`: name expected")
                out.append((toks[i + 1].text, prefix + segs))
                return i + 2
            if _is(t, ",") or _is(t, "}"):
                break
            if t.kind != "ident":
                raise UseError("`use`: unexpected token %r" % t.text)
            segs.append(t.text)
            i += 1
        if segs:
            if segs[-1] == "self":
                full = prefix + segs[:-1]
                if not full:
                    raise UseError("`use self`")
                out.append((full[-1], full))
            else:
                out.append((segs[-1], prefix + segs))
        return i
    j = tree(i, [])
    if j < end:
        raise UseError("`use`: trailing tokens")
    return out


def _declarations(toks):
    """[(index of `use`, index of `;`, depth-matching scope (open, close) token indices or None)]"""
    opens = []
    scope_of = {}           # token index -> index of the innermost open brace (or -1)
    close_of = {}
    for i, t in enumerate(toks):
        if t.kind == "punct" and t.text == "{":
            scope_of[i] = opens[-1] if opens else -1
            opens.append(i)
        elif t.kind == "punct" and t.text == "}":
            if not opens:
                raise UseError("unbalanced `}`")
            o = opens.pop()
            close_of[o] = i
            scope_of[i] = opens[-1] if opens else -1
        else:
            scope_of[i] = opens[-1] if opens else -1
    if opens:
        raise UseError("unbalanced `{`")
    decls = []
    i = 0
    n = len(toks)
    while i < n:
        t = toks[i]
        if t.kind == "ident" and t.text == "use":
            # item / statement position: after `;` `{` `}` an attribute, a visibility, or at the start
            j = i - 1
            if j >= 0 and _is(toks[j], ")"):        # pub(crate) use ..
                d = 0
                while j >= 0:
                    if _is(toks[j], ")"):
                        d += 1
                    elif _is(toks[j], "("):
                        d -= 1
                        if d == 0:
                            break
                    j -= 1
                j -= 1
            start = i
            if j >= 0 and toks[j].kind == "ident" and toks[j].text == "pub":
                start = j
                j -= 1
            if j < 0 or toks[j].kind == "attr" or (toks[j].kind == "punct" and toks[j].text in (";", "{", "}")):
                e = i + 1
                d = 0
                while e < n and not (d == 0 and _is(toks[e], ";")):
                    if _is(toks[e], "{"):
                        d += 1
                    elif _is(toks[e], "}"):
                        d -= 1
                    e += 1
                if e >= n:
                    raise UseError("`use` without `;`")
                o = scope_of[i]
                decls.append((start, i, e, None if o < 0 else (o, close_of[o])))
                i = e + 1
                continue
        i += 1
    return decls


def use_map(src):
    """{imported name: full path} of the `use` declarations at the top level of the file (not inside `mod { }` / functions);
    a glob import appears under the name `*::<path>`"""
    toks = [t for t in tokenize(src) if t.kind != "eof"]
    out = {}
    for _start, u, e, scope in _declarations(toks):
        if scope is not None:
            continue
        for name, segs in _use_tree(toks, u + 1, e):
            key = name if name != "*" else "*::" + "::".join(segs)
            path = "::".join(segs)
            if out.get(key, path) != path:
                raise UseError("`%s` imported twice (%s, %s)" % (name, out[key], path))
            out[key] = path
    return out


def _headers(toks, k):
    """the headers (`#[cfg(test)] mod tests`, `fn f ( .. ) -> T`, ..) of the blocks enclosing token k, innermost first"""
    out = []
    depth = 0
    i = k - 1
    while i >= 0:
        t = toks[i]
        if t.kind == "punct" and t.text == "}":
            depth += 1
        elif t.kind == "punct" and t.text == "{":
            if depth:
                depth -= 1
            else:
                j = i - 1
                d = 0
                while j >= 0:
                    x = toks[j]
                    if x.kind == "punct" and x.text in (")", "]", ">"):
                        d += 1
                    elif x.kind == "punct" and x.text in ("(", "[", "<"):
                        d -= 1
                    elif d <= 0 and x.kind == "punct" and x.text in (";", "{", "}"):
                        break
                    j -= 1
                out.append(" ".join(x.text for x in toks[j + 1:i]))
        i -= 1
    return out


def in_test_module(headers):
    """is one of the enclosing blocks a `#[cfg(test)] mod ..`?  (not compiled into the library)"""
    import re
    return any(re.search(r"#\s*\[\s*cfg\s*\(\s*test\s*\)\s*\]", h) and re.search(r"\bmod\b", h) for h in headers)


def all_uses(src):
    """[(headers of the enclosing blocks (innermost first; [] at the top level), imported name | `*`, full path)] of every
    `use` declaration of the file, nested ones included"""
    toks = [t for t in tokenize(src) if t.kind != "eof"]
    out = []
    for _start, u, e, scope in _declarations(toks):
        hs = _headers(toks, u) if scope is not None else []
        for name, segs in _use_tree(toks, u + 1, e):
            out.append((hs, name, "::".join(segs)))
    return out


def type_items(src):
    """the `type` items of the file (aliases; not associated types inside `impl` / `trait`, not inside test modules), each
    as whitespace-free text from `type` to `;`"""
    toks = [t for t in tokenize(src) if t.kind != "eof"]
    out = []
    for i, t in enumerate(toks):
        if t.kind == "ident" and t.text == "type" and (i == 0 or toks[i - 1].kind == "attr" or (toks[i - 1].kind == "punct" and toks[i - 1].text in (";", "{", "}", ")"))
                                                     or (toks[i - 1].kind == "ident" and toks[i - 1].text == "pub")):
            hs = _headers(toks, i)
            if in_test_module(hs) or (hs and any(w in hs[0].split() for w in ("impl", "trait"))):
                continue
            j = i
            while j < len(toks) and not _is(toks[j], ";"):
                j += 1
            out.append("".join(x.text for x in toks[i:j + 1]))
    return out


def defined_names(src):
    """names the file itself declares as items (`fn x`, `struct x`, `type x`, ..), at any depth"""
    toks = [t for t in tokenize(src) if t.kind != "eof"]
    out = set()
    for i, t in enumerate(toks[:-1]):
        if t.kind == "ident" and t.text in ("fn", "struct", "enum", "union", "mod", "type", "trait", "const", "static") \
                and toks[i + 1].kind == "ident" and toks[i + 1].text not in ("fn", "unsafe", "extern", "mut"):
            out.add(toks[i + 1].text)
    return out


def resolve_uses(src, keep=()):
    """source text with every `use` declaration blanked out and every path that starts with an imported name written in
    full.  Names in `keep` ({name: path} the caller's vocabulary already reads under the short name) are left alone when
    they are imported from exactly that path, and are a UseError when imported from elsewhere."""
    toks = [t for t in tokenize(src) if t.kind != "eof"]
    decls = _declarations(toks)
    if not decls:
        return src
    keep = dict(keep)
    scopes = {}         # scope (open, close) or None -> {name: path}
    blank = []
    for start, u, e, scope in decls:
        tab = scopes.setdefault(scope, {})
        for name, segs in _use_tree(toks, u + 1, e):
            if name == "*":
                raise UseError("glob import `use %s::*`: the imported names cannot be resolved" % "::".join(segs))
            path = "::".join(segs)
            if name in keep:
                if keep[name] != path:
                    raise UseError("`%s` is imported from %s, the vocabulary reads it as %s" % (name, path, keep[name]))
                continue
            if tab.get(name, path) != path:
                raise UseError("`%s` imported twice in one scope (%s, %s)" % (name, tab[name], path))
            tab[name] = path
        a = toks[start].pos
        b = toks[e].pos + 1
        blank.append((a, b))
    in_decl = set()
    for start, u, e, _scope in decls:
        in_decl.update(range(start, e + 1))
    names = set()
    for tab in scopes.values():
        names.update(tab)
    # innermost scope first
    order = sorted((s for s in scopes if s is not None), key=lambda s: s[1] - s[0])
    edits = []
    n = len(toks)
    for k, t in enumerate(toks):
        if t.kind != "ident" or t.text not in names or k in in_decl:
            continue
        path = None
        for s in order:
            if s[0] < k < s[1] and t.text in scopes[s]:
                path = scopes[s][t.text]
                break
        if path is None and t.text in scopes.get(None, {}):
            path = scopes[None][t.text]
        if path is None:
            continue
        prev = toks[k - 1] if k > 0 else None
        nxt = toks[k + 1] if k + 1 < n else None
        if prev is not None and prev.kind == "punct" and prev.text in ("::", "."):
            continue            # a later path segment / a field / a method: not the imported item
        if nxt is not None and _is(nxt, ":"):
            continue            # `name: ..` (a field of a struct literal / pattern, a parameter): not a path
        if nxt is not None and _is(nxt, "!") and k + 2 < n and toks[k + 2].kind == "punct" and toks[k + 2].text in ("(", "[", "{"):
            continue            # a macro invocation: macros are vocabulary by name
        local = t.text[:1].islower() or t.text[:1] == "_"
        decl = prev is not None and prev.kind == "ident" and prev.text in _DECL_BEFORE
        if decl and prev.text in ("mut", "const") and k >= 2 and toks[k - 2].kind == "punct" and toks[k - 2].text in ("&", "&&", "*"):
            decl = False        # `&mut Type`, `*const Type`: a use of the name
        if decl and nxt is not None and _is(nxt, "::") and prev.text in ("let", "mut", "ref"):
            decl = False        # `let Color::Ansi(c) = ..`: a path pattern
        if decl and not local and prev.text in ("let", "mut", "ref") and nxt is not None and nxt.kind == "punct" and nxt.text in ("(", "{"):
            decl = False        # `let Wrapper(x) = ..`: a constructor pattern
        if decl \
                or (prev is not None and prev.kind == "ident" and prev.text == "for" and nxt is not None and nxt.kind == "ident" and nxt.text == "in") \
                or (nxt is not None and _is(nxt, "@")) \
                or (local and nxt is not None and nxt.kind == "punct" and nxt.text in ("=", "+=", "-=", "|=", "&=", "^=", "*=", "/=", "%=", "<<=", ">>=")) \
                or (local and ((prev is not None and _is(prev, "|")) or (nxt is not None and _is(nxt, "|")))):
            raise UseError("`%s` is imported (%s) and also declared in the file: which one a use means depends on the scope" % (t.text, path))
        if path.split("::")[-1] == t.text and "::" not in path:
            continue            # `use foo;` of a crate: nothing to rewrite
        edits.append((t.pos, t.pos + len(t.text), path))
    out = []
    cur = 0
    for a, b, text in sorted(edits + [(a, b, None) for a, b in blank]):
        if a < cur:
            raise UseError("overlapping rewrites")
        out.append(src[cur:a])
        if text is None:
            out.append("".join(c if c == "\n" else " " for c in src[a:b]))
        else:
            out.append(text)
        cur = b
    out.append(src[cur:])
    return "".join(out)
