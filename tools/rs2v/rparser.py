"""Recursive-descent parser for the subset of Rust the translated functions use.

The parser is deliberately strict: anything it does not understand inside a
function body raises ParseError (which the generators turn into GEN-ERROR, a
broken tie); at item level, items it is not asked about are skipped by bracket
matching."""
from .lexer import tokenize, Tok


class ParseError(Exception):
    pass


class N:
    """AST node: kind + attributes"""

    def __init__(self, kind, **kw):
        self.kind = kind
        self.__dict__.update(kw)

    def __repr__(self):
        return "N(%s)" % ", ".join("%s=%r" % (k, v) for k, v in self.__dict__.items())


ASSIGN_OPS = {"=", "+=", "-=", "*=", "/=", "%=", "|=", "&=", "^=", "<<=", ">>="}
BINOPS = [
    ({"||"}, 1), ({"&&"}, 2), ({"==", "!=", "<", ">", "<=", ">="}, 3), ({"|"}, 4), ({"^"}, 5), ({"&"}, 6),
    ({"<<", ">>"}, 7), ({"+", "-"}, 8), ({"*", "/", "%"}, 9),
]
PREC = {}
for ops, p in BINOPS:
    for o in ops:
        PREC[o] = p

ITEM_KW = {"fn", "struct", "enum", "impl", "const", "static", "use", "mod", "trait", "type", "extern", "unsafe", "pub", "macro_rules", "union"}


class Parser:
    def __init__(self, src):
        self.toks = tokenize(src)
        self.i = 0

    # -- token helpers -----------------------------------------------------
    @property
    def t(self):
        return self.toks[self.i]

    def peek(self, k=1):
        j = min(self.i + k, len(self.toks) - 1)
        return self.toks[j]

    def at(self, text, kind=None):
        t = self.t
        return t.text == text and (kind is None or t.kind == kind) and t.kind in ("punct", "ident")

    def at_kw(self, text):
        return self.t.kind == "ident" and self.t.text == text

    def accept(self, text):
        if self.at(text):
            self.i += 1
            return True
        return False

    def expect(self, text):
        if not self.at(text):
            self.err("expected %r" % text)
        self.i += 1

    def ident(self):
        if self.t.kind != "ident":
            self.err("expected identifier")
        s = self.t.text
        self.i += 1
        return s

    def err(self, msg):
        ctx = " ".join(t.text for t in self.toks[max(0, self.i - 6):self.i + 6])
        raise ParseError("%s at token %d (%r); near: %s" % (msg, self.i, self.t.text, ctx))

    def skip_balanced(self):
        """skip one bracketed group starting at the current token"""
        pairs = {"(": ")", "[": "]", "{": "}"}
        o = self.t.text
        if o not in pairs:
            self.err("expected a bracket")
        depth = 0
        while True:
            x = self.t
            if x.kind == "eof":
                self.err("unbalanced brackets")
            if x.kind == "punct" and x.text in pairs:
                depth += 1
            elif x.kind == "punct" and x.text in pairs.values():
                depth -= 1
            self.i += 1
            if depth == 0:
                return

    def skip_generics(self):
        """at '<': skip to the matching '>'"""
        depth = 0
        while True:
            x = self.t
            if x.kind == "eof":
                self.err("unbalanced <>")
            if x.kind == "punct":
                if x.text == "<":
                    depth += 1
                elif x.text == "<<":
                    depth += 2
                elif x.text == ">":
                    depth -= 1
                elif x.text == ">>":
                    depth -= 2
                elif x.text in ("(", "[", "{"):
                    self.skip_balanced()
                    continue
            self.i += 1
            if depth <= 0:
                return

    def attrs(self):
        out = []
        while self.t.kind == "attr":
            out.append(self.t.text)
            self.i += 1
        return out

    # -- items -------------------------------------------------------------
    def parse_file(self):
        items = []
        while self.t.kind != "eof":
            it = self.item()
            if it is not None:
                items.append(it)
        return items

    def visibility(self):
        if self.at_kw("pub"):
            self.i += 1
            if self.at("("):
                self.skip_balanced()

    def item(self):
        attrs = self.attrs()
        self.visibility()
        quals = []
        while self.t.kind == "ident" and self.t.text in ("const", "unsafe", "async", "extern", "default") and (
                self.peek().text in ("fn", "unsafe", "extern", "const", "impl", "trait") or self.peek().kind == "str"):
            quals.append(self.t.text)
            self.i += 1
            if self.t.kind == "str":
                self.i += 1
        t = self.t
        if t.kind != "ident":
            if t.kind == "punct" and t.text == ";":
                self.i += 1
                return None
            self.err("item expected")
        kw = t.text
        if kw == "fn":
            return self.fn_item(attrs, quals)
        if kw == "impl":
            return self.impl_item(attrs)
        if kw == "struct":
            return self.struct_item(attrs)
        if kw == "enum":
            return self.enum_item(attrs)
        if kw in ("const", "static"):
            return self.const_item(attrs)
        if kw == "mod":
            self.i += 1
            name = self.ident()
            if self.accept(";"):
                return None
            self.expect("{")
            items = []
            while not self.at("}"):
                it = self.item()
                if it is not None:
                    items.append(it)
            self.expect("}")
            return N("mod", name=name, items=items, attrs=attrs)
        if kw == "trait":
            self.i += 1
            name = self.ident()
            while not self.at("{"):
                if self.at("<"):
                    self.skip_generics()
                else:
                    self.i += 1
            self.expect("{")
            items = []
            while not self.at("}"):
                it = self.item()
                if it is not None:
                    items.append(it)
            self.expect("}")
            return N("trait", name=name, items=items, attrs=attrs)
        if kw in ("use", "type", "extern"):
            while not self.at(";"):
                if self.t.kind == "punct" and self.t.text in ("{", "(", "["):
                    self.skip_balanced()
                    if kw == "extern":
                        return None
                else:
                    self.i += 1
            self.expect(";")
            return None
        if kw == "macro_rules":
            self.i += 1
            self.expect("!")
            self.ident()
            self.skip_balanced()
            self.accept(";")
            return None
        if self.peek().text == "!":
            # item-position macro invocation
            self.i += 2
            self.skip_balanced()
            self.accept(";")
            return None
        self.err("unsupported item %r" % kw)

    def fn_item(self, attrs, quals):
        self.expect("fn")
        name = self.ident()
        if self.at("<"):
            self.skip_generics()
        self.expect("(")
        params = []
        self_kind = None
        while not self.at(")"):
            self.attrs()
            # self forms
            save = self.i
            if self.at("&"):
                self.i += 1
                if self.t.kind == "life":
                    self.i += 1
                m = self.accept("mut")
                if self.at_kw("self"):
                    self.i += 1
                    self_kind = "refmut" if m else "ref"
                    if not self.accept(","):
                        break
                    continue
                self.i = save
            if self.at_kw("mut") and self.peek().text == "self":
                self.i += 2
                self_kind = "valmut"
                if self.accept(":"):
                    self.parse_type()
                if not self.accept(","):
                    break
                continue
            if self.at_kw("self"):
                self.i += 1
                self_kind = "val"
                if self.accept(":"):
                    self.parse_type()
                if not self.accept(","):
                    break
                continue
            pat = self.pattern()
            self.expect(":")
            ty = self.parse_type()
            params.append((pat, ty))
            if not self.accept(","):
                break
        self.expect(")")
        ret = None
        if self.accept("->"):
            ret = self.parse_type()
        if self.at_kw("where"):
            while not self.at("{") and not self.at(";"):
                if self.at("<"):
                    self.skip_generics()
                elif self.t.kind == "punct" and self.t.text in ("(", "["):
                    self.skip_balanced()
                else:
                    self.i += 1
        body = None
        if self.accept(";"):
            pass
        else:
            body = self.block()
        return N("fn", name=name, params=params, self_kind=self_kind, ret=ret, body=body, attrs=attrs, quals=quals)

    def impl_item(self, attrs):
        self.expect("impl")
        if self.at("<"):
            self.skip_generics()
        neg = self.accept("!")
        first = self.parse_type()
        trait = None
        target = first
        if self.at_kw("for"):
            self.i += 1
            trait = first
            target = self.parse_type()
        if self.at_kw("where"):
            while not self.at("{"):
                if self.at("<"):
                    self.skip_generics()
                elif self.t.kind == "punct" and self.t.text in ("(", "["):
                    self.skip_balanced()
                else:
                    self.i += 1
        self.expect("{")
        items = []
        while not self.at("}"):
            it = self.item()
            if it is not None:
                items.append(it)
        self.expect("}")
        return N("impl", trait=trait, target=target, items=items, attrs=attrs)

    def struct_item(self, attrs):
        self.expect("struct")
        name = self.ident()
        if self.at("<"):
            self.skip_generics()
        fields = []
        if self.at("("):
            self.i += 1
            idx = 0
            while not self.at(")"):
                self.attrs()
                self.visibility()
                fields.append((str(idx), self.parse_type(), []))
                idx += 1
                if not self.accept(","):
                    break
            self.expect(")")
            if self.at_kw("where"):
                while not self.at(";"):
                    self.i += 1
            self.expect(";")
            return N("struct", name=name, fields=fields, tuple=True, attrs=attrs)
        if self.accept(";"):
            return N("struct", name=name, fields=[], tuple=False, attrs=attrs)
        if self.at_kw("where"):
            while not self.at("{"):
                if self.at("<"):
                    self.skip_generics()
                else:
                    self.i += 1
        self.expect("{")
        while not self.at("}"):
            fattrs = self.attrs()
            self.visibility()
            fname = self.ident()
            self.expect(":")
            fty = self.parse_type()
            fields.append((fname, fty, fattrs))
            if not self.accept(","):
                break
        self.expect("}")
        return N("struct", name=name, fields=fields, tuple=False, attrs=attrs)

    def enum_item(self, attrs):
        self.expect("enum")
        name = self.ident()
        if self.at("<"):
            self.skip_generics()
        self.expect("{")
        variants = []
        while not self.at("}"):
            vattrs = self.attrs()
            vname = self.ident()
            payload = None
            disc = None
            if self.at("("):
                self.i += 1
                payload = []
                while not self.at(")"):
                    payload.append(self.parse_type())
                    if not self.accept(","):
                        break
                self.expect(")")
            elif self.at("{"):
                self.skip_balanced()
                payload = "struct"
            if self.accept("="):
                disc = self.expr()
            variants.append((vname, payload, disc, vattrs))
            if not self.accept(","):
                break
        self.expect("}")
        return N("enum", name=name, variants=variants, attrs=attrs)

    def const_item(self, attrs):
        is_static = self.t.text == "static"
        self.i += 1   # const / static
        is_mut = bool(self.accept("mut"))
        name = self.ident() if not self.at("_") else (self.expect("_") or "_")
        ty = None
        if self.accept(":"):
            ty = self.parse_type()
        val = None
        if self.accept("="):
            val = self.expr()
        self.expect(";")
        return N("const", name=name, ty=ty, val=val, attrs=attrs, static=is_static, mut=is_mut)

    # -- types -------------------------------------------------------------
    def parse_type(self):
        t = self.t
        if self.at("&") or self.at("&&"):
            two = self.at("&&")
            self.i += 1
            if self.t.kind == "life":
                self.i += 1
            m = self.accept("mut")
            inner = self.parse_type()
            r = N("ty", form="ref", mut=bool(m), inner=inner)
            if two:
                r = N("ty", form="ref", mut=False, inner=r)
            return r
        if self.at("*"):
            self.i += 1
            m = self.t.text
            self.i += 1     # const / mut
            inner = self.parse_type()
            return N("ty", form="ptr", mut=(m == "mut"), inner=inner)
        if self.at("["):
            self.i += 1
            inner = self.parse_type()
            if self.accept(";"):
                ln = self.expr()
                self.expect("]")
                return N("ty", form="array", inner=inner, len=ln)
            self.expect("]")
            return N("ty", form="slice", inner=inner)
        if self.at("("):
            self.i += 1
            elems = []
            while not self.at(")"):
                elems.append(self.parse_type())
                if not self.accept(","):
                    break
            self.expect(")")
            if len(elems) == 1:
                return elems[0]
            return N("ty", form="tuple", elems=elems)
        if self.at("!"):
            self.i += 1
            return N("ty", form="never")
        if t.kind == "ident" and t.text in ("impl", "dyn"):
            self.i += 1
            start = self.i
            # bounds: path (+ path)*
            while True:
                if self.t.kind == "life":
                    self.i += 1
                else:
                    self.accept("?")
                    self.type_path()
                if not self.accept("+"):
                    break
            return N("ty", form="opaque", text=" ".join(x.text for x in self.toks[start:self.i]))
        if t.kind == "ident" and t.text == "fn":
            self.i += 1
            # `fn(T, ..) -> R`: the parameter / result types are recorded when they are plain types (emit.py reads a
            # function pointer over vocabulary types as a "fnval"); otherwise the node is what it always was
            save = self.i
            params = None
            try:
                self.expect("(")
                params = []
                while not self.at(")"):
                    params.append(self.parse_type())
                    if not self.accept(","):
                        break
                self.expect(")")
            except ParseError:
                params = None
                self.i = save
                self.skip_balanced()
            ret = None
            if self.accept("->"):
                ret = self.parse_type()
            return N("ty", form="opaque", text="fn", params=params, ret=ret)
        if self.at("<"):
            # qualified path <T as Trait>::X
            self.skip_generics()
            segs = ["<q>"]
            while self.accept("::"):
                segs.append(self.ident())
            return N("ty", form="path", segs=segs, args=[])
        if t.kind == "ident" or self.at("::"):
            segs, args = self.type_path()
            return N("ty", form="path", segs=segs, args=args)
        self.err("type expected")

    def type_path(self):
        segs = []
        args = []
        self.accept("::")
        while True:
            segs.append(self.ident())
            if self.at("<"):
                args = self.generic_args()
            elif self.at("(") and segs[-1] in ("Fn", "FnMut", "FnOnce"):
                self.skip_balanced()
                if self.accept("->"):
                    self.parse_type()
            if self.at("::") and self.peek().kind == "ident":
                self.i += 1
                continue
            if self.at("::") and self.peek().text == "<":
                self.i += 1
                args = self.generic_args()
                if self.at("::") and self.peek().kind == "ident":
                    self.i += 1
                    continue
            break
        return segs, args

    def generic_args(self):
        self.expect("<")
        args = []
        while not self.at(">") and not self.at(">>"):
            if self.t.kind == "life":
                self.i += 1
            elif self.t.kind in ("int",) or self.at("{"):
                args.append(self.expr_bp(10))
            elif self.t.kind == "ident" and self.peek().text == "=":
                self.i += 2
                args.append(self.parse_type())
            else:
                args.append(self.parse_type())
            if not self.accept(","):
                break
        if self.at(">>"):
            # split the token
            tk = self.t
            self.toks[self.i] = Tok("punct", ">", tk.pos)
            self.toks.insert(self.i, Tok("punct", ">", tk.pos))
        self.expect(">")
        return args

    # -- patterns ----------------------------------------------------------
    def pattern(self):
        self.accept("|")
        alts = [self.pattern1()]
        while self.at("|"):
            self.i += 1
            alts.append(self.pattern1())
        if len(alts) == 1:
            return alts[0]
        return N("por", alts=alts)

    def pat_lit(self):
        t = self.t
        neg = False
        if self.at("-"):
            neg = True
            self.i += 1
            t = self.t
        if t.kind == "int":
            self.i += 1
            v = t.val[0]
            return N("plit", val=-v if neg else v, lk="int")
        if t.kind == "byte":
            self.i += 1
            return N("plit", val=t.val, lk="byte")
        if t.kind == "char":
            self.i += 1
            return N("plit", val=t.val, lk="char")
        if t.kind == "str":
            self.i += 1
            return N("plit", val=t.val, lk="str")
        if t.kind == "bstr":
            self.i += 1
            return N("plit", val=t.val, lk="bstr")
        return None

    def pattern1(self):
        t = self.t
        if self.at("_"):
            self.i += 1
            return N("pwild")
        if self.at("&") or self.at("&&"):
            self.i += 1
            self.accept("mut")
            return N("pref", inner=self.pattern1())
        if self.at("("):
            self.i += 1
            elems = []
            while not self.at(")"):
                if self.at(".."):
                    self.i += 1
                    elems.append(N("prest"))
                else:
                    elems.append(self.pattern())
                if not self.accept(","):
                    break
            self.expect(")")
            if len(elems) == 1:
                return elems[0]
            return N("ptuple", elems=elems)
        if self.at("["):
            self.i += 1
            elems = []
            while not self.at("]"):
                if self.at(".."):
                    self.i += 1
                    elems.append(N("prest"))
                else:
                    elems.append(self.pattern())
                if not self.accept(","):
                    break
            self.expect("]")
            return N("pslice", elems=elems)
        lit = self.pat_lit()
        if lit is not None:
            if self.at("..=") or self.at(".."):
                incl = self.at("..=")
                self.i += 1
                hi = self.pat_lit()
                if hi is None:
                    if self.t.kind == "ident":
                        hi = N("ppath", segs=self.expr_path_segs())
                    elif incl:
                        self.err("range pattern needs an upper bound")
                return N("prange", lo=lit, hi=hi, incl=incl)
            return lit
        if t.kind == "ident":
            if t.text in ("ref", "mut"):
                by_ref = False
                mut = False
                while self.t.text in ("ref", "mut"):
                    if self.t.text == "ref":
                        by_ref = True
                    else:
                        mut = True
                    self.i += 1
                name = self.ident()
                return N("pident", name=name, by_ref=by_ref, mut=mut, sub=None)
            segs = self.expr_path_segs()
            if self.at("("):
                self.i += 1
                elems = []
                while not self.at(")"):
                    if self.at(".."):
                        self.i += 1
                        elems.append(N("prest"))
                    else:
                        elems.append(self.pattern())
                    if not self.accept(","):
                        break
                self.expect(")")
                return N("ptstruct", segs=segs, elems=elems)
            if self.at("{"):
                self.i += 1
                fields = []
                rest = False
                while not self.at("}"):
                    if self.at(".."):
                        self.i += 1
                        rest = True
                        break
                    fname = self.ident()
                    if self.accept(":"):
                        fields.append((fname, self.pattern()))
                    else:
                        fields.append((fname, N("pident", name=fname, by_ref=False, mut=False, sub=None)))
                    if not self.accept(","):
                        break
                self.expect("}")
                return N("pstruct", segs=segs, fields=fields, rest=rest)
            if self.at("..=") or (self.at("..") and self.peek().kind in ("int", "byte", "char", "ident")):
                incl = self.at("..=")
                self.i += 1
                hi = self.pat_lit()
                if hi is None:
                    hi = N("ppath", segs=self.expr_path_segs())
                return N("prange", lo=N("ppath", segs=segs), hi=hi, incl=incl)
            if len(segs) == 1 and (segs[0][0].islower() or segs[0][0] == "_"):
                sub = None
                if self.accept("@"):
                    sub = self.pattern1()
                return N("pident", name=segs[0], by_ref=False, mut=False, sub=sub)
            return N("ppath", segs=segs)
        self.err("pattern expected")

    def expr_path_segs(self):
        segs = []
        self.accept("::")
        self._path_targs = None
        while True:
            segs.append(self.ident())
            if self.at("::") and self.peek().text == "<":
                self.i += 1
                ta = self.i
                self.skip_generics()
                # the turbofish of an expression path is kept as text (`mem::transmute::<u8, State>` -> "<u8,State>")
                # on the path node (attribute `targs`, only present when there is one), for vocabulary callables
                self._path_targs = "".join(x.text for x in self.toks[ta:self.i])
            if self.at("::") and self.peek().kind == "ident":
                self.i += 1
                continue
            break
        return segs

    # -- blocks and statements --------------------------------------------
    def block(self):
        self.expect("{")
        stmts = []
        tail = None
        while not self.at("}"):
            attrs = self.attrs()
            if self.accept(";"):
                continue
            t = self.t
            if self.at_kw("let"):
                self.i += 1
                pat = self.pattern()
                ty = None
                if self.accept(":"):
                    ty = self.parse_type()
                init = None
                els = None
                if self.accept("="):
                    init = self.expr()
                    if self.at_kw("else"):
                        self.i += 1
                        els = self.block()
                self.expect(";")
                stmts.append(N("let", pat=pat, ty=ty, init=init, els=els, attrs=attrs))
                continue
            if t.kind == "ident" and t.text in ITEM_KW and not (t.text == "unsafe" and self.peek().text == "{") \
                    and not (t.text in ("const",) and self.peek().text == "{"):
                it = self.item()
                if it is not None:
                    it.attrs = attrs + getattr(it, "attrs", [])
                    stmts.append(N("item", item=it))
                continue
            e = self.expr_stmt()
            e_attrs = attrs
            if self.accept(";"):
                stmts.append(N("expr", e=e, semi=True, attrs=e_attrs))
            elif self.at("}"):
                if attrs and any(a.replace(" ", "").startswith("#[cfg") for a in attrs):
                    # an attributed tail block (#[cfg(..)] { .. }) is a statement; under any other
                    # attribute (#[allow(..)] unsafe { .. }) it is still the value of the block
                    stmts.append(N("expr", e=e, semi=False, attrs=e_attrs))
                else:
                    tail = e
            else:
                if e.kind in ("if", "match", "block", "loop", "while", "for", "unsafe"):
                    stmts.append(N("expr", e=e, semi=False, attrs=e_attrs))
                else:
                    self.err("expected ';' or '}' after expression")
        self.expect("}")
        return N("block", stmts=stmts, tail=tail)

    def expr_stmt(self):
        """expression in statement position: block-like expressions end the statement"""
        t = self.t
        if t.kind == "ident" and t.text in ("if", "match", "loop", "while", "for", "unsafe") or self.at("{") or t.kind == "life":
            e = self.block_like()
            # method call / ? on a block-like expression, or binary continuation, is rare; support '.' and '?'
            if self.at(".") or self.at("?"):
                e = self.postfix(e)
                return self.expr_rest(e)
            return e
        return self.expr()

    def block_like(self):
        t = self.t
        label = None
        if t.kind == "life":
            label = t.text
            self.i += 1
            self.expect(":")
            t = self.t
        if self.at("{"):
            return self.block()
        if t.text == "unsafe":
            self.i += 1
            b = self.block()
            return N("unsafe", block=b)
        if t.text == "if":
            return self.if_expr()
        if t.text == "match":
            self.i += 1
            scrut = self.expr(no_struct=True)
            self.expect("{")
            arms = []
            arm_attrs = []      # attributes of the arms (`#[cfg(..)] Pat => ..`), parallel to `arms`
            while not self.at("}"):
                arm_attrs.append(self.attrs())
                pat = self.pattern()
                guard = None
                if self.at_kw("if"):
                    self.i += 1
                    guard = self.expr()
                self.expect("=>")
                body = self.expr_stmt()
                arms.append((pat, guard, body))
                if not self.accept(","):
                    if not self.at("}") and body.kind not in ("block", "if", "match", "unsafe", "loop", "while", "for"):
                        self.err("expected ',' after match arm")
            self.expect("}")
            return N("match", scrut=scrut, arms=arms, arm_attrs=arm_attrs)
        if t.text == "loop":
            self.i += 1
            return N("loop", body=self.block(), label=label)
        if t.text == "while":
            self.i += 1
            if self.at_kw("let"):
                self.i += 1
                pat = self.pattern()
                self.expect("=")
                e = self.expr(no_struct=True)
                cond = N("letcond", pat=pat, e=e)
            else:
                cond = self.expr(no_struct=True)
            return N("while", cond=cond, body=self.block(), label=label)
        if t.text == "for":
            self.i += 1
            pat = self.pattern()
            self.expect("in")
            it = self.expr(no_struct=True)
            return N("for", pat=pat, iter=it, body=self.block(), label=label)
        self.err("block-like expression expected")

    def if_expr(self):
        self.expect("if")
        if self.at_kw("let"):
            self.i += 1
            pat = self.pattern()
            self.expect("=")
            e = self.expr(no_struct=True)
            cond = N("letcond", pat=pat, e=e)
        else:
            cond = self.expr(no_struct=True)
        then = self.block()
        els = None
        if self.at_kw("else"):
            self.i += 1
            if self.at_kw("if"):
                els = self.if_expr()
            else:
                els = self.block()
        return N("if", cond=cond, then=then, els=els)

    # -- expressions -------------------------------------------------------
    def expr(self, no_struct=False):
        old = getattr(self, "_no_struct", False)
        self._no_struct = no_struct
        try:
            lhs = self.expr_range()
            if self.t.kind == "punct" and self.t.text in ASSIGN_OPS:
                op = self.t.text
                self.i += 1
                rhs = self.expr(no_struct)
                return N("assign", op=op, lhs=lhs, rhs=rhs)
            return lhs
        finally:
            self._no_struct = old

    def expr_rest(self, lhs):
        """continue a binary / assignment expression whose left operand is already parsed"""
        lhs = self.binary_rest(lhs, 0)
        if self.t.kind == "punct" and self.t.text in ASSIGN_OPS:
            op = self.t.text
            self.i += 1
            rhs = self.expr()
            return N("assign", op=op, lhs=lhs, rhs=rhs)
        return lhs

    def expr_range(self):
        if self.at("..") or self.at("..="):
            incl = self.at("..=")
            self.i += 1
            hi = None
            if self.starts_expr():
                hi = self.expr_bp(0)
            return N("range", lo=None, hi=hi, incl=incl)
        lo = self.expr_bp(0)
        if self.at("..") or self.at("..="):
            incl = self.at("..=")
            self.i += 1
            hi = None
            if self.starts_expr():
                hi = self.expr_bp(0)
            return N("range", lo=lo, hi=hi, incl=incl)
        return lo

    def starts_expr(self):
        t = self.t
        if t.kind in ("int", "str", "byte", "char", "bstr", "float", "life"):
            return True
        if t.kind == "ident":
            return t.text not in ("else", "as", "in")
        if t.kind == "punct":
            if t.text == "{" and getattr(self, "_no_struct", False):
                return False
            return t.text in ("(", "[", "{", "-", "!", "*", "&", "&&", "|", "||", "<", "::")
        return False

    def expr_bp(self, min_prec):
        lhs = self.unary()
        return self.binary_rest(lhs, min_prec)

    def binary_rest(self, lhs, min_prec):
        while True:
            t = self.t
            if t.kind == "ident" and t.text == "as":
                self.i += 1
                ty = self.parse_type()
                lhs = N("cast", e=lhs, ty=ty)
                continue
            if t.kind != "punct" or t.text not in PREC:
                return lhs
            p = PREC[t.text]
            if p <= min_prec:
                return lhs
            op = t.text
            self.i += 1
            rhs = self.expr_bp(p)
            lhs = N("binary", op=op, l=lhs, r=rhs)

    def unary(self):
        t = self.t
        if t.kind == "punct":
            if t.text == "-":
                self.i += 1
                return N("unary", op="-", e=self.unary_cast())
            if t.text == "!":
                self.i += 1
                return N("unary", op="!", e=self.unary_cast())
            if t.text == "*":
                self.i += 1
                return N("unary", op="*", e=self.unary_cast())
            if t.text in ("&", "&&"):
                two = t.text == "&&"
                self.i += 1
                m = self.accept("mut")
                e = N("unary", op="&mut" if m else "&", e=self.unary_cast())
                if two:
                    e = N("unary", op="&", e=e)
                return e
        return self.postfix(self.primary())

    def unary_cast(self):
        # unary operators bind tighter than `as`
        return self.unary()

    def postfix(self, e):
        while True:
            if self.at("?"):
                self.i += 1
                e = N("try", e=e)
            elif self.at("."):
                self.i += 1
                t = self.t
                if t.kind == "int":
                    self.i += 1
                    e = N("tfield", e=e, idx=t.val[0])
                elif t.kind == "float":
                    # a.0.1
                    self.i += 1
                    a, b = t.text.split(".")
                    e = N("tfield", e=N("tfield", e=e, idx=int(a)), idx=int(b))
                elif t.kind == "ident" and t.text == "await":
                    self.err("await unsupported")
                else:
                    name = self.ident()
                    targs = None
                    if self.at("::"):
                        self.i += 1
                        ta = self.i
                        self.skip_generics()
                        # the turbofish is kept as text (`parse::<u8>()` -> "<u8>") for vocabulary callables
                        targs = "".join(x.text for x in self.toks[ta:self.i])
                    if self.at("("):
                        args = self.call_args()
                        e = N("mcall", recv=e, name=name, args=args, targs=targs)
                    else:
                        e = N("field", e=e, name=name)
            elif self.at("("):
                args = self.call_args()
                e = N("call", f=e, args=args)
            elif self.at("["):
                self.i += 1
                idx = self.expr()
                self.expect("]")
                e = N("index", e=e, idx=idx)
            else:
                return e

    def call_args(self):
        self.expect("(")
        args = []
        while not self.at(")"):
            args.append(self.expr())
            if not self.accept(","):
                break
        self.expect(")")
        return args

    def primary(self):
        t = self.t
        if t.kind == "int":
            self.i += 1
            return N("int", val=t.val[0], suffix=t.val[1])
        if t.kind == "float":
            self.i += 1
            return N("float", text=t.text)
        if t.kind == "byte":
            self.i += 1
            return N("int", val=t.val, suffix="u8", byte=True)
        if t.kind == "char":
            self.i += 1
            return N("charlit", val=t.val)
        if t.kind == "str":
            self.i += 1
            return N("str", val=t.val)
        if t.kind == "bstr":
            self.i += 1
            return N("bstr", val=t.val)
        if t.kind == "life":
            return self.block_like()
        if t.kind == "punct":
            if t.text == "(":
                self.i += 1
                old = getattr(self, "_no_struct", False)
                self._no_struct = False
                try:
                    elems = []
                    trailing = False
                    while not self.at(")"):
                        elems.append(self.expr())
                        trailing = False
                        if not self.accept(","):
                            break
                        trailing = True
                    self.expect(")")
                finally:
                    self._no_struct = old
                if len(elems) == 1 and not trailing:
                    return N("paren", e=elems[0])
                return N("tuple", elems=elems)
            if t.text == "[":
                self.i += 1
                old = getattr(self, "_no_struct", False)
                self._no_struct = False
                try:
                    elems = []
                    rep = None
                    while not self.at("]"):
                        elems.append(self.expr())
                        if self.accept(";"):
                            rep = self.expr()
                            break
                        if not self.accept(","):
                            break
                    self.expect("]")
                finally:
                    self._no_struct = old
                if rep is not None:
                    return N("arrayrep", e=elems[0], n=rep)
                return N("array", elems=elems)
            if t.text == "{":
                return self.block()
            if t.text in ("|", "||"):
                return self.closure()
            if t.text == "<":
                q0 = self.i
                self.skip_generics()
                # the text of the qualifier `<T as Trait>` is kept (attribute `qual`, blanks removed) for vocabulary callables
                qual = "".join(x.text for x in self.toks[q0:self.i])
                segs = ["<q>"]
                while self.accept("::"):
                    segs.append(self.ident())
                return N("path", segs=segs, qual=qual)
            if t.text == "::":
                segs = self.expr_path_segs()
                return self.after_path(segs)
        if t.kind == "ident":
            kw = t.text
            if kw in ("if", "match", "loop", "while", "for", "unsafe"):
                return self.block_like()
            if kw == "move":
                self.i += 1
                c = self.closure()
                c.move = True       # (a `move` closure copies what it captures; see Emitter.inline_closure)
                return c
            if kw == "return":
                self.i += 1
                e = None
                if self.starts_expr():
                    e = self.expr()
                return N("return", e=e)
            if kw == "break":
                self.i += 1
                label = None
                if self.t.kind == "life":
                    label = self.t.text
                    self.i += 1
                e = None
                if self.starts_expr():
                    e = self.expr()
                return N("break", e=e, label=label)
            if kw == "continue":
                self.i += 1
                label = None
                if self.t.kind == "life":
                    label = self.t.text
                    self.i += 1
                return N("continue", label=label)
            if kw == "true" or kw == "false":
                self.i += 1
                return N("bool", val=(kw == "true"))
            segs = self.expr_path_segs()
            return self.after_path(segs)
        self.err("expression expected")

    def after_path(self, segs):
        if self.at("!") and self.peek().text in ("(", "[", "{") and self.peek().kind == "punct":
            self.i += 1
            start = self.i
            self.skip_balanced()
            inner = self.toks[start + 1:self.i - 1]
            return N("macro", name="::".join(segs), toks=inner)
        if self.at("{") and not getattr(self, "_no_struct", False) and segs[-1][0].isupper():
            # struct literal
            save = self.i
            try:
                self.i += 1
                fields = []
                base = None
                while not self.at("}"):
                    if self.at(".."):
                        self.i += 1
                        base = self.expr()
                        break
                    if self.t.kind == "int":
                        fname = str(self.t.val[0])
                        self.i += 1
                    else:
                        fname = self.ident()
                    if self.accept(":"):
                        fields.append((fname, self.expr()))
                    else:
                        fields.append((fname, N("path", segs=[fname])))
                    if not self.accept(","):
                        break
                self.expect("}")
                return N("structlit", segs=segs, fields=fields, base=base)
            except ParseError:
                self.i = save
        if getattr(self, "_path_targs", None):
            ta, self._path_targs = self._path_targs, None
            return N("path", segs=segs, targs=ta)
        return N("path", segs=segs)

    def closure(self):
        params = []
        if self.accept("||"):
            pass
        else:
            self.expect("|")
            while not self.at("|"):
                pat = self.pattern1()
                ty = None
                if self.accept(":"):
                    ty = self.parse_type()
                params.append((pat, ty))
                if not self.accept(","):
                    break
            self.expect("|")
        ret = None
        if self.accept("->"):
            ret = self.parse_type()
            body = self.block()
        else:
            body = self.expr()
        return N("closure", params=params, ret=ret, body=body)


def parse_file(src):
    return Parser(src).parse_file()


def parse_macro_args(toks):
    """comma-separated expressions inside a macro invocation"""
    p = Parser("")
    p.toks = list(toks) + [Tok("eof", "", 0)]
    p.i = 0
    args = []
    while p.t.kind != "eof":
        args.append(p.expr())
        if not p.accept(","):
            break
    if p.t.kind != "eof":
        p.err("trailing tokens in macro arguments")
    return args


def parse_matches_macro(toks):
    """matches!(expr, pat [if guard])"""
    p = Parser("")
    p.toks = list(toks) + [Tok("eof", "", 0)]
    p.i = 0
    e = p.expr()
    p.expect(",")
    pat = p.pattern()
    guard = None
    if p.at_kw("if"):
        p.i += 1
        guard = p.expr()
    p.accept(",")
    if p.t.kind != "eof":
        p.err("trailing tokens in matches!")
    return e, pat, guard


def find_items(items, kind=None, name=None):
    out = []
    for it in items:
        if (kind is None or it.kind == kind) and (name is None or getattr(it, "name", None) == name):
            out.append(it)
        if it.kind in ("mod", "trait"):
            out.extend(find_items(it.items, kind, name))
    return out


def type_name(ty):
    """last path segment of a type (references stripped)"""
    while ty is not None and ty.form in ("ref", "ptr"):
        ty = ty.inner
    if ty is None:
        return None
    if ty.form == "path":
        return ty.segs[-1]
    return ty.form


def find_fn(items, name, impl_of=None, trait=None, trait_arg=None, target_arg=None):
    """function `name`; inside `impl <impl_of>` (optionally `impl <trait> for <impl_of>`, optionally
    `impl <trait><trait_arg> for <impl_of>`, optionally `impl <impl_of><target_arg>`) when given"""
    hits = []
    for it in items:
        if it.kind == "fn" and impl_of is None and it.name == name:
            hits.append(it)
        elif it.kind == "impl" and impl_of is not None and type_name(it.target) == impl_of:
            tn = type_name(it.trait) if it.trait is not None else None
            if trait is not None and trait is not False and tn != trait:
                continue
            if target_arg is not None:
                # `impl AutoStream<std::io::Stdout>` next to `impl AutoStream<std::io::Stderr>`
                gargs = getattr(it.target, "args", None) or []
                if [type_name(a) for a in gargs[:1]] != [target_arg]:
                    continue
            if trait_arg is not None:
                targs = getattr(it.trait, "args", None) or []
                if [type_name(a) for a in targs[:1]] != [trait_arg]:
                    continue
            if trait is False and tn is not None:
                continue      # `trait=False`: the inherent impl only (a trait impl of the same type has a method of the same name)
            for sub in it.items:
                if sub.kind == "fn" and sub.name == name:
                    hits.append(sub)
        elif it.kind in ("mod",):
            try:
                hits.append(find_fn(it.items, name, impl_of, trait, trait_arg, target_arg))
            except KeyError:
                pass
    if len(hits) != 1:
        raise KeyError("function %s%s: %d definitions found" % ((impl_of + "::") if impl_of else "", name, len(hits)))
    return hits[0]
