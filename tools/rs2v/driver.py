"""Shared driver of the function translators (tools/gen_fn_*.py)."""
import hashlib

from .lexer import tokenize, LexError
from .rparser import parse_file, find_fn, find_items, ParseError, type_name
from .emit import Emitter, EmitError


class TranslateError(Exception):
    pass


# what the function translators covered in this process (read by tools/inventory.py):
#   ("translated", sha(src), fn node) / ("pinned", sha(src), fn name, impl_of) / ("hashed", sha(fragment))
REGISTRY = []


def _sha(text):
    return hashlib.sha256(text.encode()).hexdigest()[:16]


def token_hash(src_fragment):
    REGISTRY.append(("hashed", _sha(src_fragment), src_fragment))
    toks = [t.text for t in tokenize(src_fragment) if t.kind != "eof"]
    return hashlib.sha256("\x00".join(toks).encode()).hexdigest()[:16]


def fn_source(src, fn_name, impl_of=None):
    """source text of one function (for opaque pins): located by token scan"""
    REGISTRY.append(("pinned", _sha(src), fn_name, impl_of))
    toks = tokenize(src)
    # find `fn <name>` ; when impl_of is given it must lie inside `impl ... <impl_of> ... {`
    hits = []
    for i, t in enumerate(toks):
        if t.kind == "ident" and t.text == "fn" and toks[i + 1].text == fn_name:
            hits.append(i)
    if impl_of is not None:
        keep = []
        for i in hits:
            # walk back to the enclosing impl header
            depth = 0
            j = i
            while j >= 0:
                x = toks[j]
                if x.kind == "punct" and x.text == "}":
                    depth += 1
                elif x.kind == "punct" and x.text == "{":
                    if depth == 0:
                        break
                    depth -= 1
                j -= 1
            hdr = []
            j -= 1
            while j >= 0 and not (toks[j].kind == "punct" and toks[j].text in ("}", ";")) and toks[j].kind != "attr":
                hdr.append(toks[j].text)
                j -= 1
            if "impl" in hdr and impl_of in hdr:
                keep.append(i)
        hits = keep
    if len(hits) != 1:
        raise TranslateError("opaque function %s: %d definitions found" % (fn_name, len(hits)))
    i = hits[0]
    j = i
    while not (toks[j].kind == "punct" and toks[j].text == "{"):
        j += 1
    depth = 0
    while True:
        x = toks[j]
        if x.kind == "punct" and x.text == "{":
            depth += 1
        elif x.kind == "punct" and x.text == "}":
            depth -= 1
            if depth == 0:
                break
        j += 1
    return src[toks[i].pos:toks[j].pos + 1]


def check_struct(items, name, expected, em):
    """the Rust struct has exactly the fields the vocabulary models (name -> type string)"""
    sts = find_items(items, "struct", name)
    if len(sts) != 1:
        raise TranslateError("struct %s: %d definitions" % (name, len(sts)))
    got = {}
    for fname, fty, _attrs in sts[0].fields:
        got.setdefault(fname, set()).add(repr(em.ty_of_ast(fty)))
    exp = {f: repr(t[2]) for f, t in expected.items()}
    if set(got) != set(exp):
        raise TranslateError("struct %s: fields %s, the vocabulary models %s" % (name, sorted(got), sorted(exp)))
    for f in exp:
        if got[f] != {exp[f]}:
            raise TranslateError("struct %s.%s: type %s, the vocabulary models %s" % (name, f, sorted(got[f]), exp[f]))


def translate(src, vocab, targets, header, requires, shapes=None):
    """targets: list of (fn name, impl struct or None, coq name, opts) in dependency order.
    Returns the text of the generated .v file."""
    try:
        items = parse_file(src)
    except (ParseError, LexError) as e:
        raise TranslateError("parse error: %s" % e)
    em = Emitter(vocab, items)
    if shapes is not None:
        em.fn_shapes = shapes
    for sname, st in vocab.get("structs", {}).items():
        if st.get("check", True):
            check_struct(items, sname, st["fields"], em)
    for key, want in vocab.get("opaque", {}).items():
        impl_of, fname = key.split("::") if "::" in key else (None, key)
        h = token_hash(fn_source(src, fname, impl_of))
        if h != want:
            raise TranslateError("opaque function %s changed (token hash %s, pinned %s): it is modelled by hand and must be re-read" % (key, h, want))
    out = [header, requires, ""]
    for fname, impl_of, coq_name, opts in targets:
        try:
            fn = find_fn(items, fname, impl_of, opts.get("trait"), opts.get("trait_arg"), opts.get("target_arg"))
        except KeyError as e:
            if opts.get("if_absent") is not None and str(e).strip("'\"").endswith(": 0 definitions found"):
                # optional target option `if_absent: callable(coq name) -> Gallina text` -- for a PRIVATE helper only (a caller
                # of the generator's choice; a pub fn that disappears is the item skeleton's alarm, tools/gen_shape.py): a
                # private function that no longer exists has been merged into / replaced by other private code, which the
                # translations of its callers inline (Emitter.inline_call) -- the callers' proofs are the check.  The text
                # keeps the Coq name defined (a stand-in the generator states openly); it gets NO entry in fn_shapes, so no
                # translated call can reach it.
                out.append("(* %s%s: no such function in the source (a private helper; its callers are translated with the code that replaced it inlined) *)"
                           % ((impl_of + "::") if impl_of else "", fname))
                out.append(opts["if_absent"](coq_name))
                out.append("")
                continue
            raise TranslateError(str(e))
        try:
            if opts.get("rec_fuel") is not None:
                # a function that calls itself: Fixpoint over a fuel argument (emit_fn)
                text, shape = em.emit_fn(fn, impl_of, coq_name, opts.get("monadic", False), rec_fuel=opts["rec_fuel"])
            else:
                text, shape = em.emit_fn(fn, impl_of, coq_name, opts.get("monadic", False))
        except EmitError as e:
            raise TranslateError("%s%s: %s" % ((impl_of + "::") if impl_of else "", fname, e))
        key = opts.get("key") or ((impl_of + "::" if impl_of else "") + fname)
        REGISTRY.append(("translated", _sha(src), fn, coq_name))
        em.fn_shapes[key] = shape
        out.append("(* %s *)" % key)
        out.append(text)
        out.append("")
    return "\n".join(out)
