"""AST -> Gallina.

Translation scheme (DESIGN.md section 12):
  * every Rust value is a Gallina value: integers are N (i32: Z), slices / arrays /
    Vec are lists, Option is option, tuples are products, enums and structs are
    the inductive types / records the vocabulary names;
  * `&mut` places (self, &mut parameters, `let mut` locals) are threaded: a
    function returns the new values of its `&mut self` / `&mut` parameters next
    to its result; assignments rebind (SSA) and control flow joins through local
    continuations (`let k := fun .. => .. in`);
  * every operation that can panic (index, slice, checked arithmetic, unwrap)
    is a bind in the option monad (`x <- e ;; ..`, Model/Base.v);
  * loops use the combinators of Model/Imp.v.
Anything outside the supported subset raises EmitError (-> GEN-ERROR)."""
from .rparser import N, parse_macro_args, parse_matches_macro

INLINED = []          # fn nodes inlined at a call site (read by tools/inventory.py)


def rename_ident(x, a, b):
    """copy of the AST `x` with the variable `a` read as `b` (paths of one segment and identifier tokens of macro
    arguments); a pattern that binds `a` again is an error (for `reborrow_lets`)"""
    from .lexer import Tok
    if isinstance(x, list):
        return [rename_ident(y, a, b) for y in x]
    if isinstance(x, tuple):
        return tuple(rename_ident(y, a, b) for y in x)
    if isinstance(x, Tok):
        return Tok(x.kind, b, x.pos, x.val) if x.kind == "ident" and x.text == a else x
    if not isinstance(x, N):
        return x
    if x.kind == "pident" and x.name == a:
        raise EmitError("reborrow_lets: %s is bound again while it stands for %s" % (a, b))
    y = N(x.kind)
    for kk, vv in x.__dict__.items():
        if kk == "kind":
            continue
        if kk == "segs" and x.kind == "path" and vv == [a]:
            y.segs = [b]
        else:
            setattr(y, kk, rename_ident(vv, a, b))
    return y


class ClosureTy(tuple):
    """the type ("closure", captured, parameter types) of a closure value; `.ret` = the type of its body's value"""
    ret = None


class EmitError(Exception):
    pass


class NeedsBind(Exception):
    pass


class NotMapIter(Exception):
    """map_iter_uses: the variable is used otherwise than by `.next()` / `for`"""


# ---------------------------------------------------------------------------
# types

INT = lambda w: ("int", w)
BOOL = ("bool",)
UNIT = ("unit",)
UNKNOWN = ("unknown",)
INT_NAMES = {"u8", "u16", "u32", "u64", "u128", "usize", "i8", "i16", "i32", "i64", "isize", "char"}
WIDTH = {"u8": 8, "u16": 16, "u32": 32, "u64": 64, "usize": 64}


def is_int(t):
    return t[0] == "int"


def is_signed(t):
    return t[0] == "int" and t[1].startswith("i")


class Var:
    _n = [0]

    def __init__(self, coq, ty, mut=False, decl=None):
        self.coq = coq
        self.ty = ty
        self.mut = mut
        if decl is None:
            Var._n[0] += 1
            decl = Var._n[0]
        self.decl = decl


class Env:
    def __init__(self, em, vars=None, outer=None):
        self.em = em
        self.vars = dict(vars or {})
        # variables hidden by a later binding of the same name (decl -> Var): a shadowed variable
        # keeps its value, and a loop / join that carries it must still find it
        self.outer = dict(outer or {})

    def copy(self):
        return Env(self.em, self.vars, self.outer)

    def bind(self, name, coq, ty, mut=False):
        e = self.copy()
        old = e.vars.get(name)
        if old is not None:
            e.outer[old.decl] = old
        e.vars[name] = Var(coq, ty, mut)
        return e

    def by_decl(self, name, decl):
        """the variable declared as `decl` (named `name` unless shadowed)"""
        v = self.vars.get(name)
        if v is not None and v.decl == decl:
            return v
        return self.outer.get(decl, v)

    def rebind(self, name, coq):
        e = self.copy()
        v = self.vars[name]
        e.vars[name] = Var(coq, v.ty, v.mut, v.decl)
        return e

    def get(self, name):
        return self.vars.get(name)


class Ctl:
    """continuations of the enclosing function / loop"""

    def __init__(self, ret, brk=None, cont=None):
        self.ret = ret        # ret(env, term, ty) -> str
        self.brk = brk        # brk(env) -> str
        self.cont = cont      # cont(env) -> str

    def in_loop(self, brk, cont):
        return Ctl(self.ret, brk, cont)


def ind(s, n=2):
    pad = " " * n
    return "\n".join(pad + l if l else l for l in s.split("\n"))


class Emitter:
    def __init__(self, vocab, items):
        self.v = vocab
        self.items = items
        self.counter = {}
        self.pure_mode = 0
        self.fn_shapes = {}       # name -> dict(coq, params, outs, ret, total)
        self.self_struct = None
        self.join_id = 0
        self.pending = {}
        # optional vocabulary key `drops`: destructors of temporaries (lock guards) that vocabulary callables have
        # registered (`em.drops.append(callable(env, k))`); run at the end of the enclosing temporary scope
        # (statement, match arm, tail expression of a block), see flush_drops
        self.drops = []
        # every identifier the vocabulary mentions is reserved (a Rust variable of the same
        # name gets a numeric suffix), plus the combinators of Model/Base.v and Model/Imp.v
        import re
        words = set("aget aset slice csub cadd cmul ci32 len is_empty split_at position_st for_list for_list0 while_fuel while_fuel0 "
                    "range_from fst snd negb length nth app rev map tt true false Some None inl inr "
                    "LNext LBreak LRet BNext BBreak is_ascii is_ascii_whitespace opt_is_none opt_is_some opt_unwrap_or".split())

        def walk(x):
            if isinstance(x, str):
                words.update(re.findall(r"[A-Za-z_][A-Za-z0-9_']*", x))
            elif isinstance(x, dict):
                for kk, vv in x.items():
                    if kk not in ("fuel",):
                        walk(vv)
            elif isinstance(x, (list, tuple)):
                for y in x:
                    walk(y)
        walk({k: v for k, v in vocab.items() if k in ("enums", "structs", "consts", "sinks", "fns", "methods", "features", "config_param", "reserved", "iter_conv")})
        self.reserved = words

    # the vocabulary key `result` has two forms: {err: <coq type>} -- io::Result<T> as the sum T + err
    # (inl / inr); {coq, ok, err} -- a two-constructor inductive
    def res_sum(self):
        r = self.v.get("result")
        return bool(r) and "coq" not in r

    def res_ind(self):
        r = self.v.get("result")
        return bool(r) and "coq" in r

    # -- names ---------------------------------------------------------------
    def fresh(self, base):
        base = base.strip("_") or "x"
        if base in ("fun", "match", "if", "then", "else", "let", "in", "end", "with", "fix", "return", "as", "at", "Some", "None", "Type", "Set", "Prop", "forall", "exists", "len", "length", "slice"):
            base = base + "_"
        n = self.counter.get(base, 0)
        self.counter[base] = n + 1
        return base if n == 0 else "%s%d" % (base, n)

    # -- types ---------------------------------------------------------------
    def ty_of_ast(self, ty):
        if ty is None:
            return UNIT
        f = ty.form
        if f == "emitted":
            return ty.ty        # internal node: a type the emitter computed itself (range_chain)
        if f in ("ref", "ptr"):
            return self.ty_of_ast(ty.inner)
        if f in ("slice", "array"):
            return ("list", self.ty_of_ast(ty.inner))
        if f == "tuple":
            if not ty.elems:
                return UNIT
            return ("tuple", tuple(self.ty_of_ast(t) for t in ty.elems))
        if f == "never":
            return ("never",)
        if f == "opaque":
            # optional vocabulary key `opaque_types: {text without blanks: type}`: what a `dyn Trait` / `impl Trait`
            # type is modelled as (`&mut dyn std::io::Write` -> the scripted writer), whatever the parameter is called
            got = self.v.get("opaque_types", {}).get(ty.text.replace(" ", ""), UNKNOWN)
            if got == UNKNOWN and ty.text == "fn" and getattr(ty, "params", None) is not None:
                # a function pointer `fn(T, &U) -> R` over types of the vocabulary: a "fnval" (applied like a shape, e_call);
                # a `&mut` parameter or an unknown type leaves it unknown
                if any(p.form == "ref" and p.mut for p in ty.params):
                    return UNKNOWN
                pts = [self.ty_of_ast(p) for p in ty.params]
                rt = self.ty_of_ast(ty.ret)
                if all(self.table_elt_known(t) for t in pts + [rt]):
                    return ("fnval", tuple(("in", t) for t in pts), rt, True)
            return got
        if f == "path":
            name = ty.segs[-1]
            gt = self.v.get("generic_types")
            if gt and getattr(ty, "args", None):
                # optional vocabulary key `generic_types: {"Name<Arg,..>": type}`: instances of a generic type that are
                # modelled by different types (`Set<Attribute>` / `Set<Quirk>`)
                from .rparser import type_name as _tn
                gk = "%s<%s>" % (name, ",".join(_tn(a) or "?" for a in ty.args))
                if gk in gt:
                    return gt[gk]
            al = self.v.get("type_alias", {})
            if "::".join(ty.segs) in al:
                # a type alias keyed by the whole path (`colorchoice::ColorChoice` next to clap's `ColorChoice`)
                return al["::".join(ty.segs)]
            if name in al:
                return al[name]
            if name in INT_NAMES:
                return INT(name)
            if name == "bool":
                return BOOL
            if name == "Self" and self.self_struct:
                if self.self_struct not in self.v.get("structs", {}) and self.self_struct in self.v.get("enums", {}):
                    return ("enum", self.self_struct)      # `impl <enum>`
                return ("struct", self.self_struct)
            if name == "Option" and ty.args:
                return ("opt", self.ty_of_ast(ty.args[0]))
            if name in ("Vec", "VecDeque", "ArrayVec") and ty.args:
                return ("list", self.ty_of_ast(ty.args[0]))
            if name == "Box" and ty.args:
                return self.ty_of_ast(ty.args[0])     # Box<T> is T (ownership is not modelled)
            if name == "Result" and ty.args and self.res_sum():
                # io::Result<T> (vocabulary key `result`): the sum  T + <error type>
                return ("res", self.ty_of_ast(ty.args[0]))
            if name == "Result" and self.res_ind() and ty.args and len(ty.args) == 2:
                # optional vocabulary key `result`: {coq, ok, err} -- a two-constructor inductive
                return ("result", self.ty_of_ast(ty.args[0]), self.ty_of_ast(ty.args[1]))
            if name in self.v.get("enums", {}):
                return ("enum", name)
            if name in self.v.get("structs", {}):
                return ("struct", name)
            return UNKNOWN
        return UNKNOWN

    def coq_ty(self, t):
        k = t[0]
        if k == "int":
            return "Z" if is_signed(t) else "N"
        if k == "bool":
            return "bool"
        if k == "unit":
            return "unit"
        if k == "enum":
            return self.v["enums"][t[1]]["coq"]
        if k == "struct":
            return self.v["structs"][t[1]]["coq"]
        if k == "opt":
            return "(option %s)" % self.coq_ty(t[1])
        if k in ("list", "iter"):
            # ("iter", T): a consuming iterator over a Vec (`v.into_iter()`), modelled as the list of the elements
            # still to come; a type of its own so that `next` is only ever a vocabulary method of such a value
            return "(list %s)" % self.coq_ty(t[1])
        if k == "tuple":
            return "(" + " * ".join(self.coq_ty(x) for x in t[1]) + ")"
        if k == "coq":
            return t[1]
        if k == "sink":
            return self.v["sinks"][t[1]]["coq"]
        if k == "res":
            return "(%s + %s)" % (self.coq_ty(t[1]), self.v["result"]["err"])
        if k == "result" and self.res_ind():
            return "(%s %s %s)" % (self.v["result"]["coq"], self.coq_ty(t[1]), self.coq_ty(t[2]))
        if k == "fnval":
            # a function value ("fnval", ((mode, type), ..), result type, total): the type of its state-passing translation
            outs = [self.coq_ty(x) for m, x in t[1] if m == "inout"] + ([self.coq_ty(t[2])] if t[2] != UNIT else [])
            r = (outs[0] if len(outs) == 1 else "(" + " * ".join(outs) + ")") if outs else "unit"
            return "(" + " -> ".join([self.coq_ty(x) for _m, x in t[1]] + [r if t[3] else "option " + r]) + ")"
        return "_"

    # -- monad helpers -------------------------------------------------------
    def bind(self, term, ty, env, k, hint="x"):
        """x <- term ;; k(x)"""
        if self.pure_mode:
            raise NeedsBind()
        x = self.fresh(hint)
        return "%s <- %s ;;\n%s" % (x, term, k(x, ty, env))

    def try_pure(self, e, env):
        """(term, ty) if the expression needs no bind and no rebinding, else None"""
        self.pure_mode += 1
        saved = dict(self.counter)
        try:
            box = []

            def k(t, ty, env2):
                if env2.vars is not env.vars and any(env2.vars[n].coq != env.vars[n].coq for n in env.vars if n in env2.vars):
                    raise NeedsBind()
                box.append((t, ty))
                return "\x00PURE\x00"
            out = self.expr(e, env, k)
            if out != "\x00PURE\x00" or len(box) != 1:
                raise NeedsBind()
            return box[0]
        except NeedsBind:
            self.counter = saved
            return None
        finally:
            self.pure_mode -= 1

    # -- places --------------------------------------------------------------
    def place_root(self, e):
        """name of the variable a place expression is rooted at, or None"""
        while True:
            if e.kind == "path" and len(e.segs) == 1:
                return e.segs[0]
            if e.kind in ("field", "tfield", "index"):
                e = e.e
            elif e.kind == "unary" and e.op in ("*", "&", "&mut"):
                e = e.e
            elif e.kind == "paren":
                e = e.e
            elif e.kind == "mcall" and e.name in ("as_mut", "as_ref", "by_ref", "borrow_mut") and not e.args:
                e = e.recv
            elif e.kind == "mcall" and not e.args and e.name in self.v.get("transparent_places", ()):
                e = e.recv
            elif e.kind == "mcall" and not e.args and e.name in self.v.get("place_writers", {}):
                e = e.recv
            else:
                return None

    def flush_drops(self, mark, env, k):
        """run (innermost first) the destructors registered since `mark`, then k(env')"""
        if len(self.drops) <= mark:
            return k(env)
        d = self.drops.pop()
        return d(env, lambda env1: self.flush_drops(mark, env1, k))

    def field_info(self, sty, fname):
        if sty[0] != "struct":
            raise EmitError("field .%s of a value of type %r" % (fname, sty))
        st = self.v["structs"][sty[1]]
        if fname not in st["fields"]:
            raise EmitError("struct %s has no modelled field %s" % (sty[1], fname))
        return st["fields"][fname]      # (getter, setter, type)

    def write_place(self, place, term, env, k):
        """place := term ; k(env')"""
        if place.kind == "paren":
            return self.write_place(place.e, term, env, k)
        if place.kind == "unary" and place.op in ("*", "&mut"):
            # `*p = ..`, and an argument `&mut place` written back after a call
            return self.write_place(place.e, term, env, k)
        if place.kind == "unary" and place.op == "&mut":
            # `&mut place` handed to a `&mut` parameter: the callee's new value goes back to the place
            return self.write_place(place.e, term, env, k)
        if place.kind == "mcall" and not place.args and place.name in self.v.get("transparent_places", ()):
            # vocabulary `transparent_places`: methods that hand out a write-through view of their receiver
            return self.write_place(place.recv, term, env, k)
        if place.kind == "mcall" and not place.args and place.name in self.v.get("place_writers", {}):
            # optional vocabulary key `place_writers: {method: callable(em, place, term, env, k)}`: a method that hands
            # out a view of a PART of its receiver (a lock guard over the writer inside a locked stream); the
            # callable says how a new value of the view goes back into the receiver
            return self.v["place_writers"][place.name](self, place, term, env, k)
        if place.kind == "path" and len(place.segs) == 1:
            name = place.segs[0]
            v = env.get(name)
            if v is None:
                raise EmitError("assignment to unknown variable %s" % name)
            n = self.fresh(v.coq.rstrip("0123456789") or name)
            return "let %s := %s in\n%s" % (n, term, k(env.rebind(name, n)))
        if place.kind == "field":
            def k1(base, bty, env1):
                getter, setter, fty = self.field_info(bty, place.name)
                return self.write_place(place.e, "(%s %s %s)" % (setter, base, term), env1, k)
            return self.expr(place.e, env, k1)
        if place.kind == "tfield":
            # field of a tuple struct (vocabulary field name = the index as a string)
            def k1(base, bty, env1):
                getter, setter, fty = self.field_info(bty, str(place.idx))
                return self.write_place(place.e, "(%s %s %s)" % (setter, base, term), env1, k)
            return self.expr(place.e, env, k1)
        if place.kind == "index":
            def k1(base, bty, env1):
                def k2(idx, ity, env2):
                    return self.bind("aset %s %s %s" % (base, idx, term), bty, env2,
                                     lambda x, _t, env3: self.write_place(place.e, x, env3, k), hint="arr")
                return self.expr(place.idx, env1, k2)
            return self.expr(place.e, env, k1)
        raise EmitError("unsupported assignment target %s" % place.kind)

    # -- expressions ---------------------------------------------------------
    def exprs(self, es, env, k):
        """translate a list of expressions left to right; k(terms, tys, env)"""
        def go(i, terms, tys, env1):
            if i == len(es):
                return k(terms, tys, env1)
            return self.expr(es[i], env1, lambda t, ty, env2: go(i + 1, terms + [t], tys + [ty], env2))
        return go(0, [], [], env)

    def lit(self, val, ty):
        if is_signed(ty):
            return "(%d)%%Z" % val if val < 0 else "%d%%Z" % val
        return str(val)

    def expr(self, e, env, k, expect=None):
        m = getattr(self, "e_" + e.kind, None)
        if m is None:
            raise EmitError("unsupported expression kind %s" % e.kind)
        if e.kind in ("int",):
            return m(e, env, k, expect)
        return m(e, env, k)

    def e_term(self, e, env, k):
        """an already translated term (internal node, see e_mcall)"""
        return k(e.term, e.ty, env)

    def e_paren(self, e, env, k):
        return self.expr(e.e, env, k)

    def e_int(self, e, env, k, expect=None):
        # optional vocabulary key `int_lit_default: {fn key: int type name}`: the type an unsuffixed literal WITHOUT a typing
        # context adopts inside that function (rustc infers it, e.g. from the return type `(i8, T)`); default usize
        dflt = self.v.get("int_lit_default", {}).get(getattr(self, "cur_fn", None), "usize") if "int_lit_default" in self.v else "usize"
        ty = INT(e.suffix) if e.suffix else (expect if expect and is_int(expect) else INT(dflt))
        return k(self.lit(e.val, ty), ty, env)

    def e_bool(self, e, env, k):
        return k("true" if e.val else "false", BOOL, env)

    def e_charlit(self, e, env, k):
        return k(str(e.val), INT("char"), env)

    def e_str(self, e, env, k):
        if self.v.get("str_chars") and e.kind == "str":
            # optional vocabulary key `str_chars: <type>`: a &str literal is the list of its code points
            # (a Rust String as its sequence of chars), of the given type
            cps = [ord(c) for c in bytes(e.val).decode("utf-8")]
            return k("[" + "; ".join(str(c) for c in cps) + "]", self.v["str_chars"], env)
        return k("[" + "; ".join(str(b) for b in e.val) + "]", ("list", INT("u8")), env)

    e_bstr = e_str

    def e_path(self, e, env, k):
        segs = e.segs
        full = self.v.get("paths", {}).get("::".join(segs))
        if full is not None:
            # optional vocabulary key `paths: {whole path: (term, type)}` (wins over the last-two-segments lookup)
            return k(full[0], full[1], env)
        if len(segs) == 1:
            v = env.get(segs[0])
            if v is not None:
                return k(v.coq, v.ty, env)
            c = self.v.get("consts", {}).get(segs[0])
            if c is not None:
                return k(c[0], c[1], env)
            if segs[0] == "None":
                return k("None", ("opt", UNKNOWN), env)
            sc = self.source_const(segs[0])
            if sc is not None:
                return self.e_source_const(sc, env, k)
            raise EmitError("unknown name %s" % segs[0])
        if len(segs) >= 2:
            en = self.v.get("enums", {}).get(segs[-2])
            if en is not None and segs[-1] in en["variants"]:
                return k(en["variants"][segs[-1]], ("enum", segs[-2]), env)
            if segs == ["Self", segs[-1]] and self.self_struct is not None:
                # `Self::Variant` inside an (inlined) method of a vocabulary enum
                en = self.v.get("enums", {}).get(self.self_struct)
                if en is not None and segs[-1] in en["variants"]:
                    return k(en["variants"][segs[-1]], ("enum", self.self_struct), env)
            c = self.v.get("consts", {}).get("::".join(segs[-2:]))
            if c is not None:
                return k(c[0], c[1], env)
            c = self.v.get("consts", {}).get(segs[-1])
            if c is not None:
                return k(c[0], c[1], env)
            if all(q in ("crate", "self", "super") for q in segs[:-1]):
                sc = self.source_const(segs[-1])
                if sc is not None:
                    return self.e_source_const(sc, env, k)
        raise EmitError("unknown path %s" % "::".join(segs))

    # -- named scalar constants of the source ----------------------------------
    # A name that is neither a variable nor a vocabulary constant but an item-level `const NAME: <int | bool> = <expr>;`
    # of the parsed source (or of `inline_sources`) is translated by its VALUE expression, at the declared type, like a
    # local `const` item (stmts): giving a literal a name (`const FIRST: usize = 16;`) then yields the term the literal
    # gave, and a constant whose value changes changes the term.  Tables / struct-valued constants are data and stay
    # with the vocabulary (`consts`); a `static` is never read this way.
    def source_const(self, name):
        hits = [it for it in self._all_items() if it.kind == "const" and it.name == name]
        if len(hits) != 1:
            return None       # none, or cfg-dependent alternatives: stays an unknown name
        it = hits[0]
        if getattr(it, "static", False) or it.val is None or it.ty is None:
            return None
        try:
            ty = self.ty_of_ast(it.ty)
        except EmitError:
            return None
        if ty[0] not in ("int", "bool") and not self.source_table(it, ty):
            return None
        return (it, ty)

    # -- private tables of the source ------------------------------------------
    # An item-level `const NAME: [T; n] = [ .. ];` that is NOT vocabulary (`consts`) is read like a named scalar: by its
    # VALUE, every entry translated in an empty environment at the declared element type (e_source_const compares the
    # two), so the table is DATA read off the source -- a changed / dropped / reordered entry changes the term.  Only a
    # literal array whose element type is fully known to the vocabulary (integers, bools, vocabulary structs / enums,
    # tuples of those; function pointers over those: fn_value) qualifies; anything else stays an unknown name.
    def source_table(self, it, ty):
        if ty[0] != "list" or it.val.kind != "array" or not it.val.elems:
            return False
        return self.table_elt_known(ty[1])

    def table_elt_known(self, t):
        if t[0] in ("int", "bool", "struct", "enum"):
            return True
        if t[0] == "fnval":
            return all(self.table_elt_known(x[1]) for x in t[1]) and self.table_elt_known(t[2])
        if t[0] == "tuple":
            return all(self.table_elt_known(x) for x in t[1])
        return False

    def table_entry(self, e, ty, cname):
        """one entry of a private table of the source at its declared type, in an empty environment"""
        while e.kind == "paren":
            e = e.e
        if ty[0] == "tuple":
            if e.kind != "tuple" or len(e.elems) != len(ty[1]):
                raise EmitError("constant %s: an entry is not a %d-tuple" % (cname, len(ty[1])))
            return "(" + ", ".join(self.table_entry(x, t, cname) for x, t in zip(e.elems, ty[1])) + ")"
        if ty[0] == "fnval":
            return self.fn_value(e, ty, cname)
        pr = self.try_pure(e, Env(self))
        if pr is None:
            raise EmitError("constant %s: an entry is not a constant expression of the vocabulary" % cname)
        if pr[1] != ty:
            raise EmitError("constant %s: declared %r, an entry is a %r" % (cname, ty, pr[1]))
        return pr[0]

    def fn_value(self, e, ty, cname):
        """a PATH used as a function pointer of type `ty` (a "fnval"): a method of a vocabulary type written
        `<type path>::<method>` (optional vocabulary key `method_paths: {whole path: (type name, method)}`; the method
        is applied to a variable exactly as `x.method()` would be and abstracted: `(fun x => <x.method()>)`), or a
        translated free function of the source with the same parameter / result types"""
        if e.kind != "path":
            raise EmitError("constant %s: a function-pointer entry is not a path" % cname)
        path = "::".join(e.segs)
        mp = self.v.get("method_paths", {}).get(path)
        if mp is not None:
            tname, mname = mp
            if len(ty[1]) != 1 or ty[1][0] != ("in", ("struct", tname)):
                raise EmitError("constant %s: %s as a %r" % (cname, path, ty))
            x = self.fresh("t")
            pr = self.try_pure(N("mcall", recv=N("term", term=x, ty=("struct", tname)), name=mname, args=[]), Env(self))
            if pr is None or pr[1] != ty[2]:
                raise EmitError("constant %s: %s is not a total method answering %r" % (cname, path, ty[2]))
            return "(fun %s => %s)" % (x, pr[0])
        sh = self.fn_shapes.get(path) if len(e.segs) == 1 else None
        if sh is not None and not sh.get("self") and not sh.get("cfg") and sh.get("total") \
                and tuple(sh["params"]) == tuple(ty[1]) and sh["ret"] == ty[2]:
            return sh["coq"]
        raise EmitError("constant %s: function pointer %s is not in the vocabulary" % (cname, path))

    # -- effect-free closures as Gallina functions --------------------------------
    def pure_fun(self, cl, elts, env, what):
        """a closure that neither panics nor assigns -> (Gallina function, result type); `elts`: the type of its
        parameter, or the list of the types of its parameters.  A parameter is a name or a tuple pattern of names / `_`
        (`|(effect, _)|`, `|&(_, class)|`, `|style, (_, set)|`)."""
        if not isinstance(elts, list):
            elts = [elts]
        if cl is None or cl.kind != "closure" or len(cl.params) != len(elts):
            raise EmitError("%s needs a %d-parameter closure" % (what, len(elts)))
        env2 = env
        heads = []
        for (p, _pty), elt in zip(cl.params, elts):
            while p.kind == "pref":
                p = p.inner
            if p.kind == "pident":
                c = self.fresh(p.name)
                env2 = env2.bind(p.name, c, elt)
                heads.append(c)
            elif p.kind == "ptuple":
                tys = elt[1] if elt[0] == "tuple" and len(elt[1]) == len(p.elems) else None
                if tys is None:
                    raise EmitError("%s: tuple pattern against %r" % (what, elt))
                names = []
                for x, t in zip(p.elems, tys):
                    while x.kind == "pref":
                        x = x.inner
                    if x.kind == "pwild":
                        names.append("_")
                    elif x.kind == "pident":
                        c = self.fresh(x.name)
                        names.append(c)
                        env2 = env2.bind(x.name, c, t)
                    else:
                        raise EmitError("%s: closure parameter pattern" % what)
                heads.append("'(" + ", ".join(names) + ")")
            else:
                raise EmitError("%s: closure parameter pattern" % what)
        pr = self.try_pure(cl.body, env2)
        if pr is None:
            raise EmitError("%s: the closure can panic or assigns a captured variable" % what)
        return "(fun %s => %s)" % (" ".join(heads), pr[0]), pr[1]

    def e_source_const(self, sc, env, k):
        it, ty = sc
        if ty[0] == "list":
            return k("[" + "; ".join(self.table_entry(x, ty[1], it.name) for x in it.val.elems) + "]", ty, env)
        stack = getattr(self, "const_stack", [])
        if it.name in stack:
            raise EmitError("constant %s is defined in terms of itself" % it.name)
        self.const_stack = stack + [it.name]
        try:
            # the value sees no variable of the function it is used in
            cell = []
            rest = self.expr(it.val, Env(self), lambda t, vty, _e: cell.append((t, vty)) or "\0", expect=ty)
        finally:
            self.const_stack = stack
        if rest != "\0" or len(cell) != 1:
            raise EmitError("constant %s: its value is not a plain expression" % it.name)
        t, vty = cell[0]
        if vty != ty and vty != UNKNOWN:
            raise EmitError("constant %s: declared %r, its value is a %r" % (it.name, ty, vty))
        return k(t, ty, env)

    def e_field(self, e, env, k):
        def k1(base, bty, env1):
            getter, setter, fty = self.field_info(bty, e.name)
            return k("(%s %s)" % (getter, base), fty, env1)
        return self.expr(e.e, env, k1)

    def e_tfield(self, e, env, k):
        def k1(base, bty, env1):
            if bty[0] == "tuple" and len(bty[1]) == 2:
                return k("(%s %s)" % ("fst" if e.idx == 0 else "snd", base), bty[1][e.idx], env1)
            if bty[0] == "struct":
                getter, setter, fty = self.field_info(bty, str(e.idx))
                return k("(%s %s)" % (getter, base), fty, env1)
            raise EmitError("tuple field .%d of %r" % (e.idx, bty))
        return self.expr(e.e, env, k1)

    def e_tuple(self, e, env, k):
        if not e.elems:
            return k("tt", UNIT, env)
        return self.exprs(e.elems, env, lambda ts, tys, env1: k("(" + ", ".join(ts) + ")", ("tuple", tuple(tys)), env1))

    def e_array(self, e, env, k):
        return self.exprs(e.elems, env, lambda ts, tys, env1: k("[" + "; ".join(ts) + "]", ("list", tys[0] if tys else UNKNOWN), env1))

    def e_arrayrep(self, e, env, k):
        # `[v; n]` with a literal length: n copies of v (the element adopts its suffix type, e.g. `[0u8; 19]`)
        if e.n.kind != "int":
            raise EmitError("array repeat expression with a computed length")
        return self.expr(e.e, env, lambda t, ty, env1: k("(repeat %s %d%%nat)" % (t, e.n.val), ("list", ty), env1))

    def e_unary(self, e, env, k):
        if e.op in ("&", "&mut", "*"):
            return self.expr(e.e, env, k)
        if e.op == "!":
            def k1(t, ty, env1):
                if ty == BOOL:
                    return k("(negb %s)" % t, BOOL, env1)
                if is_int(ty) and not is_signed(ty) and ty[1] in WIDTH:
                    # `!x` on an unsigned integer: complement at the width of the type
                    # (`a & !b` reads N.land a (N.lnot b w), which is N.ldiff a b for a < 2^w)
                    return k("(N.lnot %s %d)" % (t, WIDTH[ty[1]]), ty, env1)
                raise EmitError("bitwise not on %r" % (ty,))
            return self.expr(e.e, env, k1)
        if e.op == "-":
            if e.e.kind == "int":
                ty = INT(e.e.suffix or "i32")
                return k(self.lit(-e.e.val, ty), ty, env)
            def k1(t, ty, env1):
                if is_signed(ty):
                    return self.bind("ci32 (- %s)" % t, ty, env1, k, hint="neg")
                raise EmitError("negation of %r" % (ty,))
            return self.expr(e.e, env, k1)
        raise EmitError("unary %s" % e.op)

    def e_cast(self, e, env, k):
        hook = self.v.get("cast_hook")
        if hook is not None:
            # optional vocabulary key `cast_hook`: callable(em, e, env, k) -> code | None (casts the subset
            # has no arithmetic for, e.g. through f64)
            r = hook(self, e, env, k)
            if r is not None:
                return r
        target = self.ty_of_ast(e.ty)
        def k1(t, ty, env1):
            if ty[0] == "enum" and is_int(target):
                disc = self.v["enums"][ty[1]].get("disc")
                if not disc:
                    raise EmitError("cast of enum %s to an integer: no discriminant function in the vocabulary" % ty[1])
                return k("(%s %s)" % (disc, t), target, env1)
            if ty == BOOL and is_int(target):
                return k("(if %s then 1 else 0)" % t, target, env1)
            if not (is_int(ty) and is_int(target)):
                raise EmitError("cast from %r to %r" % (ty, target))
            if is_signed(target) and not is_signed(ty):
                if WIDTH.get(ty[1], 64) < 32 or ty[1] == "char":
                    return k("(Z.of_N %s)" % t, target, env1)
                raise EmitError("cast %s -> %s may wrap" % (ty[1], target[1]))
            if is_signed(ty) and not is_signed(target):
                w = WIDTH.get(target[1])
                return k("(Z.to_N (%s mod %d))" % (t, 2 ** w), target, env1)
            if is_signed(ty) and is_signed(target):
                return k(t, target, env1)
            ws, wt = WIDTH.get(ty[1], 32 if ty[1] == "char" else 64), WIDTH.get(target[1], 32)
            if wt >= ws or (target[1] == "char" and ws <= 8):
                return k(t, target, env1)
            return k("(%s mod %d)" % (t, 2 ** wt), target, env1)
        # a literal adopts the target type
        if e.e.kind == "int" and not e.e.suffix:
            return k(self.lit(e.e.val, target), target, env)
        return self.expr(e.e, env, k1)

    CMP = {"==": "=?", "<": "<?", "<=": "<=?"}

    def fold_literal(self, e):
        """value of an expression built from unsuffixed integer literals only (rustc evaluates it at
        compile time, at the type inferred from the context), else None"""
        if e.kind == "paren":
            return self.fold_literal(e.e)
        if e.kind == "int":
            return e.val if not e.suffix else None
        if e.kind == "binary" and e.op in ("+", "-", "*", "<<"):
            a, b = self.fold_literal(e.l), self.fold_literal(e.r)
            if a is None or b is None:
                return None
            v = {"+": a + b, "-": a - b, "*": a * b, "<<": a << b if 0 <= b < 31 else -1}[e.op]
            # a constant that overflows is rejected by rustc (deny(arithmetic_overflow)); the narrowest
            # type it may adopt here is checked by the consumer (lit adopts the other operand's type)
            if not 0 <= v < 2 ** 31:
                raise EmitError("constant expression out of range")
            return v
        return None

    def e_binary(self, e, env, k):
        if self.v.get("fold_literals") and e.op not in ("&&", "||"):
            fl, fr = self.fold_literal(e.l), self.fold_literal(e.r)
            if (fl is not None and e.l.kind != "int") or (fr is not None and e.r.kind != "int"):
                e = N("binary", op=e.op,
                      l=N("int", val=fl, suffix=None) if fl is not None else e.l,
                      r=N("int", val=fr, suffix=None) if fr is not None else e.r)
        op = e.op
        if op in ("&&", "||"):
            def k1(a, aty, env1):
                pr = self.try_pure(e.r, env1)
                if pr is not None:
                    return k("(%s %s %s)" % (a, op, pr[0]), BOOL, env1)
                # the right operand can panic or rebinds: evaluate it only when needed
                return self.join_branches(
                    env1, k,
                    lambda kk: "if %s then\n%s\nelse\n%s" % (
                        a,
                        ind(self.expr(e.r, env1, kk) if op == "&&" else kk("true", BOOL, env1)),
                        ind(kk("false", BOOL, env1) if op == "&&" else self.expr(e.r, env1, kk))))
            return self.expr(e.l, env, k1)
        # literal operands adopt the other side's type
        def k1(a, aty, env1):
            def k2(b, bty, env2):
                ty = aty if aty != UNKNOWN else bty
                if op in ("==", "!=", "<", "<=", ">", ">="):
                    return k(self.compare(op, a, b, ty), BOOL, env2)
                return self.arith(op, a, b, ty, env2, k)
            if e.r.kind == "int" and not e.r.suffix:
                return k2(self.lit(e.r.val, aty if is_int(aty) else INT("usize")), aty, env1)
            return self.expr(e.r, env1, k2)
        if e.l.kind == "int" and not e.l.suffix and e.r.kind != "int":
            def kr(b, bty, env1):
                a = self.lit(e.l.val, bty if is_int(bty) else INT("usize"))
                if op in ("==", "!=", "<", "<=", ">", ">="):
                    return k(self.compare(op, a, b, bty), BOOL, env1)
                return self.arith(op, a, b, bty, env1, k)
            return self.expr(e.r, env, kr)
        return self.expr(e.l, env, k1)

    def compare(self, op, a, b, ty):
        sc = "%Z" if is_signed(ty) else ""
        if ty[0] == "enum":
            eqb = self.v["enums"][ty[1]].get("eqb")
            if not eqb or op not in ("==", "!="):
                raise EmitError("comparison %s on enum %s" % (op, ty[1]))
            t = "(%s %s %s)" % (eqb, a, b)
            return t if op == "==" else "(negb %s)" % t
        if ty == BOOL:
            t = "(Bool.eqb %s %s)" % (a, b)
            if op == "==":
                return t
            if op == "!=":
                return "(negb %s)" % t
            raise EmitError("ordering on bool")
        if ty[0] in ("struct", "opt", "tuple", "list"):
            eqb = self.eqb_of(ty)
            t = "(%s %s %s)" % (eqb, a, b)
            return t if op == "==" else "(negb %s)" % t
        if not is_int(ty):
            raise EmitError("comparison on %r" % (ty,))
        if op == "==":
            return "(%s =? %s)%s" % (a, b, sc)
        if op == "!=":
            return "(negb (%s =? %s)%s)" % (a, b, sc)
        if op == "<":
            return "(%s <? %s)%s" % (a, b, sc)
        if op == "<=":
            return "(%s <=? %s)%s" % (a, b, sc)
        if op == ">":
            return "(%s <? %s)%s" % (b, a, sc)
        if op == ">=":
            return "(%s <=? %s)%s" % (b, a, sc)
        raise EmitError(op)

    def eqb_of(self, ty):
        if ty[0] == "struct":
            eqb = self.v["structs"][ty[1]].get("eqb")
            if eqb:
                return eqb
        if ty[0] == "opt":
            inner = self.eqb_of(ty[1]) if ty[1][0] != "int" else "N.eqb"
            # optional vocabulary key `opt_eqb`: the area's name of #[derive(PartialEq)] of Option<T> over T's equality
            return "(%s %s)" % (self.v.get("opt_eqb", "opt_eqb"), inner)
        if ty == BOOL:
            return "Bool.eqb"
        if ty[0] == "enum":
            return self.v["enums"][ty[1]]["eqb"]
        if ty[0] == "int":
            return "Z.eqb" if is_signed(ty) else "N.eqb"
        raise EmitError("no decidable equality known for %r" % (ty,))

    def arith(self, op, a, b, ty, env, k):
        if ty == BOOL and op in ("|", "&", "^"):
            # `a | b` on bool: both operands are evaluated (no short circuit), which they have been here
            return k({"|": "(%s || %s)", "&": "(%s && %s)", "^": "(xorb %s %s)"}[op] % (a, b), BOOL, env)
        if not is_int(ty):
            hook = self.v.get("arith_hook")
            if hook is not None:
                # optional vocabulary key `arith_hook`: callable(em, op, a, b, ty, env, k) -> code | None for an
                # operator on a type that is no integer (`String + &str`)
                r = hook(self, op, a, b, ty, env, k)
                if r is not None:
                    return r
            if op == "|" and ty[0] == "struct":
                bo = self.v["structs"][ty[1]].get("bitor")
                if bo:
                    return k("(%s %s %s)" % (bo, a, b), ty, env)
            raise EmitError("arithmetic %s on %r" % (op, ty))
        w = ty[1]
        if is_signed(ty):
            if w != "i32":
                raise EmitError("signed arithmetic at width %s" % w)
            zop = {"+": "+", "-": "-", "*": "*", "/": "/"}.get(op)
            if zop is None:
                raise EmitError("i32 operator %s" % op)
            if op == "/":
                return self.bind("(if (%s =? 0)%%Z then None else ci32 (Z.quot %s %s))" % (b, a, b), ty, env, k, hint="q")
            return self.bind("ci32 (%s %s %s)%%Z" % (a, zop, b), ty, env, k, hint="z")
        if op == "-":
            return self.bind("csub %s %s" % (a, b), ty, env, k, hint="d")
        if op in ("+", "*"):
            if w in ("usize", "u64"):
                # address-sized arithmetic is modelled unbounded (DESIGN.md section 12: trusted base)
                return k("(%s %s %s)" % (a, op, b), ty, env)
            f = "cadd" if op == "+" else "cmul"
            return self.bind("%s %d %s %s" % (f, WIDTH[w], a, b), ty, env, k, hint="s")
        if op == "/":
            return self.bind("(if %s =? 0 then None else Some (%s / %s))" % (b, a, b), ty, env, k, hint="q")
        if op == "%":
            return self.bind("(if %s =? 0 then None else Some (%s mod %s))" % (b, a, b), ty, env, k, hint="r")
        if op == "&":
            return k("(N.land %s %s)" % (a, b), ty, env)
        if op == "|":
            return k("(N.lor %s %s)" % (a, b), ty, env)
        if op == "^":
            return k("(N.lxor %s %s)" % (a, b), ty, env)
        if op == ">>":
            return k("(N.shiftr %s %s)" % (a, b), ty, env)
        if op == "<<" and self.v.get("checked_shl") and w in WIDTH:
            # optional vocabulary key `checked_shl`: name of  w a i |-> option N  (None = the shift amount
            # is not below the width: a debug build panics)
            return self.bind("%s %d %s %s" % (self.v["checked_shl"], WIDTH[w], a, b), ty, env, k, hint="sh")
        if op == "<<":
            wd = WIDTH.get(w)
            return k("(N.shiftl %s %s mod %d)" % (a, b, 2 ** wd), ty, env)
        raise EmitError("operator %s" % op)

    def e_index(self, e, env, k):
        def k1(base, bty, env1):
            hook = self.v.get("index", {}).get(bty[1] if bty[0] in ("struct", "enum") else bty[0])
            if hook is not None:
                # vocabulary `index`: {type name: callable(em, e, base term, base type, env, k)}
                return hook(self, e, base, bty, env1, k)
            elt = bty[1] if bty[0] == "list" else UNKNOWN
            if e.idx.kind == "range" and e.idx.lo is None and e.idx.hi is None and bty[0] == "list":
                # `x[..]`: the whole slice (cannot panic)
                return k(base, bty, env1)
            if e.idx.kind == "range":
                sl_fn, sl_ty, sl_len = "slice", bty, "len"
                if bty[0] == "struct" and self.v["structs"][bty[1]].get("index_range"):
                    # optional struct key `index_range`: (slicing function, type of the slice)
                    sl_fn, sl_ty = self.v["structs"][bty[1]]["index_range"]
                    # optional struct key `index_len`: the length an open upper bound `&s[a..]` stands for (a str held as
                    # its code points: the BYTE length, not the length of the list)
                    sl_len = self.v["structs"][bty[1]].get("index_len", "len")

                def with_lo(lo, env2):
                    def with_hi(hi, env3):
                        return self.bind("%s %s %s %s" % (sl_fn, base, lo, hi), sl_ty, env3, k, hint="sl")
                    if e.idx.hi is None:
                        return with_hi("(%s %s)" % (sl_len, base), env2)
                    if e.idx.incl:
                        return self.expr(e.idx.hi, env2, lambda h, _t, env3: with_hi("(%s + 1)" % h, env3))
                    return self.expr(e.idx.hi, env2, lambda h, _t, env3: with_hi(h, env3))
                if e.idx.lo is None:
                    return with_lo("0", env1)
                return self.expr(e.idx.lo, env1, lambda l, _t, env2: with_lo(l, env2))
            return self.expr(e.idx, env1, lambda i, _t, env2: self.bind("aget %s %s" % (base, i), elt, env2, k, hint="el"))
        return self.expr(e.e, env, k1)

    # -- a range used as an iterator value: `(a..b).map(f).filter(g).find(h)` (also `.any(h)` / `.all(h)`) ------------
    # The chain is read as the loop it abbreviates (core::iter: `find` = try_for_each that stops at the first hit; the
    # adaptors `map` / `filter` are lazy, every closure is called once per position, in order, until the hit):
    #   { let mut found = None; for x in a..b { let y = f(x); if !g(&y) { continue; } if h(&y) { found = Some(y); break; } } found }
    # so the closures may read, assign, panic like any loop body and the translation is the one of that `for` loop.
    def pat_names(self, p, acc=None):
        acc = set() if acc is None else acc
        if isinstance(p, (list, tuple)):
            for y in p:
                self.pat_names(y, acc)
        elif isinstance(p, N):
            if p.kind == "pident":
                acc.add(p.name)
            for kk, vv in p.__dict__.items():
                if kk != "kind":
                    self.pat_names(vv, acc)
        return acc

    def idents_in(self, x, acc=None):
        """one-segment paths and identifier tokens (macro arguments) of an AST"""
        from .lexer import Tok
        acc = set() if acc is None else acc
        if isinstance(x, (list, tuple)):
            for y in x:
                self.idents_in(y, acc)
        elif isinstance(x, Tok):
            if x.kind == "ident":
                acc.add(x.text)
        elif isinstance(x, N):
            if x.kind == "path" and len(x.segs) == 1:
                acc.add(x.segs[0])
            for kk, vv in x.__dict__.items():
                if kk != "kind":
                    self.idents_in(vv, acc)
        return acc

    def probe_type(self, e, env):
        """the type of an expression, by a throw-away translation (names drawn meanwhile are given back)"""
        box = []
        saved = (dict(self.counter), self.ctl, self.pure_mode)
        try:
            self.expr(e, env, lambda t, ty, env1: (box.append(ty), "tt")[1])
        except NeedsBind:
            pass
        finally:
            self.counter, self.ctl, self.pure_mode = saved
        return box[0] if box else UNKNOWN

    def range_chain(self, e, env):
        """the block `e` abbreviates when it is `<range>[.map(c) | .filter(c)]*.find(c)` (`.any` / `.all`), else None"""
        stages = [(e.name, e.args[0])]
        r = e.recv
        while r.kind == "mcall" and r.name in ("map", "filter") and len(r.args) == 1 and r.args[0].kind == "closure":
            stages.append((r.name, r.args[0]))
            r = r.recv
        while r.kind == "paren":
            r = r.e
        if r.kind != "range" or r.lo is None or r.hi is None:
            return None
        stages.reverse()
        for _n, cl in stages:
            if len(cl.params) != 1:
                raise EmitError("iterator chain over a range: one-parameter closures expected")
        # a closure parameter must not be visible in a later closure (there it would shadow what that closure captures)
        seen = set()
        for _n, cl in stages:
            clash = (seen - self.pat_names(cl.params[0][0])) & self.idents_in(cl.body)
            if clash:
                raise EmitError("iterator chain over a range: the closure parameter %s is also captured by a later closure" % sorted(clash)[0])
            seen |= self.pat_names(cl.params[0][0])
        path = lambda n: N("path", segs=[n])
        let = lambda pat, init, ty=None: N("let", pat=pat, ty=ty, init=init, els=None, attrs=[])
        pid = lambda n, mut=False: N("pident", name=n, by_ref=False, mut=mut, sub=None)
        stmt = lambda x: N("expr", e=x, semi=True, attrs=[])
        blk = lambda ss, tail=None: N("block", stmts=ss, tail=tail)
        res = "__found" if e.name == "find" else "__holds"
        cur = "__pos"
        body = []
        elt = None          # the item type after the last `map` (None: the range's own integer type)
        n_map = 0
        for nm, cl in stages:
            pat = cl.params[0][0]
            if nm == "map":
                n_map += 1
                nxt = "__item%d" % n_map
                body.append(let(pid(nxt), blk([let(pat, path(cur))], cl.body)))
                cur = nxt
                elt = cl
            else:
                body.append(let(pat, path(cur)))
                if nm == "filter":
                    body.append(stmt(N("if", cond=N("unary", op="!", e=N("paren", e=cl.body)), then=blk([stmt(N("continue", label=None))]), els=None)))
                elif nm == "find":
                    hit = N("call", f=path("Some"), args=[path(cur)])
                    body.append(stmt(N("if", cond=cl.body, then=blk([stmt(N("assign", op="=", lhs=path(res), rhs=hit)), stmt(N("break", e=None, label=None))]), els=None)))
                else:
                    cond = cl.body if nm == "any" else N("unary", op="!", e=N("paren", e=cl.body))
                    body.append(stmt(N("if", cond=cond, then=blk([stmt(N("assign", op="=", lhs=path(res), rhs=N("bool", val=(nm == "any")))), stmt(N("break", e=None, label=None))]), els=None)))
        if e.name == "find":
            # the type of the hit: the range's integer type, or (after `map`) the type of what the maps compute
            ity = self.probe_type(r.hi, env)
            ity = ity if is_int(ity) else INT("usize")
            if elt is not None:
                pre = []
                c = "__pos"
                j = 0
                probe_env = env.bind("__pos", "pos", ity)
                for nm, cl in stages:
                    if nm == "map":
                        j += 1
                        pre.append(let(pid("__item%d" % j), blk([let(cl.params[0][0], path(c))], cl.body)))
                        c = "__item%d" % j
                ity = self.probe_type(blk(pre, path(c)), probe_env)
            init = let(pid(res, True), path("None"), N("ty", form="emitted", ty=("opt", ity)))
        else:
            init = let(pid(res, True), N("bool", val=(e.name == "all")))
        loop = N("for", pat=pid("__pos"), iter=r, body=blk(body), label=None)
        return blk([init, stmt(loop)], path(res))

    # -- `let it = <iterator>.map(closure);` where `it` is only consumed by `it.next()` and `for x in it` ---------------
    # core::iter::Map: `it.next()` = `<iterator>.next().map(closure)`, `for x in it { B }` = `for y in <iterator> { let x = closure(y); B }`
    # (the closure is called once per item, in order, just before the item is used), so the adaptor is written out at its uses.
    def map_iter_uses(self, x, name, src, cl, count):
        from .lexer import Tok
        if isinstance(x, list):
            return [self.map_iter_uses(y, name, src, cl, count) for y in x]
        if isinstance(x, tuple):
            return tuple(self.map_iter_uses(y, name, src, cl, count) for y in x)
        if isinstance(x, Tok):
            if x.kind == "ident" and x.text == name:
                raise NotMapIter("other use")
            return x
        if not isinstance(x, N):
            return x
        if x.kind == "pident" and x.name == name:
            raise NotMapIter("bound again")
        is_it = lambda y: isinstance(y, N) and y.kind == "path" and y.segs == [name]
        if x.kind == "mcall" and x.name == "next" and not x.args and is_it(x.recv):
            count.append("next")
            inner = N("mcall", recv=N("path", segs=[src]), name="next", args=[], targs=None)
            return N("mcall", recv=inner, name="map", args=[cl], targs=None)
        if x.kind == "for" and is_it(x.iter):
            count.append("for")
            body = self.map_iter_uses(x.body, name, src, cl, count)
            pat = cl.params[0][0]
            if self.pat_names(pat) & self.idents_in(body):
                raise EmitError("for over a mapped iterator: the closure parameter is also a variable of the loop body")
            first = N("let", pat=x.pat, ty=None, init=cl.body, els=None, attrs=[])
            return N("for", pat=pat, iter=N("path", segs=[src]), body=N("block", stmts=[first] + list(body.stmts), tail=body.tail), label=x.label)
        if is_it(x):
            raise NotMapIter("other use")
        y = N(x.kind)
        for kk, vv in x.__dict__.items():
            if kk != "kind":
                setattr(y, kk, self.map_iter_uses(vv, name, src, cl, count))
        return y

    def e_range(self, e, env, k):
        hook = self.v.get("range_hook")
        if hook is not None:
            # optional vocabulary key `range_hook`: callable(em, e, env, k) for a range used as a value
            return hook(self, e, env, k)
        raise EmitError("range expression outside an index / for loop")

    def e_structlit(self, e, env, k):
        name = e.segs[-1]
        sv = self.struct_variant(e.segs)
        if sv is not None:
            # `Enum::Variant { field: value, .. }` (optional enum key `struct_variants`): the values are evaluated in
            # the order written, the constructor takes them in the declared order
            ctor, fnames, ftys = sv
            ename = self.self_struct if e.segs[-2] == "Self" else e.segs[-2]
            if e.base is not None or sorted(f for f, _x in e.fields) != sorted(fnames):
                raise EmitError("struct variant %s: fields %r, expected %r" % ("::".join(e.segs), [f for f, _x in e.fields], fnames))
            written = [f for f, _x in e.fields]
            return self.exprs([x for _f, x in e.fields], env,
                              lambda ts, tys, env1: k("(%s %s)" % (ctor, " ".join(ts[written.index(f)] for f in fnames)), ("enum", ename), env1))
        if name == "Self":
            name = self.self_struct
        st = self.v.get("structs", {}).get(name)
        if st is None or "ctor" not in st:
            raise EmitError("struct literal %s: no constructor in the vocabulary" % name)
        order = st["ctor"][1]
        given = dict(e.fields)
        if e.base is not None and set(given) <= set(order) and len(given) == len(e.fields):
            return self.structlit_update(e, st, name, env, k)
        if e.base is not None or set(given) != set(order):
            raise EmitError("struct literal %s: fields %r, expected %r" % (name, sorted(given), order))
        vals = []
        for f in order:
            if self.default_call(given[f]) and "defaults" in self.v:
                # `field: Default::default()`: chosen by the field's type (vocabulary key defaults)
                fty = st["fields"][f][2]
                if repr(fty) not in self.v["defaults"]:
                    raise EmitError("Default::default() for field %s of type %r: no default in the vocabulary" % (f, fty))
                vals.append(N("rawterm", term=self.v["defaults"][repr(fty)], ty=fty))
            else:
                vals.append(given[f])
        return self.exprs(vals, env,
                          lambda ts, tys, env1: k("(%s %s)" % (st["ctor"][0], " ".join(ts)), ("struct", name), env1))

    def structlit_update(self, e, st, name, env, k):
        """struct update syntax `S { f: v, .. base }` on a vocabulary struct with a constructor: the fields written are
        evaluated in the order written, then the base; the other fields are the base's (through the field getters)"""
        order = st["ctor"][1]
        written = [f for f, _x in e.fields]
        for f in order:
            if f not in written and not st["fields"][f][0]:
                raise EmitError("struct update %s { .. }: field %s has no getter in the vocabulary" % (name, f))

        def k_vals(ts, tys, env1):
            def k_base(bt, bty, env2):
                if bty != ("struct", name):
                    raise EmitError("struct update %s { .. base }: the base has type %r" % (name, bty))
                vals = [ts[written.index(f)] if f in written else "(%s %s)" % (st["fields"][f][0], bt) for f in order]
                return k("(%s %s)" % (st["ctor"][0], " ".join(vals)), ("struct", name), env2)
            return self.expr(e.base, env1, k_base)
        return self.exprs([x for _f, x in e.fields], env, k_vals)

    def e_rawterm(self, e, env, k):
        """a Gallina term chosen by the translator itself (never produced by the Rust parser)"""
        return k(e.term, e.ty, env)

    def default_call(self, e):
        return (e.kind == "call" and e.f.kind == "path" and e.f.segs[-2:] == ["Default", "default"] and not e.args)

    def e_assign(self, e, env, k):
        # the type of a plain assigned variable, for vocabulary callables that need it (`Default::default()`)
        self.assign_ty = None
        if e.op == "=" and e.lhs.kind == "path" and len(e.lhs.segs) == 1 and env.get(e.lhs.segs[0]) is not None:
            self.assign_ty = env.get(e.lhs.segs[0]).ty
        if e.op == "=" and self.default_call(e.rhs) and "defaults" in self.v:
            # `place = Default::default()`: the value is chosen by the type of the place
            # (optional vocabulary key defaults: {repr(type): term})
            pr = self.try_pure(e.lhs, env)
            if pr is None or repr(pr[1]) not in self.v["defaults"]:
                raise EmitError("Default::default() assigned to a place of type %r: no default in the vocabulary" % (pr[1] if pr else None,))
            return self.write_place(e.lhs, self.v["defaults"][repr(pr[1])], env, lambda env2: k("tt", UNIT, env2))
        if e.op == "=":
            return self.expr(e.rhs, env, lambda t, ty, env1: self.write_place(e.lhs, t, env1, lambda env2: k("tt", UNIT, env2)),
                             ) if e.rhs.kind != "int" else self.assign_lit(e, env, k)
        bop = e.op[:-1]
        oa = self.op_assign_shape(e, env)
        if oa is not None:
            # optional struct key `op_assign: {"|=": <key of a translated `&mut self` fn>}`: the operator trait's
            # method (BitOrAssign::bitor_assign ..) is called on the place
            return self.call_shape(oa, e.lhs, [e.rhs], env, k)
        return self.expr(N("binary", op=bop, l=e.lhs, r=e.rhs), env,
                         lambda t, ty, env1: self.write_place(e.lhs, t, env1, lambda env2: k("tt", UNIT, env2)))

    def op_assign_shape(self, e, env):
        """shape of the translated operator-assignment method when the place is a vocabulary struct that names one"""
        if not any("op_assign" in st for st in self.v.get("structs", {}).values()):
            return None
        pr = self.try_pure(e.lhs, env)
        if pr is None or pr[1][0] != "struct":
            return None
        key = self.v["structs"][pr[1][1]].get("op_assign", {}).get(e.op)
        if key is None:
            return None
        shape = self.fn_shapes.get(key)
        if shape is None:
            raise EmitError("operator %s on %s: %s is not translated (yet)" % (e.op, pr[1][1], key))
        return shape

    def assign_lit(self, e, env, k):
        # the literal adopts the type of the place
        def k0(_t, pty, env0):
            return self.expr(e.rhs, env0, lambda t, ty, env1: self.write_place(e.lhs, t, env1, lambda env2: k("tt", UNIT, env2)), expect=pty)
        pr = self.try_pure(e.lhs, env)
        pty = pr[1] if pr else INT("usize")
        return k0(None, pty, env)

    # -- joins ---------------------------------------------------------------
    def restrict(self, benv, env):
        """the view of branch environment benv on the variables of env"""
        out = Env(self, {}, env.outer)
        for n, v in env.vars.items():
            bv = benv.by_decl(n, v.decl)
            out.vars[n] = bv if (bv is not None and getattr(bv, "decl", None) == getattr(v, "decl", None)) else v
        for xname, xdecl, _g in getattr(self, "borrow_links", {}).values():
            # vocabulary borrow_fields: a struct that holds a `&mut` parameter stays reachable (by declaration) after
            # its block, so that the function's result can copy the borrowed value out of it
            bv = benv.by_decl(xname, xdecl)
            if bv is not None and bv.decl == xdecl:
                out.outer = dict(out.outer)
                out.outer[xdecl] = bv
        return out

    @staticmethod
    def _subst(code, marker, repl):
        i = code.find(marker)
        if i < 0:
            return code
        ls = code.rfind("\n", 0, i) + 1
        col = i - ls
        lines = repl.split("\n")
        repl2 = "\n".join([lines[0]] + [(" " * col + l) if l else l for l in lines[1:]])
        return code[:i] + repl2 + code[i + len(marker):]

    def join_branches(self, env, k, build):
        """build(kk) returns code whose fall-through points are kk(term, ty, env_b).
        One fall-through: the continuation is inlined.  Several: a local continuation
        taking the variables that were rebound in some branch (and the value)."""
        jid = self.join_id
        self.join_id += 1
        rec = []

        def kk(term, ty, benv):
            rec.append((term, ty, self.restrict(benv, env)))
            return "\x01J%d:%d\x01" % (jid, len(rec) - 1)
        # does some branch leave through return / break / continue instead of falling through?
        diverged = []
        oldctl = self.ctl

        def wrap(f):
            if f is None:
                return None

            def g(*a):
                diverged.append(1)
                return f(*a)
            return g
        self.ctl = Ctl(wrap(oldctl.ret), wrap(oldctl.brk), wrap(oldctl.cont))
        if getattr(oldctl, "brkv", None) is not None:
            self.ctl.brkv = wrap(oldctl.brkv)       # `break <value>` (loop_value) leaves the branch too
        try:
            code = build(kk)
        finally:
            self.ctl = oldctl
        if not rec:
            return code
        if len(rec) == 1:
            term, ty, benv = rec[0]
            return self._subst(code, "\x01J%d:0\x01" % jid, k(term, ty, benv))
        changed = [n for n in env.vars if any(b.vars[n].coq != env.vars[n].coq for _, _, b in rec)]
        ty = next((t for _, t, _ in rec if t not in (UNKNOWN, ("never",))), rec[0][1])
        for _, t, _ in rec:
            if t[0] == "opt" and ty[0] == "opt" and ty[1] == UNKNOWN:
                ty = t
            if t[0] == "res" and ty[0] == "res" and ty[1] == UNKNOWN:
                ty = t
        if not diverged and not self.pure_mode and "None (* no arm" not in code:
            # every branch falls through: the branching statement is an expression yielding the
            # rebound variables (and the value); the continuation follows once (bind style)
            names = []
            envj = env.copy()
            for n in changed:
                pn = self.fresh(env.vars[n].coq.rstrip("0123456789") or n)
                names.append(pn)
                envj = envj.rebind(n, pn)
            vname = None
            if ty != UNIT:
                vname = self.fresh("v")
                names.append(vname)
            # optional vocabulary key `total_joins: True` (see below); without it the historical spelling
            tj = bool(self.v.get("total_joins"))
            for idx, (term, _t, benv) in enumerate(rec):
                parts = [benv.vars[n].coq for n in changed]
                if ty != UNIT:
                    parts.append(term)
                leaf = "%s%s" % (self.J_SOME if tj else "Some ", self.tuple_of(parts) if parts else "tt")
                code = code.replace("\x01J%d:%d\x01" % (jid, idx), leaf)
            pat = "_" if not names else (names[0] if len(names) == 1 else "'(%s)" % ", ".join(names))
            if not tj:
                return "%s <- (%s) ;;\n%s" % (pat, code, k(vname if vname else "tt", ty, envj))
            # `total_joins`: the spelling of this bind (`pat <- (..) ;;` with `Some` leaves | `let pat := (..) in`
            # with plain leaves) is decided at the end of emit_fn (`resolve_joins`): a join is the only construct
            # that is monadic for FORM only, so a function whose every other step is total stays total
            return "%s%s%s(%s)%s\n%s" % (self.J_LET, pat, self.J_BIND, code, self.J_IN, k(vname if vname else "tt", ty, envj))
        params = []
        envj = env.copy()
        for n in changed:
            pn = self.fresh(env.vars[n].coq.rstrip("0123456789") or n)
            params.append("(%s : %s)" % (pn, self.coq_ty(env.vars[n].ty)))
            envj = envj.rebind(n, pn)
        vname = None
        if ty != UNIT:
            vname = self.fresh("v")
            params.append("(%s : %s)" % (vname, self.coq_ty(ty)))
        if not params:
            params.append("(_ : unit)")
        jn = self.fresh("k")
        body = k(vname if vname else "tt", ty, envj)
        for idx, (term, _t, benv) in enumerate(rec):
            args = [benv.vars[n].coq for n in changed]
            if ty != UNIT:
                args.append(term)
            if not args:
                args = ["tt"]
            code = code.replace("\x01J%d:%d\x01" % (jid, idx), "%s %s" % (jn, " ".join(args)))
        return "let %s := fun %s =>\n%s in\n%s" % (jn, " ".join(params), ind(body, 4), code)

    # -- blocks and statements -----------------------------------------------
    def e_block(self, e, env, k):
        return self.stmts(e.stmts, 0, e.tail, env, lambda t, ty, benv: k(t, ty, self.restrict(benv, env)))

    def e_unsafe(self, e, env, k):
        return self.e_block(e.block, env, k)

    def cfg_test(self, attrs):
        """Gallina boolean for #[cfg(...)] attributes, or None"""
        import re
        tests = []
        for a in attrs:
            m = re.match(r'#\[cfg\((.*)\)\]$', a.replace(" ", ""))
            if not m:
                continue
            c = m.group(1)
            neg = False
            mm = re.match(r"not\((.*)\)$", c)
            if mm:
                neg = True
                c = mm.group(1)
            mm = re.match(r'feature="([^"]+)"$', c)
            key = mm.group(1) if mm else c
            feats = self.v.get("features", {})
            if key not in feats:
                raise EmitError("cfg(%s): feature not in the vocabulary" % c)
            t = feats[key]
            tests.append("(negb %s)" % t if neg else t)
        if not tests:
            return None
        return " && ".join(tests)

    def cfg_static(self, attrs):
        """optional vocabulary key `cfg_static: {"windows": False, ..}`: the value of the #[cfg(..)] attributes when
        every predicate in them is decided by the vocabulary (the code is translated for ONE configuration:
        a block that is compiled out is skipped, one that is compiled in is an ordinary statement), else None"""
        import re
        tab = self.v.get("cfg_static")
        if not tab:
            return None
        val = None
        for a in attrs:
            m = re.match(r'#\[cfg\((.*)\)\]$', a.replace(" ", ""))
            if not m:
                continue
            c = m.group(1)
            neg = False
            mm = re.match(r"not\((.*)\)$", c)
            if mm:
                neg = True
                c = mm.group(1)
            if c not in tab:
                return None
            b = bool(tab[c]) != neg
            val = b if val is None else (val and b)
        return val

    def stmts(self, stmts, i, tail, env, k):
        use_drops = bool(self.v.get("drops"))
        if i == len(stmts):
            if tail is None:
                return k("tt", UNIT, env)
            if use_drops:
                # temporaries of the tail expression die when the block is left
                mark_t = len(self.drops)
                return self.expr(tail, env, lambda t, ty, env1: self.flush_drops(mark_t, env1, lambda env2: k(t, ty, env2)))
            return self.expr(tail, env, k)
        s = stmts[i]
        rest = lambda env1: self.stmts(stmts, i + 1, tail, env1, k)
        if use_drops:
            # temporaries of a statement die at its end
            mark_s = len(self.drops)
            rest0 = rest
            rest = lambda env1: self.flush_drops(mark_s, env1, rest0)
        if s.kind in ("expr", "let") and getattr(s, "attrs", None):
            cs = self.cfg_static(s.attrs)
            if cs is False:
                return rest(env)
            if cs is True:
                plain = [a for a in s.attrs if not a.replace(" ", "").startswith("#[cfg")]
                if s.kind == "expr" and not s.semi and tail is None and all(
                        x.kind == "expr" and getattr(x, "attrs", None) and self.cfg_static(x.attrs) is False for x in stmts[i + 1:]):
                    # `#[cfg(a)] { .. } #[cfg(not(a))] { .. }` at the end of a block: the block that is compiled
                    # in is the value of the enclosing block
                    return self.expr(s.e, env, k)
                s2 = N(s.kind)
                s2.__dict__.update(s.__dict__)
                s2.attrs = plain
                s = s2
        if s.kind == "let" and s.init is not None and s.els is not None:
            # `let PAT = init else { diverges };  rest..`  is  `match init { PAT => { rest.. }, _ => { diverges } }`
            body = N("block", stmts=list(stmts[i + 1:]), tail=tail)
            m = N("match", scrut=s.init, arms=[(s.pat, None, body), (N("pwild"), None, s.els)], arm_attrs=[[], []])
            return self.expr(m, env, k)
        if s.kind == "item":
            it = s.item
            if it.kind == "const":
                ty = self.ty_of_ast(it.ty)
                return self.expr(it.val, env, lambda t, _ty, env1: rest(env1.bind(it.name, t, ty)), expect=ty)
            if it.kind in ("struct", "enum", "impl", "fn"):
                return rest(env)     # local items: must be known to the vocabulary when used
            raise EmitError("local item %s" % it.kind)
        if (s.kind == "let" and self.v.get("reborrow_lets") and s.init is not None and s.els is None and s.pat.kind == "pident"
                and not s.pat.mut and s.init.kind == "path" and len(s.init.segs) == 1 and s.init.segs[0] != s.pat.name
                and s.ty is not None and s.ty.form == "ref" and s.ty.mut and env.get(s.init.segs[0]) is not None
                and env.get(s.init.segs[0]).ty == self.ty_of_ast(s.ty)):
            # optional vocabulary key `reborrow_lets: True`: `let w: &mut T = f;` -- a `&mut` variable handed on under
            # another name (the coercion to a trait object) where the vocabulary gives both types the same model: the
            # rest of the block is translated with `w` read as `f` (writes through `w` are writes to `f`)
            a, b = s.pat.name, s.init.segs[0]
            return self.stmts([rename_ident(x, a, b) for x in stmts[i + 1:]], 0, rename_ident(tail, a, b) if tail is not None else None, env, k)
        if (s.kind == "let" and s.init is not None and s.els is None and s.pat.kind == "pident" and s.pat.mut
                and self.lazy_iter_of(s.init, env) is not None):
            # `let mut runs = recv.method(args);` on a lazy iterator of the vocabulary (`mut`: it is stepped by hand)
            return self.let_lazy_cursor(s, env, rest)
        if (s.kind == "let" and s.init is not None and s.els is None and s.pat.kind == "pident" and s.init.kind == "mcall" and s.init.name == "map"
                and len(s.init.args) == 1 and s.init.args[0].kind == "closure" and len(s.init.args[0].params) == 1 and self.v.get("iter_conv")):
            # `let mut it = <iterator>.map(closure);` consumed only by `it.next()` / `for x in it` (map_iter_uses)
            count = []
            src = "__src_" + s.pat.name
            try:
                new_rest = self.map_iter_uses(list(stmts[i + 1:]), s.pat.name, src, s.init.args[0], count)
                new_tail = self.map_iter_uses(tail, s.pat.name, src, s.init.args[0], count) if tail is not None else None
            except NotMapIter:
                count = []
            if count:
                s0 = N("let", pat=N("pident", name=src, by_ref=False, mut=True, sub=None), ty=None, init=s.init.recv, els=None, attrs=[])
                return self.stmts([s0] + new_rest, 0, new_tail, env, k)
        if s.kind == "let":
            return self.let_stmt(s, env, rest)
        if s.kind == "expr":
            test = self.cfg_test(s.attrs)
            if test is not None:
                return self.join_branches(
                    env, lambda _t, _ty, env1: rest(env1),
                    lambda kk: "if %s then\n%s\nelse\n%s" % (test, ind(self.expr(s.e, env, lambda _t, _ty, env1: kk("tt", UNIT, env1))), ind(kk("tt", UNIT, env))))
            e = s.e
            if e.kind in ("if", "match", "block", "unsafe", "for", "while", "loop"):
                # the rest of the block is the continuation of every branch
                return self.join_branches(env, lambda _t, _ty, env1: rest(env1), lambda kk: self.expr(e, env, lambda _t, _ty, env1: kk("tt", UNIT, env1)))
            return self.expr(e, env, lambda _t, _ty, env1: rest(env1))
        raise EmitError("statement %s" % s.kind)

    def bind_pattern(self, pat, term, ty, env, k):
        """irrefutable pattern; k(env')"""
        if pat.kind == "pwild":
            return k(env)
        if pat.kind == "pref":
            return self.bind_pattern(pat.inner, term, ty, env, k)
        if pat.kind == "pident":
            import re
            if re.match(r"^[A-Za-z_][A-Za-z0-9_']*$", term) and not pat.mut:
                e2 = env.bind(pat.name, term, ty, pat.mut)
                return k(e2)
            n = self.fresh(pat.name)
            e2 = env.bind(pat.name, n, ty, pat.mut)
            return "let %s := %s in\n%s" % (n, term, k(e2))
        if pat.kind == "ptuple":
            names = []
            e2 = env
            tys = ty[1] if ty[0] == "tuple" and len(ty[1]) == len(pat.elems) else [UNKNOWN] * len(pat.elems)
            subs = []
            for p, t in zip(pat.elems, tys):
                while p.kind == "pref":
                    p = p.inner
                if p.kind == "pwild":
                    names.append("_")
                elif p.kind == "pident":
                    n = self.fresh(p.name)
                    names.append(n)
                    e2 = e2.bind(p.name, n, t, p.mut)
                elif p.kind == "ptuple":
                    n = self.fresh("t")
                    names.append(n)
                    subs.append((p, n, t))
                else:
                    raise EmitError("pattern %s inside a let tuple" % p.kind)
            def go(j, envx):
                if j == len(subs):
                    return k(envx)
                return self.bind_pattern(subs[j][0], subs[j][1], subs[j][2], envx, lambda e3: go(j + 1, e3))
            return "let '(%s) := %s in\n%s" % (", ".join(names), term, go(0, e2))
        if pat.kind == "ptstruct" and self.v.get("structs", {}).get(pat.segs[-1], {}).get("tuple_pattern"):
            # `let RgbColor(r, g, b) = c;` on a tuple struct the hand model represents as a product
            # (optional struct key `tuple_pattern: True`; field types from the fields "0", "1", ..)
            st = self.v["structs"][pat.segs[-1]]
            if ty != ("struct", pat.segs[-1]) and ty != UNKNOWN:
                raise EmitError("pattern %s against a value of type %r" % (pat.segs[-1], ty))
            if sorted(st["fields"]) != [str(i) for i in range(len(pat.elems))]:
                raise EmitError("pattern %s: %d fields, the vocabulary models %s" % (pat.segs[-1], len(pat.elems), sorted(st["fields"])))
            tys = tuple(st["fields"][str(i)][2] for i in range(len(pat.elems)))
            return self.bind_pattern(N("ptuple", elems=pat.elems), term, ("tuple", tys), env, k)
        if pat.kind == "pstruct" and self.v.get("structs", {}).get(pat.segs[-1], {}).get("fields") and not pat.rest:
            # `let SGR { fg, bg, .. } = sgr;` on a vocabulary struct (named fields, all of them): every field pattern is
            # bound to the field's getter applied to the value
            st = self.v["structs"][pat.segs[-1]]
            if ty != ("struct", pat.segs[-1]) and ty != UNKNOWN:
                raise EmitError("pattern %s against a value of type %r" % (pat.segs[-1], ty))
            if sorted(f for f, _p in pat.fields) != sorted(st["fields"]):
                raise EmitError("pattern %s: fields %r, the vocabulary models %s" % (pat.segs[-1], [f for f, _p in pat.fields], sorted(st["fields"])))
            flds = list(pat.fields)

            def go_f(j, envx):
                if j == len(flds):
                    return k(envx)
                f, p = flds[j]
                getter, _setter, fty = st["fields"][f]
                return self.bind_pattern(p, "(%s %s)" % (getter, term), fty, envx, lambda e3: go_f(j + 1, e3))
            return go_f(0, env)
        raise EmitError("refutable or unsupported pattern %s in let" % pat.kind)

    def let_stmt(self, s, env, rest):
        if s.init is None and s.els is None and s.pat.kind == "pident":
            # optional vocabulary key `deferred_init: {fn: {local: (type, term)}}`: `let x;` assigned later on every path
            # that reads it (rustc checks definite initialisation): a mutable local that starts as the placeholder `term`
            di = self.v.get("deferred_init", {}).get(getattr(self, "cur_fn", None), {}).get(s.pat.name)
            if di is not None:
                n = self.fresh(s.pat.name)
                return "let %s := %s in\n%s" % (n, di[1], rest(env.bind(s.pat.name, n, di[0], True)))
        if s.init is None or s.els is not None:
            raise EmitError("let without initialiser / let-else")
        ann = self.ty_of_ast(s.ty) if s.ty is not None else None
        if (self.v.get("reborrow_lets") and s.pat.kind == "pident" and not s.pat.mut and s.init.kind == "path" and s.init.segs == [s.pat.name]
                and s.ty is not None and s.ty.form == "ref" and s.ty.mut and env.get(s.pat.name) is not None and env.get(s.pat.name).ty == ann):
            # optional vocabulary key `reborrow_lets: True`: `let x: &mut T = x;` (a `&mut` variable re-typed under its own
            # name: the coercion to a trait object) where the vocabulary gives both types the same model is the same
            # variable -- writes through the new reference are writes to the old one
            return rest(env)
        if ann is None and s.pat.kind == "pident":
            # optional vocabulary key `local_types: {fn: {local: type}}`: the type of a local whose
            # initialiser does not determine it (`let mut r = None;`)
            ann = self.v.get("local_types", {}).get(getattr(self, "cur_fn", None), {}).get(s.pat.name)

        if (ann is not None and is_int(ann) and s.init.kind == "binary" and s.init.op in ("<<", ">>")
                and s.init.l.kind == "int" and not s.init.l.suffix):
            # `let x: u16 = 1 << i;`: a shift has the type of its LEFT operand, so the unsuffixed literal is typed by the
            # annotation (not by the shift amount)
            s = N("let", pat=s.pat, ty=s.ty, els=s.els, attrs=getattr(s, "attrs", None),
                  init=N("binary", op=s.init.op, l=N("int", val=s.init.l.val, suffix=ann[1]), r=s.init.r))
        bf = self.v.get("borrow_fields")
        if bf and s.pat.kind == "pident" and s.init.kind == "structlit" and s.init.segs[-1] in bf:
            # optional vocabulary key `borrow_fields: {struct: field}`: `let x = S { field: p, .. }` moves the `&mut`
            # parameter `p` into the struct.  While `x` lives it owns the value; when the function returns, the value
            # `p` is left with is the field of `x` (emit_fn: finish)
            fld = bf[s.init.segs[-1]]
            srcs = [x for f_, x in s.init.fields if f_ == fld]
            pv = env.get(srcs[0].segs[0]) if len(srcs) == 1 and srcs[0].kind == "path" and len(srcs[0].segs) == 1 else None
            if pv is None or pv.mut != "ref":
                raise EmitError("struct %s: field %s must be initialised with a `&mut` parameter (vocabulary borrow_fields)" % (s.init.segs[-1], fld))
            getter = self.v["structs"][s.init.segs[-1]]["fields"][fld][0]
            rest0, pdecl, xname = rest, pv.decl, s.pat.name

            def rest(env2):
                self.borrow_links[pdecl] = (xname, env2.get(xname).decl, getter)
                return rest0(env2)

        def k1(t, ty, env1):
            ty2 = ann if ann is not None and ann != UNKNOWN else ty
            return self.bind_pattern(s.pat, t, ty2, env1, rest)
        if s.init.kind in ("if", "match", "block", "unsafe"):
            return self.join_branches(env, k1, lambda kk: self.expr(s.init, env, kk))
        return self.expr(s.init, env, k1, expect=ann) if s.init.kind == "int" else self.expr(s.init, env, k1)

    # -- control flow --------------------------------------------------------
    def e_return(self, e, env, k):
        if e.e is None:
            return self.ctl.ret(env, "tt", UNIT)
        return self.expr(e.e, env, lambda t, ty, env1: self.ctl.ret(env1, t, ty))

    def e_break(self, e, env, k):
        if e.e is not None and e.label is None and getattr(self.ctl, "brkv", None) is not None:
            # `break <value>` out of a `loop` used as a value (optional vocabulary key `loop_break_value`, loop_value)
            return self.expr(e.e, env, lambda t, ty, env1: self.ctl.brkv(env1, t, ty))
        if e.e is not None or e.label is not None or self.ctl.brk is None:
            raise EmitError("break with a value / label, or outside a loop")
        return self.ctl.brk(env)

    def e_continue(self, e, env, k):
        if e.label is not None or self.ctl.cont is None:
            raise EmitError("continue with a label, or outside a loop")
        return self.ctl.cont(env)

    def e_if(self, e, env, k):
        if e.cond.kind == "letcond" and e.cond.e.kind == "mcall" and self.v.get("borrow_methods"):
            ent = self.borrow_entry(e.cond.e, env)
            if ent is not None:
                return self.if_let_borrow(e, ent, env, k)
        if e.cond.kind == "macro" and e.cond.name.split("::")[-1] == "cfg" and self.v.get("cfg_static"):
            # `if cfg!(windows) { .. } else { .. }` with the predicate decided by the vocabulary (cfg_static): the
            # code is translated for ONE configuration, only the branch that is compiled in is translated
            key = "".join(t.text for t in e.cond.toks)
            if key in self.v["cfg_static"]:
                chosen = e.then if self.v["cfg_static"][key] else (e.els if e.els is not None else N("block", stmts=[], tail=None))
                return self.expr(chosen, env, k)
        if e.cond.kind == "letcond":
            arms = [(e.cond.pat, None, e.then), (N("pwild"), None, e.els if e.els is not None else N("block", stmts=[], tail=None))]
            return self.e_match(N("match", scrut=e.cond.e, arms=arms), env, k)

        def k1(c, cty, env1):
            els = e.els if e.els is not None else N("block", stmts=[], tail=None)
            # both branches pure values: a Gallina conditional expression
            if e.els is not None:
                pa, pb = self.try_pure(e.then, env1), self.try_pure(els, env1)
                if pa is not None and pb is not None:
                    return k("(if %s then %s else %s)" % (c, pa[0], pb[0]), pa[1] if pa[1] != UNKNOWN else pb[1], env1)
            return self.join_branches(
                env1, k,
                lambda kk: "if %s then\n%s\nelse\n%s" % (c, ind(self.expr(e.then, env1, kk)), ind(self.expr(els, env1, kk))))
        return self.expr(e.cond, env, k1)

    # -- mutable borrows of one element (vocabulary `borrow_methods`) ---------------
    # `if let Some(PAT) = place.last_mut() { body }`: PAT binds `&mut` references into an element of
    # `place`; the body may assign through them (`*last = ..`).  Translation: read the element
    # (`get place : option elt`), run the body on the pattern variables, rebuild the element from their
    # final values and write it back (`set place elt`).
    # entry: {(type name, method): {"get": coq fn, "set": coq fn}}
    def borrow_entry(self, mc, env):
        if mc.args or self.place_root(mc.recv) is None:
            return None
        pr = self.try_pure(mc.recv, env)
        if pr is None:
            return None
        rty = pr[1]
        tname = rty[1] if rty[0] in ("struct", "enum") else rty[0]
        ent = self.v["borrow_methods"].get((tname, mc.name))
        if ent is None:
            return None
        return ent, pr[0], rty

    def rebuild_pattern(self, p, ty, binds):
        """(Gallina pattern with every component named, rebuild(env) -> term) for an irrefutable
        tuple / identifier / wildcard pattern; binds collects (rust name, coq name, type)"""
        while p.kind == "pref":
            p = p.inner
        if p.kind == "pwild":
            n = self.fresh("w")
            return n, (lambda envx: n)
        if p.kind == "pident" and p.sub is None:
            n = self.fresh(p.name)
            binds.append((p.name, n, ty))
            return n, (lambda envx, name=p.name, idx=len(binds) - 1: envx.by_decl(name, binds[idx][3]).coq)
        if p.kind == "ptuple":
            tys = ty[1] if ty[0] == "tuple" and len(ty[1]) == len(p.elems) else [UNKNOWN] * len(p.elems)
            parts = [self.rebuild_pattern(x, t, binds) for x, t in zip(p.elems, tys)]
            return "(" + ", ".join(a for a, _ in parts) + ")", (lambda envx: "(" + ", ".join(f(envx) for _, f in parts) + ")")
        raise EmitError("pattern %s over a mutable borrow" % p.kind)

    def bind_borrowed(self, binds, env):
        """bind the pattern variables of rebuild_pattern as `&mut` variables; records their declaration ids"""
        env2 = env
        for i, b in enumerate(binds):
            env2 = env2.bind(b[0], b[1], b[2], "ref")
            binds[i] = (b[0], b[1], b[2], env2.get(b[0]).decl)
        return env2

    def if_let_borrow(self, e, entry, env, k):
        ent, rt, rty = entry
        pat = e.cond.pat
        while pat.kind == "pref":
            pat = pat.inner
        if pat.kind != "ptstruct" or pat.segs[-1] != "Some" or len(pat.elems) != 1 or rty[0] != "list":
            raise EmitError("if let over a mutable borrow: the pattern is not Some(..)")
        recv = e.cond.e.recv
        els = e.els if e.els is not None else N("block", stmts=[], tail=None)

        def build(kk):
            binds = []
            cpat, rebuild = self.rebuild_pattern(pat.elems[0], rty[1], binds)
            env2 = self.bind_borrowed(binds, env)

            def after(_t, _ty, envb):
                elt = rebuild(envb)
                return self.write_place(recv, "(%s %s %s)" % (ent["set"], rt, elt), self.restrict(envb, env), lambda env3: kk("tt", UNIT, env3))
            body = self.expr(e.then, env2, after)
            return "match %s %s with\n| Some %s =>\n%s\n| None =>\n%s\nend" % (ent["get"], rt, cpat, ind(body, 4), ind(self.expr(els, env, kk), 4))
        return self.join_branches(env, k, build)

    # `for PAT in &mut place { body }` (optional vocabulary key `for_mut: True`): the body may assign
    # through the pattern variables; the loop state carries the list of rebuilt elements, which
    # becomes the new value of `place`.  `break` / `return` inside are not supported.
    def for_mut(self, e, env, k):
        place = e.iter.e
        pr = self.try_pure(place, env)
        if pr is None or pr[1][0] != "list":
            raise EmitError("for over `&mut` of something that is no list place")
        lst, lty = pr
        if self.has_return(e.body):
            raise EmitError("return inside `for .. in &mut ..`")
        st = self.assigned(e.body, env)
        root = self.place_root(place)
        if root in st:
            raise EmitError("`for .. in &mut %s` whose body assigns %s" % (root, root))
        x = self.fresh("x")
        acc = self.fresh("acc")
        env2 = env
        stn = []
        for n in st:
            c = self.fresh(env.get(n).coq.rstrip("0123456789") or n)
            stn.append(c)
            env2 = env2.rebind(n, c)
        binds = []
        cpat, rebuild = self.rebuild_pattern(e.pat, lty[1], binds)
        env3 = self.bind_borrowed(binds, env2)
        tup = lambda envx: self.tuple_of(["(%s ++ [%s])" % (acc, rebuild(envx))] + [envx.by_decl(n, env.get(n).decl).coq for n in st])
        old = self.ctl
        oldpm = self.pure_mode
        self.pure_mode = 0

        def nobreak(envx):
            raise EmitError("break inside `for .. in &mut ..`")
        self.ctl = Ctl(lambda envx, t, ty: nobreak(envx), nobreak, lambda envx: "Some (BNext %s)" % tup(envx))
        try:
            body = self.expr(e.body, env3, lambda _t, _ty, envx: "Some (BNext %s)" % tup(envx))
        finally:
            self.ctl = old
            self.pure_mode = oldpm
        fterm = "(fun %s '(%s) =>\n%s)" % (x, ", ".join([acc] + stn), ind("let '%s := %s in\n%s" % (cpat, x, body) if cpat != x else body, 4))
        init = self.tuple_of(["[]"] + [env.get(n).coq for n in st])
        if self.pure_mode:
            raise NeedsBind()
        r = self.fresh("st")
        acc2 = self.fresh("acc")
        names = []
        env4 = env
        for n in st:
            c = self.fresh(env.get(n).coq.rstrip("0123456789") or n)
            names.append(c)
            env4 = env4.rebind(n, c)
        return "%s <- for_list0 %s %s %s ;;\nlet '(%s) := %s in\n%s" % (
            r, fterm, lst, init, ", ".join([acc2] + names), r,
            self.write_place(place, acc2, env4, lambda env5: k("tt", UNIT, env5)))

    # patterns ---------------------------------------------------------------
    def pat_is_ctor_like(self, p, ty):
        k = p.kind
        if k in ("pwild", "pident"):
            # `name @ pattern` is native when the pattern is (Gallina `(pattern as name)`, coq_pattern)
            return p.kind == "pwild" or p.sub is None or (not is_int(ty) and ty != UNKNOWN and self.pat_is_ctor_like(p.sub, ty))
        if k == "pref":
            return self.pat_is_ctor_like(p.inner, ty)
        if k == "ppath":
            return True
        if k == "ptstruct":
            if self.payload_variant(p) is not None:
                return all(x.kind in ("pwild", "pident") or (x.kind == "pref" and x.inner.kind in ("pwild", "pident")) for x in p.elems)
            if self.enum_payload(p) is not None:
                return all(self.pat_is_ctor_like(x, UNKNOWN) for x in self.payload_elems(p, len(self.enum_payload(p)[1])))
            return p.segs[-1] in ("Some", "Ok", "Err") and all(self.pat_is_ctor_like(x, UNKNOWN) for x in p.elems)
        if k == "ptuple":
            return all(self.pat_is_ctor_like(x, UNKNOWN) for x in p.elems)
        if k == "por":
            return all(self.pat_is_ctor_like(x, ty) for x in p.alts)
        if k == "pstruct" and self.struct_variant(p.segs) is not None:
            return all(self.pat_is_ctor_like(x, UNKNOWN) for _f, x in p.fields)
        return False

    def struct_variant(self, segs):
        """optional enum key `struct_variants: {variant: ([field names], [field types])}`: a variant with NAMED fields
        (`Line::Control { name, args }`) whose Gallina constructor (`variants[variant]`) takes the fields in that order.
        Returns (constructor, field names, field types) when `segs` names such a variant, else None"""
        if len(segs) < 2:
            return None
        en = self.v.get("enums", {}).get(self.self_struct if segs[-2] == "Self" and self.self_struct else segs[-2])
        if en is None or segs[-1] not in en.get("struct_variants", {}) or segs[-1] not in en["variants"]:
            return None
        names, tys = en["struct_variants"][segs[-1]]
        return en["variants"][segs[-1]], list(names), list(tys)

    def payload_variant(self, p):
        """(coq constructor, payload types) when the tuple-struct pattern names a data-carrying enum variant of the vocabulary"""
        if len(p.segs) < 2:
            return None
        en = self.v.get("enums", {}).get(p.segs[-2])
        if en is None:
            return None
        ent = en.get("payload", {}).get(p.segs[-1])
        return ent if isinstance(ent, tuple) else None      # form (coq constructor, payload types); the list form is enum_payload's
    def enum_payload(self, p):
        """(constructor, payload types) when the tuple-struct pattern `p` names a variant with payload of a
        vocabulary enum (optional key `payload: {variant: [types]}`), else None"""
        if len(p.segs) < 2:
            return None
        en = self.v.get("enums", {}).get(self.self_struct if p.segs[-2] == "Self" and self.self_struct else p.segs[-2])
        if en is None or p.segs[-1] not in en.get("payload", {}) or p.segs[-1] not in en["variants"]:
            return None
        if not isinstance(en["payload"][p.segs[-1]], list):
            return None
        tys = en["payload"][p.segs[-1]]
        if len(tys) != len(self.payload_elems(p, len(tys))):
            raise EmitError("pattern %s: %d fields, the vocabulary models %d" % ("::".join(p.segs), len(p.elems), len(tys)))
        return en["variants"][p.segs[-1]], tys

    @staticmethod
    def payload_elems(p, n):
        """the sub-patterns of a tuple-struct pattern with `..` written out: `Variant(..)`, `Variant(a, ..)` -- the rest
        pattern stands for the fields that are not named (wildcards); the AST is not changed"""
        rests = [i for i, x in enumerate(p.elems) if x.kind == "prest"]
        if len(rests) == 1 and len(p.elems) - 1 <= n:
            i = rests[0]
            return p.elems[:i] + [N("pwild") for _ in range(n - len(p.elems) + 1)] + p.elems[i + 1:]
        return p.elems

    def coq_pattern(self, p, ty, binds):
        """native Gallina pattern; binds collects (rust name, coq name, type)"""
        k = p.kind
        if k == "pwild":
            return "_"
        if k == "pref":
            return self.coq_pattern(p.inner, ty, binds)
        if k == "pident" and p.name in ("true", "false") and getattr(p, "sub", None) is None:
            return p.name          # the bool literals (the parser reads them as identifiers)
        if k == "pident":
            pn = getattr(self, "por_names", None)
            if pn is not None:
                # a later alternative of an or-pattern: the variable gets the name the first alternative gave it
                if p.name not in pn:
                    raise EmitError("or-pattern: variable %s is not bound in every alternative" % p.name)
                n = pn[p.name]
            else:
                n = self.fresh(p.name)
            binds.append((p.name, n, ty, p.mut))
            if getattr(p, "sub", None) is not None:
                # `name @ pattern` (pat_is_ctor_like admits it when the pattern is native): `((pattern) as name)`
                inner = self.coq_pattern(p.sub, ty, binds)
                return "(%s as %s)" % ("(%s)" % inner if " | " in inner and not inner.startswith("(") else inner, n)
            return n
        if k == "pstruct":
            # `Enum::Variant { field, field: pat, .. }` of an enum with `struct_variants`
            sv = self.struct_variant(p.segs)
            if sv is None:
                raise EmitError("struct pattern %s: not a struct variant of the vocabulary" % "::".join(p.segs))
            ctor, fnames, ftys = sv
            given = dict(p.fields)
            if len(given) != len(p.fields) or not set(given) <= set(fnames) or (not p.rest and set(given) != set(fnames)):
                raise EmitError("struct pattern %s: fields %r, the vocabulary models %r" % ("::".join(p.segs), [f for f, _x in p.fields], fnames))
            return "(%s %s)" % (ctor, " ".join(self.coq_pattern(given[f], t, binds) if f in given else "_" for f, t in zip(fnames, ftys)))
        if k == "ppath":
            name = p.segs[-1]
            if name == "None":
                return "None"
            en = self.v.get("enums", {}).get(p.segs[-2]) if len(p.segs) >= 2 else None
            if en is None and ty[0] == "enum":
                en = self.v["enums"][ty[1]]
            if en is None or name not in en["variants"]:
                raise EmitError("pattern path %s" % "::".join(p.segs))
            return en["variants"][name]
        if k == "ptstruct" and self.payload_variant(p) is not None:
            # vocabulary enums[..]["payload"]: {variant: (coq constructor, [payload types] | None)};
            # None = the payload is only ever matched with wildcards, (coq arity given as an int)
            ctor, ptys = self.payload_variant(p)
            if isinstance(ptys, int):
                if not all(x.kind == "pwild" for x in p.elems):
                    raise EmitError("payload of %s can only be matched with `_`" % ctor)
                return "(%s %s)" % (ctor, " ".join("_" for _ in range(ptys)))
            if len(ptys) != len(p.elems):
                raise EmitError("pattern %s: %d fields, the vocabulary models %d" % (ctor, len(p.elems), len(ptys)))
            return "(%s %s)" % (ctor, " ".join(self.coq_pattern(x, t, binds) for x, t in zip(p.elems, ptys)))
        if k == "ptstruct":
            ep = self.enum_payload(p)
            if ep is not None:
                return "(%s %s)" % (ep[0], " ".join(self.coq_pattern(x, t, binds) for x, t in zip(self.payload_elems(p, len(ep[1])), ep[1])))
            name = p.segs[-1]
            inner = ty[1] if ty[0] == "opt" else UNKNOWN
            if ty[0] == "res" and name in ("Ok", "Err"):
                inner = ty[1] if name == "Ok" else ("coq", self.v["result"]["err"])
                name = "inl" if name == "Ok" else "inr"
            if ty[0] == "result" and self.res_ind():
                inner = ty[2] if name == "Err" else ty[1]
                name = self.v["result"]["err" if name == "Err" else "ok"]
            return "(%s %s)" % (name, " ".join(self.coq_pattern(x, inner, binds) for x in p.elems))
        if k == "ptuple" and not p.elems:
            return "tt"      # the unit pattern `()`
        if k == "ptuple":
            tys = ty[1] if ty[0] == "tuple" and len(ty[1]) == len(p.elems) else [UNKNOWN] * len(p.elems)
            return "(" + ", ".join(self.coq_pattern(x, t, binds) for x, t in zip(p.elems, tys)) + ")"
        if k == "por":
            # every alternative must bind the same variables (with the same types): the first alternative names
            # them, the others reuse the names (`A(text) | B(text) => ..` -> `| (A text) | (B text) => ..`)
            b0 = len(binds)
            parts = [self.coq_pattern(p.alts[0], ty, binds)]
            first = {rn: (cn, t) for rn, cn, t, _m in binds[b0:]}
            outer = getattr(self, "por_names", None)
            for x in p.alts[1:]:
                if not first and outer is None:
                    parts.append(self.coq_pattern(x, ty, binds))
                    continue
                tmp = []
                self.por_names = {rn: cn for rn, (cn, _t) in first.items()}
                try:
                    parts.append(self.coq_pattern(x, ty, tmp))
                finally:
                    self.por_names = outer
                if {rn: t for rn, _cn, t, _m in tmp} != {rn: t for rn, (_cn, t) in first.items()}:
                    raise EmitError("or-pattern: the alternatives do not bind the same variables at the same types")
            return " | ".join(parts)
        raise EmitError("pattern %s in a native match" % k)

    def pat_test(self, p, term, ty, binds):
        """boolean test of a pattern against an atomic term (integers, ranges, enum constants, tuples of those)"""
        k = p.kind
        if k == "pwild":
            return None
        if k == "pref":
            return self.pat_test(p.inner, term, ty, binds)
        if k == "pident" and p.name in ("true", "false") and p.sub is None:
            return term if p.name == "true" else "(negb %s)" % term      # the bool literals
        if k == "pident":
            binds.append((p.name, term, ty, p.mut))
            return None if p.sub is None else self.pat_test(p.sub, term, ty, binds)
        if k == "plit" and getattr(p, "lk", None) in ("str", "bstr"):
            # string literal pattern: decidable equality of the scrutinee's type (vocabulary `eqb`)
            return "(%s %s [%s])" % (self.eqb_of(ty), term, "; ".join(str(b) for b in p.val))
        if k == "plit":
            if not is_int(ty):
                ty = INT("usize")
            return "(%s =? %s)%s" % (term, self.lit(p.val, ty), "%Z" if is_signed(ty) else "")
        if k == "prange":
            lo = self.lit(p.lo.val, ty) if p.lo.kind == "plit" else self.const_term(p.lo.segs)
            hi = self.lit(p.hi.val, ty) if p.hi.kind == "plit" else self.const_term(p.hi.segs)
            sc = "%Z" if is_signed(ty) else ""
            return "((%s <=? %s)%s && (%s %s %s)%s)" % (lo, term, sc, term, "<=?" if p.incl else "<?", hi, sc)
        if k == "ppath":
            c = self.v.get("consts", {}).get(p.segs[-1]) if len(p.segs) == 1 else None
            if c is not None:
                return "(%s =? %s)" % (term, c[0])
            en = self.v.get("enums", {}).get(p.segs[-2]) if len(p.segs) >= 2 else (self.v["enums"][ty[1]] if ty[0] == "enum" else None)
            if en is None and len(p.segs) == 2 and p.segs[0] == "Self" and self.self_struct is not None and ty == ("enum", self.self_struct):
                en = self.v.get("enums", {}).get(self.self_struct)      # `Self::Variant` inside an (inlined) method of the enum
            if en is None or p.segs[-1] not in en["variants"]:
                raise EmitError("pattern path %s" % "::".join(p.segs))
            return "(%s %s %s)" % (en["eqb"], term, en["variants"][p.segs[-1]])
        if k == "por":
            ts = [self.pat_test(x, term, ty, binds) for x in p.alts]
            if any(t is None for t in ts):
                return None
            return "(" + " || ".join(ts) + ")"
        if k == "prest" or (k == "ptuple" and not p.elems):
            # `Err(..)`, `Ok(())`: nothing to test, nothing bound
            return None
        if k == "ptuple":
            raise EmitError("nested tuple pattern in an if-chain match")
        raise EmitError("pattern %s in an if-chain match" % k)

    # constructor patterns holding literals (`(Some(5), Some(x))`): neither a native Gallina match nor
    # an if-chain; arm by arm `match .. with | pattern => if tests then body else <next arms> | _ => <next arms> end`
    def needs_hybrid(self, arms, ncomp):
        def has_ctor(p):
            while p.kind == "pref":
                p = p.inner
            if p.kind == "ptstruct":
                return True
            if p.kind == "ptuple":
                return any(has_ctor(x) for x in p.elems)
            if p.kind == "por":
                return any(has_ctor(x) for x in p.alts)
            return False
        return any(has_ctor(p) for p, _g, _b in arms)

    def nested_nonnative(self, t):
        """an enum with `native: False` below an Option / tuple"""
        if t[0] == "opt":
            return self.nonnative(t[1]) or self.nested_nonnative(t[1])
        if t[0] == "tuple":
            return any(self.nonnative(x) or self.nested_nonnative(x) for x in t[1])
        if t[0] == "enum" and t[1] in self.v.get("enums", {}) and self.v["enums"][t[1]].get("native", True) is not False:
            # a native enum whose variants carry such an enum (`Color::Ansi(AnsiColor::Red | AnsiColor::BrightRed)`)
            return any(self.nonnative(x) or (x != t and self.nested_nonnative(x))
                       for pl in self.v["enums"][t[1]].get("payload", {}).values() if isinstance(pl, list) for x in pl)
        return False

    def pat_names_nonnative(self, p, ty):
        """the pattern names a variant of a `native: False` enum below a constructor"""
        while p.kind == "pref":
            p = p.inner
        if p.kind == "ppath":
            return self.nonnative(ty)
        if p.kind == "por":
            return any(self.pat_names_nonnative(x, ty) for x in p.alts)
        if p.kind == "ptuple":
            tys = ty[1] if ty[0] == "tuple" and len(ty[1]) == len(p.elems) else [UNKNOWN] * len(p.elems)
            return any(self.pat_names_nonnative(x, t) for x, t in zip(p.elems, tys))
        if p.kind == "ptstruct":
            ep = self.enum_payload(p)
            if ep is not None:
                return any(self.pat_names_nonnative(x, t) for x, t in zip(self.payload_elems(p, len(ep[1])), ep[1]))
            inner = ty[1] if ty[0] == "opt" else UNKNOWN
            return any(self.pat_names_nonnative(x, inner) for x in p.elems)
        return False

    def nonnative(self, t):
        return t[0] == "enum" and self.v["enums"][t[1]].get("native", True) is False

    def hybrid_pat(self, p, ty, binds, tests, term=None):
        """Gallina pattern for p (variables for literals, tested afterwards); `term` is given for a
        top-level component, whose plain identifier pattern binds the scrutinee itself"""
        while p.kind == "pref":
            p = p.inner
        k = p.kind
        if k == "pwild":
            return "_"
        if k == "pident" and p.sub is None:
            if term is not None:
                binds.append((p.name, term, ty, p.mut))
                return "_"
            n = self.fresh(p.name)
            binds.append((p.name, n, ty, p.mut))
            return n
        if k in ("plit", "prange") or (k == "por" and all(x.kind in ("plit", "prange") for x in p.alts)):
            if term is not None:
                t = self.pat_test(p, term, ty, [])
                tests.append(t)
                return "_"
            n = self.fresh("x")
            tests.append(self.pat_test(p, n, ty, []))
            return n
        if (k == "ppath" or (k == "por" and all(x.kind == "ppath" for x in p.alts))) and self.nonnative(ty):
            # variant(s) of an enum the model represents by a number: tested like a literal
            if term is not None:
                tests.append(self.pat_test(p, term, ty, []))
                return "_"
            n = self.fresh("x")
            tests.append(self.pat_test(p, n, ty, []))
            return n
        if k == "ppath":
            return self.coq_pattern(p, ty, binds)
        if k == "ptstruct" and self.enum_payload(p) is not None:
            # data-carrying variant of a native vocabulary enum (`Some(Color::Ansi(c))`)
            ctor, ptys = self.enum_payload(p)
            return "(%s %s)" % (ctor, " ".join(self.hybrid_pat(x, t, binds, tests) for x, t in zip(self.payload_elems(p, len(ptys)), ptys)))
        if k == "ptstruct":
            name = p.segs[-1]
            if name not in ("Some", "Ok", "Err") or len(p.elems) != 1:
                raise EmitError("constructor pattern %s" % "::".join(p.segs))
            inner = ty[1] if ty[0] == "opt" else UNKNOWN
            if ty[0] == "result" and self.res_ind():
                inner = ty[2] if name == "Err" else ty[1]
                name = self.v["result"]["err" if name == "Err" else "ok"]
            return "(%s %s)" % (name, self.hybrid_pat(p.elems[0], inner, binds, tests))
        if k == "ptuple":
            tys = ty[1] if ty[0] == "tuple" and len(ty[1]) == len(p.elems) else [UNKNOWN] * len(p.elems)
            return "(" + ", ".join(self.hybrid_pat(x, t, binds, tests) for x, t in zip(p.elems, tys)) + ")"
        raise EmitError("pattern %s in a constructor-and-literal match" % k)

    def match_hybrid(self, arms, terms, tys, env1, kk):
        def arm(j):
            if j == len(arms):
                return "None (* no arm matches: unreachable in Rust (exhaustive match) *)"
            p, g, body = arms[j]
            while p.kind == "pref":
                p = p.inner
            binds, tests = [], []
            if len(terms) > 1:
                if p.kind == "pwild":
                    pats = ["_"] * len(terms)
                elif p.kind == "ptuple" and len(p.elems) == len(terms):
                    pats = [self.hybrid_pat(x, t, binds, tests, tm) for x, t, tm in zip(p.elems, tys, terms)]
                else:
                    raise EmitError("arm pattern does not match the tuple scrutinee")
            else:
                pats = [self.hybrid_pat(p, tys[0], binds, tests, terms[0])]
            env2 = env1
            for rn, cn, t, mut in binds:
                env2 = env2.bind(rn, cn, t, mut)
            gimp = None
            if g is not None:
                pg = self.try_pure(g, env2)
                if pg is None:
                    # a guard that can panic (a call of an option-valued translation): evaluated in the monad once the
                    # pattern and the pure tests have matched, as in Rust: `g <- guard ;; if g then body else <next arms>`;
                    # it must not assign (the next arms go on from the state before the guard)
                    if self.assigned(g, env2):
                        raise EmitError("match guard that can panic and assigns a variable")
                    gimp = g
                else:
                    tests.append(pg[0])
            if gimp is not None:
                nxt = arm(j + 1)
                n = self.fresh("next")
                pre = "let %s := fun (_ : unit) =>\n%s in\n" % (n, ind(nxt, 4))
                nxt = "%s tt" % n
                gcode = self.expr(gimp, env2, lambda gt, _gty, env3: "if %s then\n%s\nelse\n%s" % (gt, ind(self.expr(body, env3, kk)), ind(nxt)))
                inner = gcode if not tests else "if %s then\n%s\nelse\n%s" % (" && ".join(tests), ind(gcode), ind(nxt))
                if not any(x != "_" for x in pats):
                    return pre + inner
                return pre + "match %s with\n| %s =>\n%s\n| %s =>\n%s\nend" % (
                    ", ".join(terms), ", ".join(pats), ind(inner, 4), ", ".join("_" for _ in terms), ind(nxt, 4))
            bcode = self.expr(body, env2, kk)
            refutable = any(x != "_" for x in pats)
            if not tests and not refutable:
                return bcode
            nxt = arm(j + 1)
            pre = ""
            if tests and refutable and "\n" in nxt:
                n = self.fresh("next")
                pre = "let %s := fun (_ : unit) =>\n%s in\n" % (n, ind(nxt, 4))
                nxt = "%s tt" % n
            inner = bcode if not tests else "if %s then\n%s\nelse\n%s" % (" && ".join(tests), ind(bcode), ind(nxt))
            if not refutable:
                return pre + inner
            return pre + "match %s with\n| %s =>\n%s\n| %s =>\n%s\nend" % (
                ", ".join(terms), ", ".join(pats), ind(inner, 4), ", ".join("_" for _ in terms), ind(nxt, 4))
        return arm(0)

    def const_term(self, segs):
        c = self.v.get("consts", {}).get(segs[-1])
        if c is None:
            raise EmitError("unknown constant %s" % "::".join(segs))
        return c[0]

    def static_arms(self, e):
        """`#[cfg(..)] Pat => ..`: with the vocabulary key cfg_static the arms that are compiled out are dropped
        (an attribute cfg_static does not decide is an error); without it arm attributes are ignored, as before"""
        aa = getattr(e, "arm_attrs", None)
        if not aa or not any(aa) or not self.v.get("cfg_static"):
            return e
        arms = []
        for arm, at in zip(e.arms, aa):
            if any(a.replace(" ", "").startswith("#[cfg") for a in at):
                cs = self.cfg_static(at)
                if cs is None:
                    raise EmitError("match arm under %s: not decided by the vocabulary (cfg_static)" % " ".join(at))
                if cs is False:
                    continue
            arms.append(arm)
        return N("match", scrut=e.scrut, arms=arms)

    def arm_writeback(self, scr, p, binds, kk):
        """optional vocabulary key `match_writeback`: `match &mut place { Enum::V(w) => .. }` binds `w` by
        mutable reference INTO the place; when the arm body has assigned / mutated `w`, the place is rebuilt
        from the constructor and the current values of the bound variables before the arm falls through"""
        if not (self.v.get("match_writeback") and scr.kind == "unary" and scr.op == "&mut"):
            return kk
        while p.kind == "pref":
            p = p.inner
        if p.kind != "ptstruct" or not binds:
            return kk
        pv = self.payload_variant(p)
        if pv is None or isinstance(pv[1], int) or len(binds) != len(p.elems):
            return kk
        ctor = pv[0]
        orig = [(rn, cn) for rn, cn, _t, _m in binds]

        def kk2(t, ty, benv):
            cur = []
            for rn, cn in orig:
                v = benv.get(rn)
                cur.append(v.coq if v is not None else cn)
            if cur == [cn for _rn, cn in orig]:
                return kk(t, ty, benv)
            return self.write_place(scr.e, "(%s %s)" % (ctor, " ".join(cur)), benv, lambda env3: kk(t, ty, env3))
        return kk2

    def e_match(self, e, env, k):
        e = self.static_arms(e)
        scr = e.scrut
        comps = scr.elems if scr.kind == "tuple" else [scr]

        def with_scrut(terms, tys, env1):
            native = all(g is None for _, g, _ in e.arms)
            for p, _g, _b in e.arms:
                pp = p
                if len(comps) > 1:
                    if pp.kind == "pwild":
                        continue
                    if pp.kind != "ptuple" or len(pp.elems) != len(comps):
                        raise EmitError("arm pattern does not match the tuple scrutinee")
                    for x, t in zip(pp.elems, tys):
                        if not self.pat_is_ctor_like(x, t) or (is_int(t) and x.kind == "ppath"):
                            native = False
                else:
                    if not self.pat_is_ctor_like(pp, tys[0]) or (is_int(tys[0]) and pp.kind == "ppath"):
                        native = False
            if any(t[0] == "enum" and self.v["enums"][t[1]].get("native", True) is False for t in tys):
                native = False
            if native and any(self.nested_nonnative(t) for t in tys):
                # `Some(<variant of an enum the model represents by a number>)`: constructor-and-literal match
                for p, _g, _b in e.arms:
                    ps = p.elems if (len(comps) > 1 and p.kind == "ptuple") else [p]
                    if len(ps) == len(tys) and any(self.pat_names_nonnative(x, t) for x, t in zip(ps, tys)):
                        native = False
            if native and not all(is_int(t) for t in tys) and self.v.get("pure_match"):
                # optional vocabulary key `pure_match`: a native match whose arms are all pure values is a
                # Gallina match EXPRESSION (no bind, the function can stay total)
                pm = self.pure_match(e, comps, terms, tys, env1)
                if pm is not None:
                    return k(pm[0], pm[1], env1)
            if native and not all(is_int(t) for t in tys):
                def build(kk):
                    out = ["match %s with" % ", ".join(terms)]
                    for p, _g, body in e.arms:
                        binds = []
                        if len(comps) > 1:
                            if p.kind == "pwild":
                                ps = ", ".join("_" for _ in comps)
                            else:
                                ps = ", ".join(self.coq_pattern(x, t, binds) for x, t in zip(p.elems, tys))
                        else:
                            ps = self.coq_pattern(p, tys[0], binds)
                        env2 = env1
                        for rn, cn, t, mut in binds:
                            env2 = env2.bind(rn, cn, t, mut)
                        kka = self.arm_writeback(scr, p, binds, kk) if len(comps) == 1 else kk
                        if self.v.get("drops"):
                            # a match arm is a temporary scope: its temporaries die before the arm is left
                            kkb = kka
                            mark_a = len(self.drops)
                            kka = lambda t, ty, benv, kkb=kkb, mark_a=mark_a: self.flush_drops(mark_a, benv, lambda env3: kkb(t, ty, env3))
                        out.append("| %s =>\n%s" % (ps, ind(self.expr(body, env2, kka), 4)))
                    out.append("end")
                    return "\n".join(out)
                return self.join_branches(env1, k, build)
            if len(comps) == 1 and tys[0][0] == "res":
                return self.join_branches(env1, k, lambda kk: self.match_result(e, terms[0], tys[0], env1, kk))
            if self.needs_hybrid(e.arms, len(comps)):
                return self.join_branches(env1, k, lambda kk: self.match_hybrid(e.arms, terms, tys, env1, kk))

            # if-chain
            def build(kk):
                def arm(j):
                    if j == len(e.arms):
                        return "None (* no arm matches: unreachable in Rust (exhaustive match) *)"
                    p, g, body = e.arms[j]
                    binds = []
                    tests = []
                    if len(comps) > 1:
                        if p.kind != "pwild":
                            for x, t, tm in zip(p.elems, tys, terms):
                                tt = self.pat_test(x, tm, t, binds)
                                if tt is not None:
                                    tests.append(tt)
                    else:
                        tt = self.pat_test(p, terms[0], tys[0], binds)
                        if tt is not None:
                            tests.append(tt)
                    env2 = env1
                    for rn, cn, t, mut in binds:
                        env2 = env2.bind(rn, cn, t, mut)
                    if g is not None:
                        pg = self.try_pure(g, env2)
                        if pg is None and self.v.get("monadic_guards"):
                            # optional vocabulary key `monadic_guards: True`: a guard that can panic (it calls a translated
                            # function that indexes a table) is evaluated only when the pattern matches; the later arms
                            # are a thunk shared by "pattern does not match" and "guard is false"
                            nxt = arm(j + 1)
                            n = self.fresh("next")
                            pre = "let %s := fun (_ : unit) =>\n%s in\n" % (n, ind(nxt, 4))
                            inner = self.expr(g, env2, lambda gt, _gty, env3: "if %s then\n%s\nelse\n%s" % (
                                gt, ind(self.expr(body, env3, kk)), ind("%s tt" % n)))
                            if tests:
                                inner = "if %s then\n%s\nelse\n%s" % (" && ".join(tests), ind(inner), ind("%s tt" % n))
                            return pre + inner
                        if pg is None:
                            raise EmitError("match guard that can panic")
                        tests.append(pg[0])
                    bcode = self.expr(body, env2, kk)
                    if not tests:
                        return bcode
                    return "if %s then\n%s\nelse\n%s" % (" && ".join(tests), ind(bcode), arm(j + 1))
                return arm(0)
            return self.join_branches(env1, k, build)
        # scrutinee components must be atomic terms: bind non-trivial ones
        def k_sc(ts, tys, env1):
            import re
            pre = []
            ts2 = []
            for t in ts:
                if re.match(r"^[A-Za-z_][A-Za-z0-9_']*$", t) or re.match(r"^\d+$", t):
                    ts2.append(t)
                else:
                    n = self.fresh("m")
                    pre.append("let %s := %s in\n" % (n, t))
                    ts2.append(n)
            return "".join(pre) + with_scrut(ts2, tys, env1)
        return self.exprs(comps, env, k_sc)

    def pure_match(self, e, comps, terms, tys, env1):
        saved = dict(self.counter)
        arms = []
        rty = UNKNOWN
        for p, _g, body in e.arms:
            binds = []
            if len(comps) > 1:
                ps = ", ".join("_" for _ in comps) if p.kind == "pwild" else ", ".join(self.coq_pattern(x, t, binds) for x, t in zip(p.elems, tys))
            else:
                ps = self.coq_pattern(p, tys[0], binds)
            env2 = env1
            for rn, cn, t, mut in binds:
                env2 = env2.bind(rn, cn, t, mut)
            pr = self.try_pure(body, env2)
            if pr is None:
                self.counter = saved
                return None
            if rty == UNKNOWN or (rty[0] == "opt" and rty[1] == UNKNOWN):
                rty = pr[1]
            arms.append("| %s => %s" % (ps, pr[0]))
        return "(match %s with %s end)" % (", ".join(terms), " ".join(arms)), rty

    def match_result(self, e, term, ty, env, kk):
        """match on an io::Result whose arms carry literals / guards: `match r with inl v => if-chain | inr v => if-chain end`"""
        errty = ("enum", self.v["result"]["enum"]) if self.v["result"].get("enum") else ("coq", self.v["result"]["err"])

        def side(tag, inner):
            v = self.fresh("v")

            def arm(j):
                if j == len(e.arms):
                    return "None (* no arm matches: unreachable in Rust (exhaustive match) *)"
                p, g, body = e.arms[j]
                while p.kind == "pref":
                    p = p.inner
                binds = []
                tests = []
                if p.kind == "por" and all(a.kind == "pwild" or (a.kind == "ptstruct" and a.segs[-1] in ("Ok", "Err") and len(a.elems) == 1) for a in p.alts):
                    # `Err(_) | Ok(_) => ..`: the alternatives of this side, none of which may bind a variable
                    mine = [a for a in p.alts if a.kind == "pwild" or a.segs[-1] == tag]
                    if not mine:
                        return arm(j + 1)
                    alt_tests = [None if a.kind == "pwild" else self.pat_test(a.elems[0], v, inner, binds) for a in mine]
                    if binds:
                        raise EmitError("an or-pattern that binds a variable in a match on a Result")
                    if all(t is not None for t in alt_tests):
                        tests.append("(" + " || ".join(alt_tests) + ")")
                elif p.kind == "ptstruct" and p.segs[-1] in ("Ok", "Err") and len(p.elems) == 1:
                    if p.segs[-1] != tag:
                        return arm(j + 1)
                    tt = self.pat_test(p.elems[0], v, inner, binds)
                    if tt is not None:
                        tests.append(tt)
                elif p.kind != "pwild":
                    raise EmitError("pattern %s in a match on a Result" % p.kind)
                env2 = env
                for rn, cn, t, mut in binds:
                    env2 = env2.bind(rn, cn, t, mut)
                if g is not None:
                    pg = self.try_pure(g, env2)
                    if pg is None:
                        raise EmitError("match guard that can panic")
                    tests.append(pg[0])
                bcode = self.expr(body, env2, kk)
                if not tests:
                    return bcode
                return "if %s then\n%s\nelse\n%s" % (" && ".join(tests), ind(bcode), arm(j + 1))
            return v, arm(0)
        vo, co = side("Ok", ty[1])
        ve, ce = side("Err", errty)
        return "match %s with\n| inl %s =>\n%s\n| inr %s =>\n%s\nend" % (term, vo, ind(co, 4), ve, ind(ce, 4))

    # -- calls ---------------------------------------------------------------
    def call_shape(self, shape, self_place, args, env, k):
        """call a translated / vocabulary function described by `shape`:
        dict(coq, self: None|'in'|'inout', params: [('in'|'inout', ty)], ret, total, cfg)"""
        nparams = shape["params"]
        if shape.get("statics"):
            for sname, _m, _t in shape["statics"]:
                if env.get(sname) is None:
                    raise EmitError("call of %s, which uses the static %s: the caller does not declare it (vocabulary static_use)" % (shape["coq"], sname))
                if _m == "inout" and env.get(sname).mut != "ref":
                    raise EmitError("call of %s, which writes the static %s: the caller declares it read-only (vocabulary static_use)" % (shape["coq"], sname))
            nparams = [(m, t) for _n, m, t in shape["statics"]] + list(nparams)
            args = [N("path", segs=[n]) for n, _m, _t in shape["statics"]] + list(args)
        if len(args) != len(nparams):
            raise EmitError("call of %s with %d arguments, expected %d" % (shape["coq"], len(args), len(nparams)))
        places = []
        pre = [self_place] if shape.get("self") else []

        def k_args(ts, tys, env1):
            head = shape["coq"]
            if shape.get("cfg") and self.v.get("config_param"):
                head += " " + self.v["config_param"][0]
            call = "%s %s" % (head, " ".join(ts)) if ts else head
            outs = []
            if shape.get("self") == "inout":
                outs.append(self_place)
            for (mode, _ty), a in zip(nparams, args):
                if mode == "inout":
                    outs.append(a)
            ret = shape["ret"]
            if shape.get("total") and not outs:
                return k("(%s)" % call, ret, env1)
            names = [self.fresh("o") for _ in outs]
            rname = self.fresh("r") if ret != UNIT else None
            allnames = names + ([rname] if rname else [])
            if not allnames:
                pat = "_"
            elif len(allnames) == 1:
                pat = allnames[0]
            else:
                pat = "'(" + ", ".join(allnames) + ")"
            if self.pure_mode:
                raise NeedsBind()

            def wr(j, env2):
                if j == len(outs):
                    return k(rname if rname else "tt", ret, env2)
                return self.write_place(outs[j], names[j], env2, lambda env3: wr(j + 1, env3))
            if shape.get("total"):
                return "let %s := %s in\n%s" % (pat, call, wr(0, env1))
            return "%s <- %s ;;\n%s" % (pat, call, wr(0, env1))
        return self.exprs(pre + list(args), env, k_args)

    def e_call(self, e, env, k):
        f = e.f
        if f.kind != "path" and self.v.get("call_value"):
            # optional vocabulary key `call_value`: callable(em, e, env, k) -- the call of a VALUE (`(self.writer)(x)`)
            return self.v["call_value"](self, e, env, k)
        if f.kind != "path":
            raise EmitError("call of a non-path expression")
        name = f.segs[-1]
        if len(f.segs) == 1 and name in ("Ok", "Err") and self.res_sum():
            if name == "Ok":
                return self.expr(e.args[0], env, lambda t, ty, env1: k("(inl %s)" % t, ("res", ty), env1))
            return self.expr(e.args[0], env, lambda t, ty, env1: k("(inr %s)" % t, ("res", UNKNOWN), env1))
        if len(f.segs) == 1 and name in ("Ok", "Err") and self.res_ind() and len(e.args) == 1:
            rv = self.v["result"]
            if name == "Ok":
                return self.expr(e.args[0], env, lambda t, ty, env1: k("(%s %s)" % (rv["ok"], t), ("result", ty, UNKNOWN), env1))
            return self.expr(e.args[0], env, lambda t, ty, env1: k("(%s %s)" % (rv["err"], t), ("result", UNKNOWN, ty), env1))
        if len(f.segs) == 1 and name in ("Some", "Ok"):
            return self.expr(e.args[0], env, lambda t, ty, env1: k("(Some %s)" % t, ("opt", ty), env1))
        if len(f.segs) == 1 and env.get(name) is not None and env.get(name).ty[0] == "closure" and len(env.get(name).ty) == 4 and not env.get(name).ty[1]:
            # a local closure that captures nothing it assigns (`let brighten = |c, b| ..; brighten(x, y)`): the
            # state-passing function of closure_st applied to the arguments and the empty state
            cv = env.get(name)
            if len(e.args) != len(cv.ty[2]):
                raise EmitError("call of the closure %s with %d arguments" % (name, len(e.args)))

            def k_cl(ts, tys, env1):
                if self.pure_mode:
                    raise NeedsBind()
                if getattr(cv.ty, "node", None) is not None and any(
                        p[0] == "struct" and a[0] == "struct" and p != a for p, a in zip(cv.ty[2], tys)):
                    return self.inline_closure(name, cv, ts, tys, env1, k)
                r = self.fresh("r")
                return "'(_, %s) <- %s %s tt ;;\n%s" % (r, cv.coq, " ".join(ts), k(r, cv.ty[3], env1))
            return self.exprs(e.args, env, k_cl)
        if len(f.segs) == 1 and env.get(name) is not None and env.get(name).ty[0] == "fnval":
            # a local variable / parameter that holds a function (`fmt: &dyn Fn(&T, &mut Formatter) -> fmt::Result`),
            # typed by the vocabulary as ("fnval", ((mode, type), ..), result type, total): applied like a shape
            fv = env.get(name)
            return self.call_shape({"coq": fv.coq, "self": None, "params": list(fv.ty[1]), "ret": fv.ty[2], "total": fv.ty[3], "cfg": False},
                                   None, e.args, env, k)
        key = "::".join(f.segs[-2:]) if len(f.segs) >= 2 else name
        if len(f.segs) >= 2 and f.segs[-2] == "Self" and self.self_struct:
            key = self.self_struct + "::" + name
        # a path into the standard library (`std::io::stdout()`) never names a function of the translated source, even
        # when one of them has the same last segment (anstream's own `stdout()`): only the vocabulary may answer for it
        std_path = len(f.segs) >= 2 and f.segs[0] in ("std", "core", "alloc")
        shape = self.fn_shapes.get(key) or (None if std_path else self.fn_shapes.get(name))
        if shape is None:
            ext = self.v.get("fns", {}).get(key) or self.v.get("fns", {}).get(name)
            if ext is None and len(f.segs) == 1 and env.get(name) is not None and env.get(name).ty[0] == "closure":
                return self.call_closure(env.get(name), e.args, env, k)     # a local closure variable
            if ext is None and len(f.segs) == 2 and name == "from" and f.segs[0] in WIDTH and len(e.args) == 1:
                # `usize::from(x)` / `u32::from(x)` on an unsigned integer that is not wider (`From` exists only for lossless
                # widenings; usize only from u8 / u16): the value itself, at the target type.  A vocabulary entry wins (above).
                tgt = INT(f.segs[0])

                def k_from(t, ty, env1):
                    ok = is_int(ty) and not is_signed(ty) and ty[1] in WIDTH and (
                        WIDTH[ty[1]] <= 16 if tgt[1] == "usize" else ty[1] != "usize" and WIDTH[ty[1]] <= WIDTH[tgt[1]])
                    if not ok:
                        raise EmitError("%s::from(%r): not a lossless widening of an unsigned integer" % (tgt[1], ty))
                    return k(t, tgt, env1)
                return self.expr(e.args[0], env, k_from)
            if ext is None:
                # neither translated nor in the vocabulary: a helper DEFINED in the parsed source is inlined
                loc = self.local_callee(f.segs)
                if loc is not None:
                    return self.inline_call(loc[0], loc[1], e.args, env, k)
                raise EmitError("call of unknown function %s" % "::".join(f.segs))
            if callable(ext):
                return ext(self, e, env, k)
            shape = ext
        if shape.get("self"):
            return self.call_shape(shape, e.args[0], e.args[1:], env, k)
        return self.call_shape(shape, None, e.args, env, k)

    def e_mcall(self, e, env, k):
        name = e.name
        if name in ("find", "any", "all") and len(e.args) == 1 and e.args[0].kind == "closure":
            rc = self.range_chain(e, env)
            if rc is not None:
                return self.expr(rc, env, k)
        # methods that only adjust references / copies
        if name in ("iter", "copied", "cloned", "as_ref", "as_mut", "by_ref", "clone", "into", "as_slice", "as_bytes", "to_owned", "borrow", "borrow_mut", "as_deref") and not e.args:
            skip = self.v.get("no_transparent", ())
            if name not in skip:
                return self.expr(e.recv, env, k)
        # sinks (event accumulators)
        root = self.place_root(e.recv)
        rv = env.get(root) if root else None
        if rv is not None and rv.ty[0] == "sink" and e.recv.kind == "path":
            sink = self.v["sinks"][rv.ty[1]]
            if name not in sink["methods"]:
                raise EmitError("sink method %s" % name)
            ctor, convs = sink["methods"][name]

            def k_args(ts, tys, env1):
                def conv(j, acc, env2):
                    if j == len(ts):
                        ev = "(%s %s)" % (ctor, " ".join(acc)) if acc else ctor
                        return self.write_place(e.recv, "(%s ++ [%s])" % (env2.get(root).coq, ev), env2, lambda env3: k("tt", UNIT, env3))
                    c = convs[j] if j < len(convs) else None
                    if c is None:
                        return conv(j + 1, acc + [ts[j]], env2)
                    fn, panics = c
                    if panics:
                        return self.bind("%s %s" % (fn, ts[j]), UNKNOWN, env2, lambda x, _t, env3: conv(j + 1, acc + [x], env3), hint="cv")
                    return conv(j + 1, acc + ["(%s %s)" % (fn, ts[j])], env2)
                return conv(0, [], env1)
            return self.exprs(e.args, env, k_args)

        if rv is not None and rv.ty[0] == "lazycur" and e.recv.kind == "path":
            return self.lazy_cursor_call(e, root, rv, env, k)
        if name == "try_for_each" and len(e.args) == 1 and e.args[0].kind == "closure" and len(e.args[0].params) == 1:
            lz = self.lazy_iter_of(e.recv, env)
            if lz is not None:
                # `recv.method(args).try_for_each(|x| body)`  is  `for x in recv.method(args) { body?; }` whose value is
                # the first Err, else Ok(()): the SAME loop term as the `for` spelling, continued by k instead of a return
                cl = e.args[0]
                body = N("block", stmts=[N("expr", e=N("try", e=cl.body), semi=True, attrs=[])], tail=None)
                return self.for_lazy(N("for", pat=cl.params[0][0], iter=e.recv, body=body, label=None), lz, env, k, value=True)

        def k_recv(rt, rty, env1):
            tname = rty[1] if rty[0] in ("struct", "enum") else rty[0]
            if rty[0] == "coq":
                tname = "coq"
            # translated methods of a struct
            # a receiver that is no place (a call chain `a().b().c()`) and is only read: it has been
            # evaluated just now, pass the term on instead of translating the expression a second time
            recv = e.recv
            if self.place_root(e.recv) is None:
                recv = N("term", term=rt, ty=rty)
            shape = self.fn_shapes.get("%s::%s" % (tname, name))
            if shape is not None:
                return self.call_shape(shape, recv if shape.get("self") == "in" else e.recv, e.args, env1, k)
            ent = self.v.get("methods", {}).get((tname, name)) or self.v.get("fns", {}).get("%s::%s" % (tname, name))
            if ent is not None:
                if callable(ent):
                    return ent(self, e, rt, rty, env1, k)
                return self.call_shape(ent, recv if ent.get("self") == "in" else e.recv, e.args, env1, k)
            b = getattr(self, "m_%s_%s" % (rty[0], name), None)
            if b is not None:
                return b(e, rt, rty, env1, k)
            # a method of a struct / enum of the parsed source that is neither translated nor in the
            # vocabulary: inlined (the receiver has been evaluated: rt)
            if rty[0] in ("struct", "enum"):
                fn = self.local_method(rty[1], name)
                if fn is not None and fn.self_kind:
                    return self.inline_call(fn, rty[1], [e.recv] + list(e.args), env1, k, recv_val=(rt, rty))
            # `opt.map(|x| body)` / `opt.and_then(|x| body)` with a one-parameter closure, when the vocabulary has no entry of
            # its own: the same thing as `match opt { Some(x) => Some(body), None => None }` (`and_then`: `=> body`) -- the
            # body may assign, panic or return like any match arm
            if rty[0] == "opt" and name == "map_or" and len(e.args) == 2 and e.args[1].kind == "closure" and len(e.args[1].params) == 1:
                # `opt.map_or(default, |x| body)` = `match opt { Some(x) => body, None => default }` (the default is an
                # argument, evaluated first: accepted only when it is a literal / path / reference to one, i.e. effect-free)
                dflt = e.args[0]
                d0 = dflt
                while d0.kind in ("ref", "unary", "index", "paren") and hasattr(d0, "e"):
                    d0 = d0.e
                if d0.kind not in ("path", "lit", "array", "int", "str", "bstr", "range"):
                    raise EmitError("map_or: default argument %s is not a constant" % d0.kind)
                cl = e.args[1]
                m = N("match", scrut=recv, arms=[(N("ptstruct", segs=["Some"], elems=[cl.params[0][0]]), None, cl.body),
                                                (N("ppath", segs=["None"]), None, dflt)], arm_attrs=[[], []])
                return self.expr(m, env1, k)
            if rty[0] == "opt" and name in ("map", "and_then") and len(e.args) == 1 and e.args[0].kind == "closure" \
                    and len(e.args[0].params) == 1:
                cl = e.args[0]
                pat = cl.params[0][0]
                body = cl.body if name == "and_then" else N("call", f=N("path", segs=["Some"]), args=[cl.body])
                m = N("match", scrut=recv, arms=[(N("ptstruct", segs=["Some"], elems=[pat]), None, body),
                                                (N("ppath", segs=["None"]), None, N("path", segs=["None"]))], arm_attrs=[[], []])
                return self.expr(m, env1, k)
            raise EmitError("method %s on %r" % (name, rty))
        return self.expr(e.recv, env, k_recv)

    # builtin methods: lists
    def m_list_len(self, e, rt, rty, env, k):
        return k("(len %s)" % rt, INT("usize"), env)

    def m_list_is_empty(self, e, rt, rty, env, k):
        return k("(is_empty %s)" % rt, BOOL, env)

    def m_list_push(self, e, rt, rty, env, k):
        return self.expr(e.args[0], env, lambda t, _ty, env1: self.write_place(e.recv, "(%s ++ [%s])" % (rt, t), env1, lambda env2: k("tt", UNIT, env2)))

    def m_list_clear(self, e, rt, rty, env, k):
        return self.write_place(e.recv, "[]", env, lambda env2: k("tt", UNIT, env2))

    # `xs.iter().filter(|p| test)`, `.map(|p| value)` with an effect-free closure, `v.extend(<list>)`: the list functions
    # (a vocabulary entry `("list", "map")` wins, e_mcall)
    def m_list_filter(self, e, rt, rty, env, k):
        f, ty = self.pure_fun(e.args[0] if len(e.args) == 1 else None, rty[1], env, "Iterator::filter")
        if ty != BOOL:
            raise EmitError("Iterator::filter: the closure does not answer a bool")
        return k("(filter %s %s)" % (f, rt), rty, env)

    def m_list_map(self, e, rt, rty, env, k):
        f, ty = self.pure_fun(e.args[0] if len(e.args) == 1 else None, rty[1], env, "Iterator::map")
        return k("(map %s %s)" % (f, rt), ("list", ty), env)

    def m_list_fold(self, e, rt, rty, env, k):
        """`it.fold(init, |acc, x| step)` with an effect-free step: fold_left"""
        if len(e.args) != 2:
            raise EmitError("fold takes two arguments")

        def k1(it, ity, env1):
            f, ty = self.pure_fun(e.args[1], [ity, rty[1]], env1, "Iterator::fold")
            if ty != ity:
                raise EmitError("Iterator::fold: the step answers %r, the accumulator is a %r" % (ty, ity))
            return k("(fold_left %s %s %s)" % (f, rt, it), ity, env1)
        return self.expr(e.args[0], env, k1)

    def m_list_extend(self, e, rt, rty, env, k):
        if len(e.args) != 1:
            raise EmitError("extend takes one argument")

        def k1(t, ty, env1):
            if ty[0] != "list" or (rty[1] != UNKNOWN and ty[1] != UNKNOWN and ty[1] != rty[1]):
                raise EmitError("extend of %r with %r" % (rty, ty))
            return self.write_place(e.recv, "(%s ++ %s)" % (rt, t), env1, lambda env2: k("tt", UNIT, env2))
        return self.expr(e.args[0], env, k1)

    def m_list_split_at(self, e, rt, rty, env, k):
        return self.expr(e.args[0], env, lambda t, _ty, env1: self.bind("split_at %s %s" % (rt, t), ("tuple", (rty, rty)), env1, k, hint="sp"))

    def m_list_split_first(self, e, rt, rty, env, k):
        return k("(match %s with [] => None | x :: t => Some (x, t) end)" % rt, ("opt", ("tuple", (rty[1], rty))), env)

    def m_list_last(self, e, rt, rty, env, k):
        """`s.last()` on a slice / array / Vec: `None` when empty, else the element at `len - 1` (no panic)"""
        if e.args:
            raise EmitError("last takes no argument")
        return k("(nth_error %s (Nat.pred (length %s)))" % (rt, rt), ("opt", rty[1]), env)

    def m_list_first(self, e, rt, rty, env, k):
        """`s.first()`: `None` when empty, else the element at 0 (no panic)"""
        if e.args:
            raise EmitError("first takes no argument")
        return k("(nth_error %s 0%%nat)" % rt, ("opt", rty[1]), env)

    def m_list_get(self, e, rt, rty, env, k):
        """`s.get(i)` on a slice / array / Vec with ONE unsigned integer index (no range): `None` past the end, else the
        element (no panic); `.copied()` / `.cloned()` on the answer are transparent (e_mcall)"""
        if len(e.args) != 1 or e.args[0].kind == "range":
            raise EmitError("get takes one integer index")

        def k1(i, ity, env1):
            if not is_int(ity) or is_signed(ity):
                raise EmitError("get: the index is a %r" % (ity,))
            return k("(nth_error %s (N.to_nat %s))" % (rt, i), ("opt", rty[1]), env1)
        return self.expr(e.args[0], env, k1)

    def m_list_position(self, e, rt, rty, env, k):
        cl = e.args[0]
        if cl.kind != "closure" or len(cl.params) != 1:
            raise EmitError("position needs a one-parameter closure")
        return self.closure_st(cl, [rty[1]], env, lambda fterm, cap, env1: self.bind(
            "position_st %s %s %s 0" % (fterm, rt, self.tuple_of([env1.get(n).coq for n in cap])), UNKNOWN, env1,
            lambda x, _t, env2: self.unpack_state(cap, "(fst %s)" % x, env2, lambda env3: k("(snd %s)" % x, ("opt", INT("usize")), env3)), hint="pos"))

    # builtin methods: integers
    def m_int_is_ascii(self, e, rt, rty, env, k):
        return k("(is_ascii %s)" % rt, BOOL, env)

    def m_int_is_ascii_whitespace(self, e, rt, rty, env, k):
        return k("(is_ascii_whitespace %s)" % rt, BOOL, env)

    def m_int_saturating_mul(self, e, rt, rty, env, k):
        return self.sat(e, rt, rty, env, k, "*")

    def m_int_saturating_add(self, e, rt, rty, env, k):
        return self.sat(e, rt, rty, env, k, "+")

    def m_int_checked_sub(self, e, rt, rty, env, k):
        """`a.checked_sub(b)` on an unsigned integer: `Some(a - b)` when `b <= a`, else `None` (no panic)"""
        if WIDTH.get(rty[1]) is None or str(rty[1]).startswith("i"):
            raise EmitError("checked_sub on %r" % (rty,))
        return self.expr(e.args[0], env, lambda t, _ty, env1: k("(if %s <=? %s then Some (%s - %s) else None)" % (t, rt, rt, t), ("opt", rty), env1),
                         expect=rty)

    def m_int_wrapping_sub(self, e, rt, rty, env, k):
        w = WIDTH.get(rty[1])
        if w is None or str(rty[1]).startswith("i"):
            raise EmitError("wrapping_sub on %r" % (rty,))
        return self.expr(e.args[0], env, lambda t, _ty, env1: k("((%s + %d - %s) mod %d)" % (rt, 2 ** w, t, 2 ** w), rty, env1), expect=rty)

    def sat(self, e, rt, rty, env, k, op):
        w = WIDTH.get(rty[1])
        if w is None:
            raise EmitError("saturating arithmetic on %r" % (rty,))
        a = e.args[0]
        def k1(t, _ty, env1):
            return k("(N.min %d (%s %s %s))" % (2 ** w - 1, rt, op, t), rty, env1)
        if a.kind == "int":
            return k1(str(a.val), rty, env)
        return self.expr(a, env, k1)

    # builtin methods: options
    def m_opt_is_none(self, e, rt, rty, env, k):
        return k("(opt_is_none %s)" % rt, BOOL, env)

    def m_opt_is_some(self, e, rt, rty, env, k):
        return k("(opt_is_some %s)" % rt, BOOL, env)

    def m_opt_unwrap_or(self, e, rt, rty, env, k):
        return self.expr(e.args[0], env, lambda t, _ty, env1: k("(opt_unwrap_or %s %s)" % (rt, t), rty[1], env1))

    def m_opt_unwrap(self, e, rt, rty, env, k):
        return self.bind(rt, rty[1], env, k, hint="u")

    m_opt_expect = m_opt_unwrap

    # builtin methods: bool
    def m_bool_then_some(self, e, rt, rty, env, k):
        """c.then_some(x) = if c { Some(x) } else { None } (x is evaluated first: it is an argument);
        `(!c).then_some(x)` is spelled like `if c { None } else { Some(x) }`"""
        if len(e.args) != 1:
            raise EmitError("then_some takes one argument")

        def k1(t, ty, env1):
            if rt.startswith("(negb ") and rt.endswith(")") and self.balanced(rt[6:-1]):
                return k("(if %s then None else (Some %s))" % (rt[6:-1], t), ("opt", ty), env1)
            return k("(if %s then (Some %s) else None)" % (rt, t), ("opt", ty), env1)
        return self.expr(e.args[0], env, k1)

    @staticmethod
    def balanced(t):
        d = 0
        for ch in t:
            if ch == "(":
                d += 1
            elif ch == ")":
                d -= 1
                if d < 0:
                    return False
        return d == 0

    # -- macros --------------------------------------------------------------
    def e_macro(self, e, env, k):
        name = e.name.split("::")[-1]
        h = self.v.get("macros", {}).get(name)
        if h is not None:
            return h(self, e, env, k)
        if name == "matches":
            sc, pat, guard = parse_matches_macro(e.toks)
            arms = [(pat, guard, N("bool", val=True)), (N("pwild"), None, N("bool", val=False))]
            # a pure scrutinee and a test-only pattern: a boolean expression
            pr = self.try_pure(sc, env)
            if pr is not None and guard is None:
                binds = []
                try:
                    t = self.pat_test(pat, pr[0], pr[1], binds)
                    if not binds and t is not None:
                        return k(t, BOOL, env)
                except EmitError:
                    pass
            return self.e_match(N("match", scrut=sc, arms=arms), env, k)
        if name in ("unreachable", "panic", "unimplemented", "todo"):
            return "None"
        if name in ("debug_assert", "assert"):
            args = parse_macro_args(e.toks)
            return self.expr(args[0], env, lambda c, _t, env1: "if %s then\n%s\nelse None" % (c, ind(k("tt", UNIT, env1))))
        if name == "cfg":
            key = "".join(t.text for t in e.toks)
            feats = self.v.get("features", {})
            if key not in feats:
                raise EmitError("cfg!(%s): not in the vocabulary" % key)
            return k(feats[key], BOOL, env)
        raise EmitError("macro %s!" % name)

    # -- closures and loops --------------------------------------------------
    def tuple_of(self, names):
        if not names:
            return "tt"
        if len(names) == 1:
            return names[0]
        return "(" + ", ".join(names) + ")"

    def unpack_state(self, names, term, env, k):
        """rebind the variables `names` from a state tuple"""
        if not names:
            return k(env)
        news = []
        env2 = env
        for n in names:
            c = self.fresh(env.get(n).coq.rstrip("0123456789") or n)
            news.append(c)
            env2 = env2.rebind(n, c)
        if len(names) == 1:
            return "let %s := %s in\n%s" % (news[0], term, k(env2))
        return "let '(%s) := %s in\n%s" % (", ".join(news), term, k(env2))

    def assigned(self, node, env, acc=None):
        """variables of env that the AST below `node` may assign (syntactic, conservative)"""
        if acc is None:
            acc = []

        def add(n):
            if n and n in env.vars and n not in acc:
                acc.append(n)

        def walk(x):
            if isinstance(x, N):
                if x.kind == "assign":
                    add(self.place_root(x.lhs))
                elif x.kind == "unary" and x.op == "&mut":
                    add(self.place_root(x.e))
                elif x.kind == "mcall":
                    r = self.place_root(x.recv)
                    if r and r in env.vars:
                        if self.method_mutates(x, env):
                            add(r)
                        if env.vars[r].ty[0] == "lazycur":
                            # a lazy iterator bound by `let mut`: stepping it advances the cursor AND the receiver
                            # that it borrows mutably
                            add(r)
                            add(env.vars[r].ty[1])
                    # a `&mut` variable passed on by name to a method (as for calls below)
                    for a in x.args:
                        if a.kind == "path" and len(a.segs) == 1 and a.segs[0] in env.vars and env.vars[a.segs[0]].mut == "ref":
                            add(a.segs[0])
                elif x.kind == "macro" and self.v.get("macro_writes"):
                    # optional vocabulary key `macro_writes`: callable(em, macro node) -> names of the variables the
                    # macro call assigns (`write!(f, ..)`: f); macro arguments are tokens, not AST
                    for n in self.v["macro_writes"](self, x):
                        add(n)
                elif x.kind == "macro" and not self.v.get("macro_writes"):
                    # a vocabulary macro that writes to one of its arguments (`write!(buf, ..)`): the callable's
                    # optional attribute `writes(macro node) -> [place expressions]`
                    h = self.v.get("macros", {}).get(x.name.split("::")[-1])
                    wr = getattr(h, "writes", None)
                    if wr is not None:
                        for a in wr(x):
                            add(self.place_root(a))
                elif x.kind == "call":
                    # a `&mut` variable passed on by name
                    for a in x.args:
                        if a.kind == "path" and len(a.segs) == 1 and a.segs[0] in env.vars and env.vars[a.segs[0]].mut == "ref":
                            add(a.segs[0])
                for v in x.__dict__.values():
                    walk(v)
            elif isinstance(x, (list, tuple)):
                for y in x:
                    walk(y)
        walk(node)
        return [n for n in env.vars if n in acc]

    MUTATING = {"push", "clear", "pop", "pop_front", "push_back", "insert", "remove", "extend", "truncate", "take", "advance", "add", "reset", "write", "write_all", "flush"}

    def method_mutates(self, x, env):
        root = self.place_root(x.recv)
        v = env.get(root)
        if v is not None and v.ty[0] == "sink":
            return True
        for key, shape in self.fn_shapes.items():
            if key.endswith("::" + x.name) and shape.get("self") == "inout":
                return True
        for (tn, mn), ent in self.v.get("methods", {}).items():
            if mn == x.name and (callable(ent) and getattr(ent, "mutates", False) or (isinstance(ent, dict) and ent.get("self") == "inout")):
                return True
        for a in x.args:
            if a.kind == "path" and len(a.segs) == 1 and env.get(a.segs[0]) is not None and env.get(a.segs[0]).mut == "ref":
                pass
        # a local helper method that may be inlined (inline_call) and takes `&mut self`
        # (by name, whatever the impl: over-approximating the assigned variables is harmless)
        if x.name in self.local_mut_methods():
            return True
        return x.name in self.MUTATING

    def closure_st(self, cl, ptys, env, k):
        """closure that may assign captured variables: fun args state => option (state * result).
        k(fterm, captured names, env)"""
        cap = self.assigned(cl.body, env)
        pnames = []
        env2 = env
        for (p, ty), pty in zip(cl.params, ptys):
            while p.kind == "pref":
                p = p.inner
            if p.kind != "pident":
                raise EmitError("closure parameter pattern")
            c = self.fresh(p.name)
            pnames.append(c)
            env2 = env2.bind(p.name, c, self.ty_of_ast(ty) if ty is not None else pty)
        st = []
        for n in cap:
            c = self.fresh(env.get(n).coq.rstrip("0123456789") or n)
            st.append(c)
            env2 = env2.rebind(n, c)
        stpat = "_" if not st else (st[0] if len(st) == 1 else "'(%s)" % ", ".join(st))
        if not st and self.v.get("closure_unit_state"):
            stpat = "(_ : unit)"        # (a closure every call of which was inlined, inline_closure, is never applied to `tt`)
        if self.v.get("closure_state_types") and len(st) > 1:
            # optional vocabulary key `closure_state_types: True`: the tuple of captured variables is annotated with its
            # type (Coq cannot always infer the product from the body)
            stpat = "'((%s) : %s)" % (", ".join(st), " * ".join(self.coq_ty(env.get(n).ty) for n in cap))

        def fin(envx, term, ty=None):
            if ty is not None and ty != UNKNOWN:
                self.closure_ret_ty = ty       # the closure's result type (4th component of a closure value's type)
            return "Some (%s, %s)" % (self.tuple_of([envx.by_decl(n, env.get(n).decl).coq for n in cap]), term)
        old = self.ctl
        oldpm = self.pure_mode
        self.pure_mode = 0
        self.closure_ret_ty = UNKNOWN
        self.ctl = Ctl(lambda envx, t, ty: fin(envx, t, ty))
        try:
            def fin_ty(t, ty, envx):
                self.closure_ret = ty
                return fin(envx, t, ty)
            body = self.expr(cl.body, env2, fin_ty)
        finally:
            self.ctl = old
            self.pure_mode = oldpm
        fterm = "(fun %s %s =>\n%s)" % (" ".join(pnames), stpat, ind(body, 4))
        return k(fterm, cap, env)

    def loop_fuel(self, cond=None, env=None):
        fuels = self.v.get("fuel", {}).get(self.cur_fn, [])
        i = self.loop_idx
        self.loop_idx += 1
        if i >= len(fuels):
            auto = self.auto_fuel(cond, env) if self.v.get("fuel_auto") else None
            if auto is not None:
                return auto
            raise EmitError("while/loop #%d in %s: no fuel expression in the vocabulary" % (i, self.cur_fn))
        return fuels[i]

    def auto_fuel(self, cond, env):
        """optional vocabulary key `fuel_auto: True`: a `while i < xs.len()` that has no fuel expression in the vocabulary
        (the loop moved into a helper that is inlined into a function the vocabulary has no entry for) gets one step per
        entry of `xs` and one for the final test, `(S (length xs))`, when `xs` translates to a plain term.  Fuel is never
        trusted: a loop that runs out of it answers None, and the proof about the function fails."""
        if cond is None or env is None or cond.kind != "binary" or cond.op != "<":
            return None
        r = cond.r
        while r.kind == "paren":
            r = r.e
        if r.kind != "mcall" or r.name != "len" or r.args:
            return None
        cell = []
        oldpm = self.pure_mode
        self.pure_mode = 1
        try:
            rest = self.expr(r.recv, env, lambda t, ty, _e: cell.append((t, ty)) or "\0")
        except (EmitError, NeedsBind):
            return None
        finally:
            self.pure_mode = oldpm
        if rest != "\0" or len(cell) != 1 or cell[0][1][0] != "list":
            return None
        return "(S (length %s))" % cell[0][0]

    def has_break(self, node):
        """any `break` below `node` (also inside nested loops: a labelled one may leave the outer loop)"""
        found = []

        def walk(x):
            if isinstance(x, N):
                if x.kind == "break":
                    found.append(1)
                if x.kind == "closure":
                    return
                for v in x.__dict__.values():
                    walk(v)
            elif isinstance(x, (list, tuple)):
                for y in x:
                    walk(y)
        walk(node)
        return bool(found)

    def has_return(self, node):
        found = []

        def walk(x):
            if isinstance(x, N):
                if x.kind == "return" or (x.kind == "try" and not self.try_total(x)):
                    found.append(1)
                if x.kind == "closure":
                    return
                for v in x.__dict__.values():
                    walk(v)
            elif isinstance(x, (list, tuple)):
                for y in x:
                    walk(y)
        walk(node)
        return bool(found)

    def iter_source(self, it, env, k):
        """the list a for loop runs over; k(list term, element type, env)"""
        if it.kind == "range":
            def k_lo(lo, lty, env1):
                def k_hi(hi, hty, env2):
                    n = "(%s + 1 - %s)" % (hi, lo) if it.incl else "(%s - %s)" % (hi, lo)
                    return k("(range_from %s (N.to_nat %s))" % (lo, n), hty if is_int(hty) else INT("usize"), env2)
                return self.expr(it.hi, env1, k_hi)
            return self.expr(it.lo, env, k_lo) if it.lo is not None else k_lo("0", INT("usize"), env)
        conv = self.v.get("iter_conv", {})

        def k1(t, ty, env1):
            key = ty[1] if ty[0] in ("struct",) else ty[0]
            if key in conv:
                fn, panics, elt = conv[key]
                if panics:
                    return self.bind("%s %s" % (fn, t), UNKNOWN, env1, lambda x, _t, env2: k(x, elt, env2), hint="it")
                return k("(%s %s)" % (fn, t), elt, env1)
            if ty[0] == "list":
                return k(t, ty[1], env1)
            raise EmitError("for loop over %r" % (ty,))
        return self.expr(it, env, k1)

    def e_for(self, e, env, k):
        if self.v.get("for_mut") and e.iter.kind == "unary" and e.iter.op == "&mut":
            return self.for_mut(e, env, k)
        lz = self.lazy_iter_of(e.iter, env)
        if lz is not None:
            return self.for_lazy(e, lz, env, k)
        st = self.assigned(e.body, env)
        ret = self.has_return(e.body)

        def k_src(lst, elt, env1):
            x = self.fresh("x")
            env2 = env1
            stn = []
            for n in st:
                c = self.fresh(env1.get(n).coq.rstrip("0123456789") or n)
                stn.append(c)
                env2 = env2.rebind(n, c)
            stpat = "_" if not st else (stn[0] if len(st) == 1 else "'(%s)" % ", ".join(stn))
            tup = lambda envx: self.tuple_of([envx.by_decl(n, env1.get(n).decl).coq for n in st])
            nxt, brk = ("LNext", "LBreak") if ret else ("BNext", "BBreak")
            old = self.ctl
            oldpm = self.pure_mode
            self.pure_mode = 0
            # optional vocabulary key `for_ret_state`: a `return` inside the loop carries the loop variables
            # (as `loop_ret_state` does for while loops); without it they keep their values from before the loop
            rs = bool(self.v.get("for_ret_state"))
            self.ctl = Ctl(((lambda envx, t, ty: "Some (LRet (%s, %s))" % (tup(envx), t)) if rs else (lambda envx, t, ty: "Some (LRet %s)" % t)) if ret else old.ret,
                           lambda envx: "Some (%s %s)" % (brk, tup(envx)), lambda envx: "Some (%s %s)" % (nxt, tup(envx)))
            if not ret:
                # a `return` cannot occur (has_return is false)
                self.ctl.ret = lambda envx, t, ty: (_ for _ in ()).throw(EmitError("return inside a loop translated without return"))
            try:
                body = self.bind_pattern(e.pat, x, elt, env2, lambda env3: self.expr(e.body, env3, lambda _t, _ty, envx: "Some (%s %s)" % (nxt, tup(envx))))
            finally:
                self.ctl = old
                self.pure_mode = oldpm
            fterm = "(fun %s %s =>\n%s)" % (x, stpat, ind(body, 4))
            init = self.tuple_of([env1.get(n).coq for n in st])
            if not ret:
                return self.bind("for_list0 %s %s %s" % (fterm, lst, init), UNKNOWN, env1,
                                 lambda r, _t, env3: self.unpack_state(st, r, env3, lambda env4: k("tt", UNIT, env4)), hint="st")
            r = self.fresh("lr")
            s2 = self.fresh("st")
            v = self.fresh("rv")
            if self.pure_mode:
                raise NeedsBind()
            if rs:
                s3 = self.fresh("st")
                return "%s <- for_list %s %s %s ;;\nmatch %s with\n| inl %s =>\n%s\n| inr (%s, %s) =>\n%s\nend" % (
                    r, fterm, lst, init, r, s2, ind(self.unpack_state(st, s2, env1, lambda env4: k("tt", UNIT, env4)), 4),
                    s3, v, ind(self.unpack_state(st, s3, env1, lambda env4: self.ctl.ret(env4, v, UNKNOWN)), 4))
            return "%s <- for_list %s %s %s ;;\nmatch %s with\n| inl %s =>\n%s\n| inr %s =>\n%s\nend" % (
                r, fterm, lst, init, r, s2, ind(self.unpack_state(st, s2, env1, lambda env4: k("tt", UNIT, env4)), 4),
                v, ind(self.ctl.ret(env1, v, UNKNOWN), 4))
        return self.iter_source(e.iter, env, k_src)

    # -- lazy iterators (vocabulary `lazy_iters`) ----------------------------------
    # `for x in recv.method(args) { body }` where the iterator borrows `recv` mutably and advances it
    # one element per `next` (StripBytes::strip_next): the loop is a fuelled while over
    # (cursor, assigned variables incl. recv); every `next` threads recv through the vocabulary's
    # step function  next : cursor -> recv -> option (option elt * cursor * recv).
    # entry: {(type name, method): {"new": coq fn of the call's arguments -> cursor, "next": coq fn,
    #                               "elt": element type}}
    def lazy_iter_of(self, it, env):
        tab = self.v.get("lazy_iters")
        if not tab or it.kind != "mcall":
            return None
        root = self.place_root(it.recv)
        rv = env.get(root) if root else None
        if rv is None or it.recv.kind not in ("path",):
            return None
        tname = rv.ty[1] if rv.ty[0] in ("struct", "enum") else rv.ty[0]
        ent = tab.get((tname, it.name))
        if ent is None:
            return None
        return (ent, root, it)

    def let_lazy_cursor(self, s, env, rest):
        """`let mut runs = recv.method(args);`: the variable holds the CURSOR (type ("lazycur", receiver, key)); the
        receiver stays where it is and every `runs.next()` threads it through the vocabulary's step function, exactly
        as the `for` loop over the same call does (for_lazy)"""
        ent, root, it = self.lazy_iter_of(s.init, env)
        rty = env.get(root).ty
        key = (rty[1] if rty[0] in ("struct", "enum") else rty[0], it.name)

        def k_args(ats, _tys, env1):
            cur0 = "(%s %s)" % (ent["new"], " ".join(ats)) if ats else ent["new"]
            cur = self.fresh("it")
            pre = ""
            env2 = env1
            if ent.get("enter"):
                r0 = self.fresh(env1.get(root).coq.rstrip("0123456789") or root)
                pre = "let %s := (%s %s) in\n" % (r0, ent["enter"], env1.get(root).coq)
                env2 = env1.rebind(root, r0)
            return "%slet %s := %s in\n%s" % (pre, cur, cur0, rest(env2.bind(s.pat.name, cur, ("lazycur", root, key), True)))
        return self.exprs(it.args, env, k_args)

    def lazy_cursor_call(self, e, name, var, env, k):
        """`runs.next()` on a cursor bound by let_lazy_cursor: Option<element>; the cursor and the receiver move on"""
        _tag, root, key = var.ty
        ent = self.v["lazy_iters"][key]
        if e.name != "next" or e.args or e.recv.kind != "path" or len(e.recv.segs) != 1:
            raise EmitError("method %s on a lazy iterator bound by let (only `.next()` is modelled)" % e.name)
        if env.get(root) is None:
            raise EmitError("the receiver of the lazy iterator %s is shadowed" % name)
        if self.pure_mode:
            raise NeedsBind()
        o = self.fresh("o")
        cur1 = self.fresh("it")
        r1 = self.fresh(env.get(root).coq.rstrip("0123456789") or root)
        env1 = env.rebind(name, cur1).rebind(root, r1)
        return "'(%s, %s, %s) <- %s %s %s ;;\n%s" % (o, cur1, r1, ent["next"], var.coq, env.get(root).coq, k(o, ("opt", ent["elt"]), env1))

    def for_lazy(self, e, lz, env, k, value=False):
        ent, root, it = lz
        fuel = self.loop_fuel()
        acc = self.assigned(e.body, env)
        st = [n for n in env.vars if n in acc or n == root]
        ret = self.has_return(e.body)

        def k_args(ats, _tys, env1):
            cur0 = "(%s %s)" % (ent["new"], " ".join(ats)) if ats else ent["new"]
            cur = self.fresh("it")
            if ent.get("enter"):
                # what creating the iterator does to the receiver (extract_next: capture.reset())
                r0 = self.fresh(env1.get(root).coq.rstrip("0123456789") or root)
                return "let %s := (%s %s) in\n%s" % (r0, ent["enter"], env1.get(root).coq,
                                                     k_loop(ats, cur0, cur, env1.rebind(root, r0)))
            return k_loop(ats, cur0, cur, env1)

        def k_loop(ats, cur0, cur, env1):
            env2 = env1
            stn = []
            for n in st:
                c = self.fresh(env1.get(n).coq.rstrip("0123456789") or n)
                stn.append(c)
                env2 = env2.rebind(n, c)
            # (a variable of the body that shadows a loop variable must not leak into the loop state)
            tup = lambda envx, cu: self.tuple_of([cu] + [self.restrict(envx, env2).get(n).coq for n in st])
            nxt, brk = ("LNext", "LBreak") if ret else ("BNext", "BBreak")
            o = self.fresh("o")
            cur1 = self.fresh("it")
            r1 = self.fresh(env2.get(root).coq.rstrip("0123456789") or root)
            env3 = env2.rebind(root, r1)
            x = self.fresh("x")
            old = self.ctl
            oldpm = self.pure_mode
            self.pure_mode = 0
            if ret:
                retf = lambda envx, t, ty: "Some (LRet (%s, %s))" % (tup(envx, cur1), t)
            else:
                retf = lambda envx, t, ty: (_ for _ in ()).throw(EmitError("return inside a loop translated without return"))
            self.ctl = Ctl(retf, lambda envx: "Some (%s %s)" % (brk, tup(envx, cur1)), lambda envx: "Some (%s %s)" % (nxt, tup(envx, cur1)))
            try:
                body = self.bind_pattern(e.pat, x, ent["elt"], env3,
                                         lambda env4: self.expr(e.body, env4, lambda _t, _ty, envx: "Some (%s %s)" % (nxt, tup(envx, cur1))))
            finally:
                self.ctl = old
                self.pure_mode = oldpm
            step = "'(%s, %s, %s) <- %s %s %s ;;\nmatch %s with\n| None => Some (%s %s)\n| Some %s =>\n%s\nend" % (
                o, cur1, r1, ent["next"], cur, env2.get(root).coq, o, brk, tup(env3, cur1), x, ind(body, 4))
            fterm = "(fun '(%s) =>\n%s)" % (", ".join([cur] + stn), ind(step, 4))
            init = self.tuple_of([cur0] + [env1.get(n).coq for n in st])
            if self.pure_mode:
                raise NeedsBind()

            def after(envx, kk):
                """rebind the loop variables from a fresh tuple pattern; kk(pattern, env)"""
                names = [self.fresh("it")]
                env5 = envx
                for n in st:
                    c = self.fresh(envx.get(n).coq.rstrip("0123456789") or n)
                    names.append(c)
                    env5 = env5.rebind(n, c)
                return kk("(" + ", ".join(names) + ")", env5)
            if not ret:
                r = self.fresh("st")
                return "%s <- while_fuel0 %s %s %s ;;\n%s" % (
                    r, fuel, fterm, init, after(env1, lambda pat, env5: "let '%s := %s in\n%s" % (pat, r, k("tt", UNIT, env5))))
            r = self.fresh("lr")
            v = self.fresh("rv")
            if value:
                # try_for_each: the loop's value is Ok(()) when it ran to the end, else the Err the body `?`-returned
                return "%s <- while_fuel %s %s %s ;;\nmatch %s with\n| inl %s\n| inr %s\nend" % (
                    r, fuel, fterm, init, r,
                    after(env1, lambda pat, env5: "%s =>\n%s" % (pat, ind(k("(inl tt)", ("res", UNIT), env5), 4))),
                    after(env1, lambda pat, env5: "(%s, %s) =>\n%s" % (pat, v, ind(k(v, ("res", UNIT), env5), 4))))
            return "%s <- while_fuel %s %s %s ;;\nmatch %s with\n| inl %s\n| inr %s\nend" % (
                r, fuel, fterm, init, r,
                after(env1, lambda pat, env5: "%s =>\n%s" % (pat, ind(k("tt", UNIT, env5), 4))),
                after(env1, lambda pat, env5: "(%s, %s) =>\n%s" % (pat, v, ind(self.ctl.ret(env5, v, UNKNOWN), 4))))
        return self.exprs(it.args, env, k_args)

    # a closure as a value (bound by `let`, handed to a vocabulary function): the state-passing
    # function of closure_st; its type records the captured (assigned) variables
    def e_closure(self, e, env, k):
        ptys = [self.ty_of_ast(ty) if ty is not None else UNKNOWN for _p, ty in e.params]
        # optional vocabulary key `closure_param_types: {fn: [types]}`: the types of closure parameters written without
        # a type annotation (`|c| ..`), by position
        given = self.v.get("closure_param_types", {}).get(self.cur_fn)
        if given is not None and len(given) == len(ptys):
            ptys = [g if p == UNKNOWN else p for p, g in zip(ptys, given)]
        self.closure_ret = None

        def k1(fterm, cap, env1):
            # ("closure", captured, parameter types, result type); `.ret` = the result type again (call_closure)
            ret = getattr(self, "closure_ret_ty", UNKNOWN)
            if ret == UNKNOWN and self.closure_ret is not None:
                ret = self.closure_ret
            ty = ClosureTy(("closure", tuple(cap), tuple(ptys), ret))
            ty.ret = self.closure_ret if self.closure_ret is not None else ret
            ty.node, ty.denv = e, env       # inline_closure
            return k(fterm, ty, env1)
        return self.closure_st(e, ptys, env, k1)

    def inline_closure(self, name, cv, ts, tys, env, k):
        """`f(args)` for a local closure that assigns nothing it captures, where an argument's vocabulary type is not
        the declared parameter type: ONE Rust type with two readings in the vocabulary (text area: a `&str` as its code
        points / a slice of it as bytes).  The function emitted at the `let` read the parameter as declared, which would
        be the wrong reading of this argument; the body is translated again at the call, the parameters typed by the
        arguments.  What the closure captures it only reads: by the borrow rules nothing it borrows is assigned while
        it is alive, so the variables stand for the same values as at the definition (whose environment is used); a
        `move` closure copies its captures and is refused."""
        node = cv.ty.node
        if getattr(node, "move", False):
            raise EmitError("call of the `move` closure %s with an argument of another vocabulary type than declared" % name)
        cenv = cv.ty.denv
        pre = []
        for (p, _ty), pty, t, aty in zip(node.params, cv.ty[2], ts, tys):
            while p.kind == "pref":
                p = p.inner
            if p.kind != "pident":
                raise EmitError("closure parameter pattern")
            if not self.is_atom(t):
                n = self.fresh(p.name)
                pre.append("let %s := %s in\n" % (n, t))
                t = n
            cenv = cenv.bind(p.name, t, aty if (pty[0] == "struct" and aty[0] == "struct") or pty == UNKNOWN else pty, p.mut)

        def build(kk):
            oldctl = self.ctl
            self.ctl = Ctl(lambda envx, t, ty: kk(t, ty, envx))     # `return` / `?` leave the closure only
            try:
                return self.expr(node.body, cenv, kk)
            finally:
                self.ctl = oldctl
        return "".join(pre) + self.join_branches(cenv, lambda t, ty, _cenv2: k(t, ty, env), build)

    def call_closure(self, var, args, env, k):
        """`f(args)` where `f` is a local variable bound to a closure (e_closure): the state-passing function is applied
        to the arguments and the current values of the captured variables, which are rebound from its answer"""
        _c, cap, ptys = var.ty[:3]
        if len(args) != len(ptys):
            raise EmitError("closure %s called with %d arguments" % (var.coq, len(args)))

        def k_args(ts, tys, env1):
            st = self.fresh("st")
            r = self.fresh("r")
            names = []
            env2 = env1
            for n in cap:
                c = self.fresh(env1.get(n).coq.rstrip("0123456789") or n)
                names.append(c)
                env2 = env2.rebind(n, c)
            pat = "_" if not names else (names[0] if len(names) == 1 else "'(%s)" % ", ".join(names))
            rest = k(r, getattr(var.ty, "ret", None) or UNKNOWN, env2)
            return "'(%s, %s) <- %s %s %s ;;\nlet %s := %s in\n%s" % (
                st, r, var.coq, " ".join(ts), self.tuple_of([env1.get(n).coq for n in cap]), pat, st, rest)
        return self.exprs(args, env, k_args)

    def e_while(self, e, env, k):
        return self.while_like(e.cond, e.body, env, k)

    def e_loop(self, e, env, k):
        if self.v.get("loop_break_value") and self.breaks_with_value(e.body):
            return self.loop_value(e, env, k)
        return self.while_like(None, e.body, env, k)

    def breaks_with_value(self, node):
        """a `break <value>` that leaves THIS loop (nested loops and closures are not looked into)"""
        found = []

        def walk(x):
            if isinstance(x, N):
                if x.kind == "break" and x.e is not None and x.label is None:
                    found.append(1)
                if x.kind in ("closure", "loop", "while", "for"):
                    return
                for v in x.__dict__.values():
                    walk(v)
            elif isinstance(x, (list, tuple)):
                for y in x:
                    walk(y)
        walk(node)
        return bool(found)

    def loop_value(self, e, env, k):
        """optional vocabulary key `loop_break_value: True`: `let x = loop { .. break v; .. };` -- the value is carried
        out of the loop in one more loop-state variable of type option (None until a `break v` stores `Some v` and
        breaks); after the loop it is taken out again (None there = the loop ended without a value: not reachable,
        every `break` of such a loop carries a value -- rustc checks it)"""
        if self.pure_mode:
            raise NeedsBind()
        hv = "loop value"         # no Rust identifier: cannot clash with a variable of the source
        n = self.fresh("bv")
        env1 = env.bind(hv, n, ("opt", UNKNOWN), True)
        cell = []

        def after(_t, _ty, env2):
            x = self.fresh("lv")
            out = self.restrict(env2, env)
            return "match %s with\n| Some %s =>\n%s\n| None => None\nend" % (
                env2.get(hv).coq, x, ind(k(x, cell[0] if cell else UNKNOWN, out), 4))
        return "let %s := None in\n%s" % (n, self.while_like(None, e.body, env1, after, extra_state=[hv], brk_value=(hv, cell)))

    def while_like(self, cond, bodyblk, env, k, extra_state=None, brk_value=None):
        fuel = self.loop_fuel(cond, env)
        if callable(fuel):
            # a fuel expression over the variables' current Coq names; a callable of TWO parameters is also given the loop
            # condition (None for `loop`), so that it can name the variable the loop tests whatever it is called
            fuel = fuel(env, cond) if getattr(getattr(fuel, "__code__", None), "co_argcount", 1) >= 2 else fuel(env)
        rs = bool(self.v.get("loop_ret_state"))   # opt-in: a `return` inside the loop carries the loop variables
        probe = N("block", stmts=[N("expr", e=cond, semi=True, attrs=[])] if cond is not None and cond.kind != "letcond" else
                  ([N("expr", e=cond.e, semi=True, attrs=[])] if cond is not None else []), tail=bodyblk)
        st = self.assigned(probe, env)
        if extra_state:
            st = list(st) + [n for n in extra_state if n not in st]
        ret = self.has_return(bodyblk)
        stn = []
        env2 = env
        for n in st:
            c = self.fresh(env.get(n).coq.rstrip("0123456789") or n)
            stn.append(c)
            env2 = env2.rebind(n, c)
        stpat = "_" if not st else (stn[0] if len(st) == 1 else "'(%s)" % ", ".join(stn))
        tup = lambda envx: self.tuple_of([envx.by_decl(n, env.get(n).decl).coq for n in st])
        nxt, brk = ("LNext", "LBreak") if ret else ("BNext", "BBreak")
        old = self.ctl
        oldpm = self.pure_mode
        self.pure_mode = 0
        self.ctl = Ctl(((lambda envx, t, ty: "Some (LRet (%s, %s))" % (tup(envx), t)) if rs else (lambda envx, t, ty: "Some (LRet %s)" % t)) if ret else old.ret,
                       lambda envx: "Some (%s %s)" % (brk, tup(envx)), lambda envx: "Some (%s %s)" % (nxt, tup(envx)))
        if brk_value is not None:
            hv, cell = brk_value
            brk0 = self.ctl.brk

            def brkv(envx, t, ty):
                if not cell:
                    cell.append(ty)
                return brk0(envx.rebind(hv, "(Some %s)" % t))
            self.ctl.brkv = brkv
        try:
            run_body = lambda envb: self.expr(bodyblk, envb, lambda _t, _ty, envx: "Some (%s %s)" % (nxt, tup(envx)))
            if cond is None:
                body = run_body(env2)
            elif cond.kind == "letcond":
                arms = [(cond.pat, None, bodyblk), (N("pwild"), None, N("break", e=None, label=None))]
                body = self.e_match(N("match", scrut=cond.e, arms=arms), env2, lambda _t, _ty, envx: "Some (%s %s)" % (nxt, tup(envx)))
            else:
                body = self.expr(cond, env2, lambda c, _t, env3: "if %s then\n%s\nelse Some (%s %s)" % (c, ind(run_body(env3)), brk, tup(env3)))
        finally:
            self.ctl = old
            self.pure_mode = oldpm
        fterm = "(fun %s =>\n%s)" % (stpat, ind(body, 4))
        init = self.tuple_of([env.get(n).coq for n in st])
        if not ret:
            return self.bind("while_fuel0 %s %s %s" % (fuel, fterm, init), UNKNOWN, env,
                             lambda r, _t, env3: self.unpack_state(st, r, env3, lambda env4: k("tt", UNIT, env4)), hint="st")
        if self.pure_mode:
            raise NeedsBind()
        r = self.fresh("lr")
        s2 = self.fresh("st")
        v = self.fresh("rv")
        # a `loop { .. }` that is only left through `return` has type `!`: nothing follows it (the body never answers
        # LBreak, so the `inl` arm is dead; `None` there, not the continuation, which would be typed `()`)
        never = cond is None and not self.has_break(bodyblk)
        after = (lambda: "None") if never else (lambda: self.unpack_state(st, s2, env, lambda env4: k("tt", UNIT, env4)))
        if rs:
            s3 = self.fresh("st")
            return "%s <- while_fuel %s %s %s ;;\nmatch %s with\n| inl %s =>\n%s\n| inr (%s, %s) =>\n%s\nend" % (
                r, fuel, fterm, init, r, s2, ind(after(), 4),
                s3, v, ind(self.unpack_state(st, s3, env, lambda env4: self.ctl.ret(env4, v, UNKNOWN)), 4))
        return "%s <- while_fuel %s %s %s ;;\nmatch %s with\n| inl %s =>\n%s\n| inr %s =>\n%s\nend" % (
            r, fuel, fterm, init, r, s2, ind(after(), 4),
            v, ind(self.ctl.ret(env, v, UNKNOWN), 4))

    def try_total(self, x):
        """optional vocabulary key `total_try: callable(em, try node) -> bool`: a `?` whose operand the vocabulary
        translates to a literal Ok (`(inl ..)`: a write to an infallible sink) never returns; it is then not an exit
        for the fall-through analysis and e_try continues with the payload (checked there)"""
        h = self.v.get("total_try")
        return bool(h is not None and h(self, x))

    def e_try(self, e, env, k):
        def k1(t, ty, env1):
            if ty[0] == "res" and self.try_total(e):
                if not (t.startswith("(inl ") and t.endswith(")")):
                    raise EmitError("total_try: the operand of `?` is not a literal Ok (%s)" % t)
                return k(t[5:-1], ty[1], env1)
            if ty[0] == "res":
                if self.pure_mode:
                    raise NeedsBind()
                x = self.fresh("q")
                er = self.fresh("err")
                return "match %s with\n| inl %s =>\n%s\n| inr %s =>\n%s\nend" % (
                    t, x, ind(k(x, ty[1], env1), 4), er, ind(self.ctl.ret(env1, "(inr %s)" % er, ("res", UNKNOWN)), 4))
            if ty[0] == "result" and self.res_ind():
                # `?` on a Result of the vocabulary's inductive result type (optional key `result`): Ok(x) goes on with x,
                # Err(e) returns Err(e) -- `From::from` on the error is the identity when both error types are the same;
                # when they differ the generated `Err e` is ill-typed in Coq (the safe side)
                if self.pure_mode:
                    raise NeedsBind()
                rv = self.v["result"]
                x = self.fresh("q")
                er = self.fresh("err")
                return "match %s with\n| %s %s =>\n%s\n| %s %s =>\n%s\nend" % (
                    t, rv["ok"], x, ind(k(x, ty[1], env1), 4), rv["err"], er,
                    ind(self.ctl.ret(env1, "(%s %s)" % (rv["err"], er), ("result", UNKNOWN, ty[2])), 4))
            if ty[0] != "opt":
                raise EmitError("? on %r" % (ty,))
            if self.pure_mode:
                raise NeedsBind()
            x = self.fresh("q")
            return "match %s with\n| Some %s =>\n%s\n| None =>\n%s\nend" % (t, x, ind(k(x, ty[1], env1), 4), ind(self.ctl.ret(env1, "None", ty), 4))
        return self.expr(e.e, env, k1)

    # -- inlining of local helpers -------------------------------------------
    # A call that names neither a translated target nor a vocabulary entry but a function DEFINED in
    # the parsed source (free fn, or a method of an `impl` of a struct / enum of that source; further
    # sources through the optional vocabulary key `inline_sources: [source text, ..]`) is translated
    # by inlining the callee's body at the call site.  A behaviour-preserving "extract function"
    # refactoring then yields (nearly) the term the unrefactored code gave; a helper whose body
    # changes meaning changes the caller's term, so detection is not weakened.
    INLINE_DEPTH = 4

    def inline_items(self):
        its = getattr(self, "_inline_items", None)
        if its is None:
            its = list(self.items)
            from .rparser import parse_file, ParseError
            from .lexer import LexError
            for src in self.v.get("inline_sources", ()):
                try:
                    its.extend(parse_file(src))
                except (ParseError, LexError) as e:
                    raise EmitError("inline_sources: parse error: %s" % e)
            self._inline_items = its
        return its

    def _all_items(self, items=None):
        for it in (self.inline_items() if items is None else items):
            yield it
            if it.kind == "mod":
                for x in self._all_items(it.items):
                    yield x

    def inlinable(self, fn, what):
        if fn.body is None:
            return None
        if any(q in ("unsafe", "extern", "async") for q in getattr(fn, "quals", ())):
            return None       # stays an unknown function (unsafe code is pinned, never inlined)
        return fn

    def local_free_fn(self, name):
        hits = [it for it in self._all_items() if it.kind == "fn" and it.name == name]
        if not hits:
            return None
        if len(hits) > 1:
            raise EmitError("call of %s: %d definitions in the source, cannot inline" % (name, len(hits)))
        return self.inlinable(hits[0], name)

    def local_method(self, tname, name):
        from .rparser import type_name
        hits = []
        for it in self._all_items():
            if it.kind == "impl" and type_name(it.target) == tname:
                hits.extend(sub for sub in it.items if sub.kind == "fn" and sub.name == name)
        if not hits:
            return None
        if len(hits) > 1:
            raise EmitError("call of %s::%s: %d definitions in the source, cannot inline" % (tname, name, len(hits)))
        return self.inlinable(hits[0], name)

    def local_mut_methods(self):
        names = getattr(self, "_local_mut_methods", None)
        if names is None:
            names = set()
            try:
                for it in self._all_items():
                    if it.kind == "impl":
                        names.update(sub.name for sub in it.items if sub.kind == "fn" and sub.self_kind == "refmut" and sub.body is not None)
            except EmitError:
                pass
            self._local_mut_methods = names
        return names

    def local_callee(self, segs):
        """(fn, impl type name | None) for a call path naming a function of the parsed source, else None"""
        name = segs[-1]
        if len(segs) >= 2 and segs[0] in ("std", "core", "alloc"):
            return None       # a standard-library path is never a function of the parsed source
        quals = [s for s in segs[:-1] if s not in ("crate", "self", "super")]
        if not quals:
            fn = self.local_free_fn(name)
            return (fn, None) if fn is not None else None
        tname = quals[-1]
        if tname == "Self":
            tname = self.self_struct
        if tname is not None and tname[:1].isupper():
            fn = self.local_method(tname, name)
            return (fn, tname) if fn is not None else None
        # module-qualified free function (`palette::f`)
        fn = self.local_free_fn(name)
        return (fn, None) if fn is not None else None

    def ty_known(self, t):
        if t == UNKNOWN or t[0] == "never":
            return False
        return all(self.ty_known(x) for x in t[1:] if isinstance(x, tuple) and x and isinstance(x[0], str)) and \
            all(self.ty_known(y) for x in t[1:] if isinstance(x, tuple) and x and isinstance(x[0], tuple) for y in x)

    def is_atom(self, term):
        import re
        return re.match(r"^([A-Za-z_][A-Za-z0-9_']*|\d+)$", term) is not None

    def inline_call(self, fn, struct, args, env, k, recv_val=None):
        """args: argument expressions, the receiver first when fn takes self.  recv_val: (term, type)
        of an already evaluated receiver."""
        key = (struct + "::" if struct else "") + fn.name
        INLINED.append(fn)      # tools/inventory.py: this function's body is part of a translation
        stack = getattr(self, "inline_stack", [])
        if key in stack:
            raise EmitError("call of %s: recursive helper, cannot inline" % key)
        if len(stack) >= self.INLINE_DEPTH:
            raise EmitError("call of %s: helpers nested deeper than %d, cannot inline" % (key, self.INLINE_DEPTH))
        # formal parameters: (rust name | None, declared type, mode 'in'|'inout', mut)
        formals = []
        if fn.self_kind:
            if struct is None:
                raise EmitError("call of %s: method without an impl type" % key)
            sty = ("enum", struct) if struct not in self.v.get("structs", {}) and struct in self.v.get("enums", {}) else ("struct", struct)
            if sty[0] == "struct" and struct not in self.v.get("structs", {}):
                sty = UNKNOWN
            formals.append(("self", sty, "inout" if fn.self_kind == "refmut" else "in", fn.self_kind == "valmut"))
        saved_struct = self.self_struct
        self.self_struct = struct
        try:
            for pat, ty in fn.params:
                p = pat
                while p.kind == "pref":
                    p = p.inner
                mode = "inout" if (ty.form == "ref" and ty.mut) else "in"
                if p.kind == "pwild" and mode == "in":
                    formals.append((None, self.ty_of_ast(ty), "in", False))
                elif p.kind == "pident":
                    formals.append((p.name, self.param_type(p, ty), mode, p.mut))
                else:
                    raise EmitError("call of %s: parameter pattern %s, cannot inline" % (key, p.kind))
            ret_decl = self.ty_of_ast(fn.ret)
        finally:
            self.self_struct = saved_struct
        if len(args) != len(formals):
            raise EmitError("call of %s with %d arguments, expected %d" % (key, len(args), len(formals)))

        def go(i, acc, env1):
            if i == len(args):
                return body(acc, env1)
            pty = formals[i][1]

            def k1(t, ty, env2):
                return go(i + 1, acc + [(t, ty)], env2)
            if i == 0 and recv_val is not None:
                return k1(recv_val[0], recv_val[1], env1)
            a = args[i]
            if a.kind == "int" and not a.suffix:
                return self.expr(a, env1, k1, expect=pty)
            return self.expr(a, env1, k1)

        def body(vals, envc):
            # the callee sees its parameters only; its locals get fresh Gallina names (Emitter.fresh is
            # unique per translated function), so nothing of the caller can be captured
            cenv = Env(self)
            pre = []
            for (name, pty, mode, mut), (t, ty) in zip(formals, vals):
                if name is None:
                    continue
                vty = pty if pty != UNKNOWN else ty
                if mode == "in" and (mut or not (self.is_atom(t) or (len(t) <= 48 and "\n" not in t))):
                    n = self.fresh(name)
                    pre.append("let %s := %s in\n" % (n, t))
                    t = n
                elif mode == "inout" and not self.is_atom(t):
                    n = self.fresh(name if name != "self" else "slf")
                    pre.append("let %s := %s in\n" % (n, t))
                    t = n
                cenv = cenv.bind(name, t, vty, "ref" if mode == "inout" else mut)
            if pre and self.pure_mode:
                raise NeedsBind()
            init = dict((name, cenv.get(name).coq) for name, _t, mode, _m in formals if name and mode == "inout")

            def after(t, ty, cenv2):
                # write the `&mut` parameters back to the caller's places, then go on in the caller
                outs = [(a, cenv2.get(name).coq) for (name, _t, mode, _m), a in zip(formals, args)
                        if name and mode == "inout" and cenv2.get(name).coq != init[name]]
                rty = ret_decl if self.ty_known(ret_decl) else ty
                if fn.ret is None:
                    t, rty = "tt", UNIT

                def wr(j, envw):
                    if j == len(outs):
                        return k(t, rty, envw)
                    place, val = outs[j]
                    root = place
                    while root.kind == "paren" or (root.kind == "unary" and root.op in ("&mut", "*", "&")):
                        root = root.e
                    if root.kind == "path" and len(root.segs) == 1 and envw.get(root.segs[0]) is not None and self.is_atom(val):
                        # a plain variable: it simply continues under the callee's last name for it
                        return wr(j + 1, envw.rebind(root.segs[0], val))
                    return self.write_place(place, val, envw, lambda envn: wr(j + 1, envn))
                return wr(0, envc)

            def build(kk):
                oldctl, oldstruct = self.ctl, self.self_struct
                self.ctl = Ctl(lambda envx, t, ty: kk(t, ty, envx))     # `return` joins the caller's continuation
                self.self_struct = struct
                self.inline_stack = stack + [key]
                try:
                    return self.expr(fn.body, cenv, kk)
                finally:
                    self.ctl, self.self_struct = oldctl, oldstruct
                    self.inline_stack = stack
            return "".join(pre) + self.join_branches(cenv, after, build)
        return go(0, [], env)

    # -- functions -----------------------------------------------------------
    def fn_shape(self, fn, struct=None, coq_name=None):
        params = []
        for pat, ty in fn.params:
            mode = "inout" if (ty.form == "ref" and ty.mut) else "in"
            params.append((mode, self.param_type(pat, ty)))
        ret = self.ty_of_ast(fn.ret)
        # optional vocabulary key `ret_types: {fn: type}`: a return type the AST does not determine (`impl Iterator<..>`)
        ret = self.v.get("ret_types", {}).get((struct + "::" if struct else "") + fn.name, ret)
        sk = fn.self_kind
        key = (struct + "::" if struct else "") + fn.name
        # optional vocabulary key `interior_mut: [fn key]`: a `&self` method that writes through interior
        # mutability (an atomic store) is translated like `&mut self` (the new value of self is returned)
        inout = sk == "refmut" or (sk and key in self.v.get("interior_mut", ()))
        shape = {"coq": coq_name or ("g_" + fn.name), "self": ("inout" if inout else ("in" if sk else None)),
                 "params": params, "ret": ret, "total": False, "cfg": bool(self.v.get("config_param")), "struct": struct}
        # optional vocabulary keys `statics: {NAME: type}` and `static_use: {fn key: [(NAME, "in" | "inout")]}`:
        # a `static` the function (or a callee) reads / writes is an extra leading parameter, threaded like a
        # `&mut` parameter when "inout"; a caller passes its own variable of the same name
        su = self.v.get("static_use", {}).get(key)
        if su:
            shape["statics"] = [(n, m, self.v["statics"][n]) for n, m in su]
        return shape

    def param_type(self, pat, ty):
        if pat.kind == "pident":
            st = self.v.get("param_types", {}).get(pat.name)
            if st is not None:
                return st
        return self.ty_of_ast(ty)

    def emit_fn(self, fn, struct=None, coq_name=None, force_monadic=False, rec_fuel=None):
        """returns (Gallina definition text, shape).
        rec_fuel (a Gallina nat term): the function calls itself; it is emitted as a Fixpoint `<name>_rec` over a
        fuel argument (out of fuel = None, like the loops) and `<name>` = `<name>_rec <rec_fuel>`"""
        self.counter = {}
        for reserved in self.reserved:
            self.counter[reserved] = 1
        self.self_struct = struct
        self.cur_fn = (struct + "::" if struct else "") + fn.name
        self.loop_idx = 0
        shape = self.fn_shape(fn, struct, coq_name)
        env = Env(self)
        binders = []
        if shape["cfg"]:
            cn, cty = self.v["config_param"]
            binders.append("(%s : %s)" % (cn, cty))
            self.counter[cn] = 1
        outs = []
        if shape["self"]:
            # `impl <enum>`: self is a value of the vocabulary enum
            sty = ("enum", struct) if struct not in self.v.get("structs", {}) and struct in self.v.get("enums", {}) else ("struct", struct)
            sn = self.fresh(self.v["structs"][struct].get("var", "p") if sty[0] == "struct" else self.v["enums"][struct].get("var", "a"))
            env = env.bind("self", sn, sty, "ref" if shape["self"] == "inout" else False)
            binders.append("(%s : %s)" % (sn, self.coq_ty(sty)))
            if shape["self"] == "inout":
                outs.append("self")
        for sname, smode, sty in shape.get("statics", ()):
            n = self.fresh(sname)
            env = env.bind(sname, n, sty, "ref" if smode == "inout" else False)
            binders.append("(%s : %s)" % (n, self.coq_ty(sty)))
            if smode == "inout":
                outs.append(sname)
        for (pat, ty), (mode, pty) in zip(fn.params, shape["params"]):
            p = pat
            while p.kind == "pref":
                p = p.inner
            if p.kind == "pwild" and mode == "in":
                # `_: T`: an unused binder
                binders.append("(%s : %s)" % (self.fresh("unused"), self.coq_ty(pty)))
                continue
            if p.kind != "pident":
                raise EmitError("parameter pattern %s" % p.kind)
            n = self.fresh(p.name)
            env = env.bind(p.name, n, pty, "ref" if mode == "inout" else p.mut)
            binders.append("(%s : %s)" % (n, self.coq_ty(pty) if pty[0] != "sink" else self.v["sinks"][pty[1]]["coq"]))
            if mode == "inout":
                outs.append(p.name)
        ret = shape["ret"]
        self.monadic = False
        if rec_fuel is not None:
            force_monadic = True
            self.counter["rec_fuel"] = 1
            self.fn_shapes[self.cur_fn] = dict(shape, coq="%s_rec rec_fuel'" % shape["coq"], total=False)

        self.borrow_links = {}

        def outval(envx, n):
            d = env.get(n).decl
            lk = self.borrow_links.get(d)
            if lk is not None:
                # vocabulary borrow_fields: a struct that holds this `&mut` parameter is alive: copy its field out
                bv = envx.by_decl(lk[0], lk[1])
                if bv is not None and bv.decl == lk[1]:
                    return "(%s %s)" % (lk[2], bv.coq)
            return envx.by_decl(n, d).coq

        def finish(envx, t, ty):
            parts = [outval(envx, n) for n in outs]
            if ret != UNIT:
                parts.append(t)
            val = self.tuple_of(parts) if parts else "tt"
            return "\x02RET(%s)\x02" % val
        self.ctl = Ctl(finish)
        body = self.expr(fn.body, env, lambda t, ty, envx: finish(envx, t, ty))
        import re
        # bind-style joins (join_branches) do not make a function monadic by themselves: the test is made on the
        # body with their markers taken out, then they are spelled `let .. := .. in` (total) or `.. <- .. ;;`
        probe = self.resolve_joins(body, None)
        if self.v.get("total_joins"):
            # `| None =>`, `| None, None =>`: an Option that is MATCHED on is no failure (pattern lines stand alone)
            probe = re.sub(r"(?m)^[ \t]*\|[^\n]*=>[ \t]*$", "", probe)
        total = not force_monadic and ("<-" not in probe and not re.search(r"(?<![A-Za-z0-9_])None(?![A-Za-z0-9_])", self._strip_ret(probe)))
        body = self.resolve_joins(body, total)
        if total:
            body = re.sub(r"\x02RET\((.*?)\)\x02", lambda m: m.group(1), body, flags=re.S)
        else:
            body = re.sub(r"\x02RET\((.*?)\)\x02", lambda m: "Some %s" % (m.group(1) if re.match(r"^[\w']+$", m.group(1)) or m.group(1).startswith("(") else "(" + m.group(1) + ")"), body, flags=re.S)
        shape["total"] = total
        rty_parts = [self.coq_ty(env.get(n).ty) if env.get(n).ty[0] != "sink" else self.v["sinks"][env.get(n).ty[1]]["coq"] for n in outs]
        if ret != UNIT:
            rty_parts.append(self.coq_ty(ret))
        rty = " * ".join(rty_parts) if rty_parts else "unit"
        if len(rty_parts) > 1:
            rty = "(" + rty + ")"
        if not total:
            rty = "option " + rty
        if rec_fuel is not None:
            names = [re.match(r"\((\S+) :", b).group(1) for b in binders]
            text = ("Fixpoint %s_rec (rec_fuel : nat) %s {struct rec_fuel} : %s :=\n  match rec_fuel with\n  | O => None\n  | S rec_fuel' =>\n%s\n  end.\n\n"
                    "Definition %s %s : %s :=\n  %s_rec %s %s."
                    % (shape["coq"], " ".join(binders), rty, ind(body, 4), shape["coq"], " ".join(binders), rty, shape["coq"], rec_fuel, " ".join(names)))
            return text, shape
        text = "Definition %s %s : %s :=\n%s." % (shape["coq"], " ".join(binders), rty, ind(body))
        return text, shape

    # markers of a bind-style join, resolved per function by resolve_joins
    J_LET, J_BIND, J_IN, J_SOME = "\x03L\x03", "\x03B\x03", "\x03I\x03", "\x03S\x03"

    def resolve_joins(self, body, total):
        """total=None: drop the markers (for the totality test); True: `let pat := (code) in`, plain leaves;
        False: `pat <- (code) ;;`, `Some` leaves (the historical spelling)"""
        if total is None:
            sub = ("", "", "", "")
        elif total:
            sub = ("let ", " := ", " in", "")
        else:
            sub = ("", " <- ", " ;;", "Some ")
        for m, r in zip((self.J_LET, self.J_BIND, self.J_IN, self.J_SOME), sub):
            body = body.replace(m, r)
        return body

    @staticmethod
    def _strip_ret(body):
        import re
        return re.sub(r"\x02RET\(.*?\)\x02", "", body, flags=re.S)
