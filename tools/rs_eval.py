"""A small evaluator of PURE Rust functions over finite inputs (enum constants), on the AST of tools/rs2v.

Why: some table translators read a `match` of N arms off the source text as DATA for the hand model
(tools/gen_adapters.py: the 16 colour arms of every conversion crate).  A maintainer may spell the same
function differently -- or-patterns (`Red | BrightRed => ..`), a private helper, the bold flag taken from
`color.is_bright()`, an `if`, a `let` -- and the text shape is gone although the table is the same.  Python cannot
run the generated Gallina, but the table is the function's graph over 16 constants: this module computes it by
EVALUATING the function (its callees in the same file, and methods of the argument's enum from the enum's own
source) on each constant.

The subset is deliberately small; anything outside it raises EvalError, which the caller turns into a GEN-ERROR:
  values       an enum constant of the input enum, `true` / `false`, tuples, SYMBOLS (any other path is a
               constructor name the evaluator does not interpret: `ansi_term::Color::Black`) and constructor
               applications (`Some(x)`, `anstyle::Color::Ansi(c)`; `None`)
  expressions  paths, tuples, parentheses, blocks of `let`s with a tail, `if` / `if let`, `match` (or-patterns,
               `_`, bindings, tuple patterns, constants, bool literals, guards), `matches!`, `!` `&&` `||` `==` `!=`,
               `.0`-style tuple fields, calls of free functions of the file, method calls on an enum constant
               (resolved in the `impl` of the enum given by the caller), Option's `as_ref` / `copied` / `map` /
               `unwrap_or` / `is_some` / `is_none` / `map_or`, `return`, `e?` on an Option (outside closures)
Soundness does not rest on this evaluator: the tables it yields are DATA for the hand model; the function
translator translates the same functions and Proofs/*Gen.v prove translation = hand model over those tables, so a
table read off wrongly can only make a proof fail."""
import os
import sys

sys.path.insert(0, os.path.dirname(os.path.abspath(__file__)))
from rs2v.rparser import parse_file, parse_macro_args, find_items, type_name, ParseError   # noqa: E402
from rs2v.lexer import LexError                                                              # noqa: E402
from rs2v.emit import parse_matches_macro                                                    # noqa: E402
from rs2v.imports import resolve_uses, UseError                                              # noqa: E402


class EvalError(Exception):
    pass


class _Return(Exception):
    def __init__(self, v):
        self.v = v


DEPTH = 8


def parse(src, what, uses=True):
    try:
        return parse_file(resolve_uses(src) if uses else src)
    except (ParseError, LexError, UseError) as e:
        raise EvalError("%s: %s" % (what, e))


class Evaluator:
    """enum_path: the full path of the input enum as the file writes it (`anstyle::AnsiColor`); enum_items: the items of
    the file that defines the enum (its variants and its `impl`s)"""

    def __init__(self, items, enum_path, enum_items):
        self.items = items
        self.enum_path = enum_path.split("::")
        self.enum_name = self.enum_path[-1]
        ens = find_items(enum_items, "enum", self.enum_name)
        if len(ens) != 1:
            raise EvalError("enum %s: %d definitions" % (self.enum_name, len(ens)))
        self.variants = [v[0] for v in ens[0].variants]
        self.enum_items = enum_items
        self.in_enum_impl = 0
        self.in_closure = 0
        self.depth = 0

    # -- values ---------------------------------------------------------------
    def const(self, segs):
        """the value a path stands for: an enum constant of the input enum, else a symbol"""
        if len(segs) >= 2 and segs[-1] in self.variants:
            q = segs[:-1]
            if q == self.enum_path or (self.in_enum_impl and q in (["Self"], [self.enum_name])):
                return ("enum", segs[-1])
        if segs == ["None"]:
            return ("ctor", "None", [])
        if len(segs) < 2:
            raise EvalError("unbound name %s" % segs[0])
        return ("sym", "::".join(segs))

    @staticmethod
    def parent(path):
        return path.rsplit("::", 1)[0] if "::" in path else ("Option" if path in ("Some", "None") else "Result" if path in ("Ok", "Err") else path)

    def same_type(self, a, b, what):
        """two constructor names of one enum (same parent path)?  Anything else cannot be compared"""
        if self.parent(a) != self.parent(b):
            raise EvalError("%s: %s against %s" % (what, a, b))

    # -- functions ------------------------------------------------------------
    def free_fn(self, name):
        hits = [it for it in find_items(self.items, "fn", name)]
        if len(hits) != 1:
            raise EvalError("call of %s: %d definitions in the file" % (name, len(hits)))
        return hits[0]

    def method(self, name):
        hits = []
        for it in find_items(self.enum_items, "impl"):
            if it.trait is None and type_name(it.target) == self.enum_name:
                hits.extend(f for f in it.items if f.kind == "fn" and f.name == name)
        if len(hits) != 1:
            raise EvalError("method %s::%s: %d definitions" % (self.enum_name, name, len(hits)))
        return hits[0]

    def apply(self, fn, args, self_val=None):
        if fn.body is None or any(q in ("unsafe", "extern", "async") for q in getattr(fn, "quals", ())):
            raise EvalError("fn %s: not a plain function" % fn.name)
        if bool(fn.self_kind) != (self_val is not None) or len(fn.params) != len(args):
            raise EvalError("call of %s: wrong number of arguments" % fn.name)
        env = {}
        if self_val is not None:
            env["self"] = self_val
        for (pat, _ty), v in zip(fn.params, args):
            if not self.bind(pat, v, env):
                raise EvalError("fn %s: parameter pattern does not match" % fn.name)
        self.depth += 1
        if self.depth > DEPTH:
            raise EvalError("calls nested deeper than %d" % DEPTH)
        in_closure, self.in_closure = self.in_closure, 0       # a `?` / `return` of the callee leaves the callee
        try:
            return self.expr(fn.body, env)
        except _Return as r:
            return r.v
        finally:
            self.depth -= 1
            self.in_closure = in_closure

    def run(self, fn_name, variant, wrap=()):
        v = ("enum", variant)
        for c in wrap:          # constructors applied to the constant, innermost first
            v = ("ctor", c, [v])
        return self.apply(self.free_fn(fn_name), [v])

    def run_value(self, fn_name, v):
        """the function on a value given as such (`("ctor", "None", [])`)"""
        return self.apply(self.free_fn(fn_name), [v])

    # -- patterns -------------------------------------------------------------
    def bind(self, p, v, env):
        """does pattern p match value v?  bindings go to env"""
        k = p.kind
        if k == "pwild":
            return True
        if k == "pref":
            return self.bind(p.inner, v, env)
        if k == "pident":
            if p.name in ("true", "false") and p.sub is None:
                if v[0] != "bool":
                    raise EvalError("bool pattern against %r" % (v,))
                return v[1] == (p.name == "true")
            if p.sub is not None and not self.bind(p.sub, v, env):
                return False
            env[p.name] = v
            return True
        if k == "ppath":
            c = self.const(p.segs)
            if c[0] in ("sym", "ctor") and v[0] in ("sym", "ctor"):
                self.same_type(c[1], v[1], "pattern")
                return c[1] == v[1]
            if c[0] != v[0]:
                raise EvalError("pattern %s against %r" % ("::".join(p.segs), v))
            return c == v
        if k == "ptstruct":
            path = "::".join(p.segs)
            if v[0] not in ("sym", "ctor"):
                raise EvalError("pattern %s(..) against %r" % (path, v))
            self.same_type(path, v[1], "pattern")
            if v[0] == "sym" or path != v[1]:
                return False
            if len(p.elems) != len(v[2]) or any(x.kind == "prest" for x in p.elems):
                raise EvalError("pattern %s(..): %d fields against %d" % (path, len(p.elems), len(v[2])))
            return all(self.bind(x, y, env) for x, y in zip(p.elems, v[2]))
        if k == "por":
            for a in p.alts:
                e2 = dict(env)
                if self.bind(a, v, e2):
                    env.update(e2)
                    return True
            return False
        if k == "ptuple":
            if v[0] != "tuple" or len(v[1]) != len(p.elems) or any(x.kind == "prest" for x in p.elems):
                raise EvalError("tuple pattern against %r" % (v,))
            return all(self.bind(x, y, env) for x, y in zip(p.elems, v[1]))
        raise EvalError("pattern %s" % k)

    # -- expressions ----------------------------------------------------------
    def truth(self, v):
        if v[0] != "bool":
            raise EvalError("a condition that is no bool: %r" % (v,))
        return v[1]

    def block(self, b, env):
        env = dict(env)
        for s in b.stmts:
            if s.kind == "let":
                if s.init is None:
                    raise EvalError("`let` without a value")
                v = self.expr(s.init, env)
                if not self.bind(s.pat, v, env):
                    if s.els is None:
                        raise EvalError("`let` pattern does not match")
                    self.block(s.els, env)
                    raise EvalError("`let .. else` block falls through")
            elif s.kind == "expr" and s.e.kind == "return":
                raise _Return(self.expr(s.e.e, env) if s.e.e is not None else ("tuple", []))
            elif s.kind == "expr" and not s.semi and s is b.stmts[-1] and b.tail is None:
                return self.expr(s.e, env)
            elif s.kind == "expr" and s.e.kind in ("if", "match") :
                # a statement-level `if` / `match`: only for an early `return` inside
                self.expr(s.e, env)
            else:
                raise EvalError("statement %s" % (s.e.kind if s.kind == "expr" else s.kind))
        if b.tail is None:
            return ("tuple", [])
        return self.expr(b.tail, env)

    def expr(self, e, env):
        k = e.kind
        if k == "paren":
            return self.expr(e.e, env)
        if k == "block":
            return self.block(e, env)
        if k == "bool":
            return ("bool", e.val)
        if k == "path":
            if len(e.segs) == 1:
                if e.segs[0] in env:
                    return env[e.segs[0]]
                return self.const(e.segs)
            return self.const(e.segs)
        if k == "tuple":
            return ("tuple", [self.expr(x, env) for x in e.elems])
        if k == "tfield":
            v = self.expr(e.e, env)
            if v[0] != "tuple" or e.idx >= len(v[1]):
                raise EvalError("field .%d of %r" % (e.idx, v))
            return v[1][e.idx]
        if k == "unary" and e.op in ("&", "*", "&mut"):
            return self.expr(e.e, env)
        if k == "unary" and e.op == "!":
            return ("bool", not self.truth(self.expr(e.e, env)))
        if k == "binary" and e.op in ("&&", "||"):
            l = self.truth(self.expr(e.l, env))
            if (e.op == "&&") != l:
                return ("bool", l)
            return ("bool", self.truth(self.expr(e.r, env)))
        if k == "binary" and e.op in ("==", "!="):
            l, r = self.expr(e.l, env), self.expr(e.r, env)
            if l[0] != r[0] or l[0] == "sym":
                raise EvalError("comparison of %r and %r" % (l, r))
            return ("bool", (l == r) == (e.op == "=="))
        if k == "if":
            if e.cond.kind == "letcond":
                env2 = dict(env)
                taken = self.bind(e.cond.pat, self.expr(e.cond.e, env), env2)
            else:
                env2 = env
                taken = self.truth(self.expr(e.cond, env))
            if taken:
                return self.block(e.then, env2)
            if e.els is None:
                return ("tuple", [])
            return self.expr(e.els, env)
        if k == "match":
            return self.match(self.expr(e.scrut, env), e.arms, env)
        if k == "macro" and e.name == "matches":
            sc, pat, guard = parse_matches_macro(e.toks)
            env2 = dict(env)
            return ("bool", self.bind(pat, self.expr(sc, env), env2) and (guard is None or self.truth(self.expr(guard, env2))))
        if k == "macro" and e.name in ("unreachable", "panic", "unimplemented", "todo"):
            raise EvalError("%s! reached" % e.name)
        if k == "call":
            if e.f.kind != "path":
                raise EvalError("call of an expression")
            args = [self.expr(a, env) for a in e.args]
            segs = [s for s in e.f.segs if s not in ("crate", "self")]
            if len(segs) == 1 and (segs[0] not in ("Some", "Ok", "Err") or find_items(self.items, "fn", segs[0])):
                return self.apply(self.free_fn(segs[0]), args)
            if segs[-1][:1].isupper() and not (segs[:-1] == self.enum_path):
                return ("ctor", "::".join(segs), args)       # a tuple-variant / tuple-struct constructor
            if segs[:-1] in (self.enum_path, ["Self"] if self.in_enum_impl else None) and args and args[0][0] == "enum":
                return self.call_method(segs[-1], args[0], args[1:])      # `AnsiColor::is_bright(color)`
            raise EvalError("call of %s" % "::".join(e.f.segs))
        if k == "mcall":
            recv = self.expr(e.recv, env)
            if recv[0] == "ctor" and recv[1] in ("Some", "None"):
                return self.option_method(e, recv, env)
            args = [self.expr(a, env) for a in e.args]
            if recv[0] == "enum":
                return self.call_method(e.name, recv, args)
            if e.name in ("clone", "to_owned") and not args:
                return recv
            if recv[0] == "ctor" and recv[1] in ("Some", "None"):
                return self.option_method(e, recv, env)
            raise EvalError("method %s on %r" % (e.name, recv))
        if k == "return":
            raise _Return(self.expr(e.e, env) if e.e is not None else ("tuple", []))
        if k == "try":
            # `e?` on an Option: Some(x) goes on with x, None is the value of the FUNCTION (closures are not entered with `?`
            # pending: `callable` evaluates a closure body through `expr`, a _Return would leave the enclosing fn -> refuse)
            v = self.expr(e.e, env)
            if v[0] == "ctor" and v[1] == "Some" and len(v[2]) == 1 and not self.in_closure:
                return v[2][0]
            if v[0] == "ctor" and v[1] == "None" and not self.in_closure:
                raise _Return(v)
            raise EvalError("`?` on %r" % (v,))
        raise EvalError("expression %s%s" % (k, (" " + e.op) if k in ("unary", "binary") else ""))

    def callable(self, f, env):
        """a function value: the name of a free function of the file, or a closure"""
        if f.kind == "path" and len(f.segs) == 1 and f.segs[0] not in env:
            fn = self.free_fn(f.segs[0])
            return lambda *a: self.apply(fn, list(a))
        if f.kind == "closure":
            def call(*a):
                if len(a) != len(f.params):
                    raise EvalError("closure: wrong number of arguments")
                env2 = dict(env)
                for (pat, _ty), v in zip(f.params, a):
                    if not self.bind(pat, v, env2):
                        raise EvalError("closure: parameter pattern does not match")
                self.in_closure += 1
                try:
                    return self.expr(f.body, env2)
                finally:
                    self.in_closure -= 1
            return call
        raise EvalError("a function argument that is neither a function of the file nor a closure")

    def option_method(self, e, recv, env):
        some = recv[1] == "Some"
        name, a = e.name, e.args
        if name in ("as_ref", "copied", "cloned", "as_deref") and not a:
            return recv
        if name in ("is_some", "is_none") and not a:
            return ("bool", some == (name == "is_some"))
        if name == "map" and len(a) == 1:
            return ("ctor", "Some", [self.callable(a[0], env)(recv[2][0])]) if some else recv
        if name == "unwrap_or" and len(a) == 1:
            d = self.expr(a[0], env)
            return recv[2][0] if some else d
        if name == "map_or" and len(a) == 2:
            d = self.expr(a[0], env)
            return self.callable(a[1], env)(recv[2][0]) if some else d
        if name in ("is_some_and",) and len(a) == 1:
            return self.callable(a[0], env)(recv[2][0]) if some else ("bool", False)
        raise EvalError("Option::%s" % name)

    def call_method(self, name, recv, args):
        fn = self.method(name)
        self.in_enum_impl += 1
        try:
            return self.apply(fn, args, self_val=recv)
        finally:
            self.in_enum_impl -= 1

    def match(self, v, arms, env):
        for pat, guard, body in arms:
            env2 = dict(env)
            if self.bind(pat, v, env2) and (guard is None or self.truth(self.expr(guard, env2))):
                return self.expr(body, env2)
        raise EvalError("no arm matches %r" % (v,))


def show(v):
    """a value as whitespace-free Rust text"""
    if v[0] == "bool":
        return "true" if v[1] else "false"
    if v[0] == "sym":
        return v[1]
    if v[0] == "tuple":
        return "(" + ",".join(show(x) for x in v[1]) + ")"
    if v[0] == "ctor":
        return v[1] + ("(" + ",".join(show(x) for x in v[2]) + ")" if v[2] else "")
    raise EvalError("an enum constant as result")


def graph(src, fn_name, enum_path, enum_src, variants, what, wrap=(), extra=()):
    """[(variant, whitespace-free text of fn_name(<enum>::variant))] for every variant, in the order of `variants`;
    with wrap = (c1, c2, ..) the argument is c2(c1(<enum>::variant)); extra = ((label, value), ..): further arguments given as
    evaluator values (`("None", ("ctor", "None", []))`), their rows `(label, text)` come after the variants"""
    items = parse(src, what)
    ev = Evaluator(items, enum_path, parse(enum_src, "source of %s" % enum_path, uses=False))
    if sorted(ev.variants) != sorted(variants):
        raise EvalError("enum %s: variants %r" % (enum_path, ev.variants))
    out = []
    for v in variants:
        try:
            out.append((v, show(ev.run(fn_name, v, wrap))))
        except RecursionError:
            raise EvalError("%s: %s(%s): recursion" % (what, fn_name, v))
        except EvalError as e:
            raise EvalError("%s: %s(%s): %s" % (what, fn_name, v, e))
    for label, val in extra:
        try:
            out.append((label, show(ev.run_value(fn_name, val))))
        except RecursionError:
            raise EvalError("%s: %s(%s): recursion" % (what, fn_name, label))
        except EvalError as e:
            raise EvalError("%s: %s(%s): %s" % (what, fn_name, label, e))
    return out
