#!/usr/bin/env python3
"""Function translator, text parsers: crates/anstyle-ls/src/lib.rs and crates/anstyle-git/src/lib.rs
-> coq/Generated/LsFn.v (C12), coq/Generated/GitFn.v (C11); coq/Generated/TextFn.v re-exports both.

The Rust functions anstyle_ls::parse, anstyle_git::parse and anstyle_git::parse_color are
TRANSLATED (tools/rs2v) into Gallina: the whole control flow -- early returns, the all-or-nothing
split / parse::<u8> / collect, the `while let` loop with its look-ahead pop_fronts and breaks, the
`for` loop with the colour-slot counter and both error returns, the '#' / number fall-back of
parse_color -- over the record types and std models of the hand model (Spec/StyleRec.v,
Model/Text.v).  Proofs/TextGen.v proves the translations equal to the hand models Model/Ls.v and
Model/Git.v the theorems of C12 / C11 are about.

Nothing in the three functions is opaque.  What they CALL is vocabulary (std and the anstyle API):
  str::{is_empty, split, parse::<u8>, split_whitespace, to_lowercase, strip_prefix, len, bytes},
  u8::{from_str_radix, is_ascii_hexdigit}, Iterator::{map, all, collect::<Option<_>>}, Result::ok,
  VecDeque::pop_front, &str[a..b]  ->  Model/Text.v;
  anstyle::{Effects::{new, insert, remove, |=, constants}, Style::{new, fg_color, bg_color,
  underline_color, effects, |= Effects}, AnsiColor::X.into(), Ansi256Color(n).into(),
  RgbColor(r, g, b).into(), Color::from}  ->  Spec/StyleRec.v (effect bit numbers and the AnsiColor
  order are read from crates/anstyle/src/{effect.rs,color.rs} on every run).
Generators: LsFn, GitFn (one file each, so that a property depends on its own half), TextFn (umbrella)."""
import os
import re
import sys

sys.path.insert(0, os.path.dirname(os.path.abspath(__file__)))
import copy
from rs2v.driver import translate, TranslateError   # noqa: E402
from rs2v import driver as drv                       # noqa: E402
from rs2v.emit import EmitError, Emitter             # noqa: E402
from rs2v.lexer import LexError                      # noqa: E402
from rs2v.rparser import parse_file, find_fn, find_items, type_name, parse_macro_args, ParseError, N      # noqa: E402

U8, USZ, BOOL, UNITT = ("int", "u8"), ("int", "usize"), ("bool",), ("coq", "unit")
STR, STRB = ("struct", "Str"), ("struct", "StrB")
COLOR = ("coq", "tcolor")
EFF, STYLE = ("struct", "Effects"), ("struct", "Style")


def RES(t, e=UNITT):
    return ("result", t, e)


# ---------------------------------------------------------------------------
# vocabulary callables

def noargs(e, what):
    if e.args:
        raise EmitError("%s takes no argument here" % what)


def m_pure(fmt, ty, what):
    def h(em, e, rt, rty, env, k):
        noargs(e, what)
        return k(fmt % rt, ty, env)
    return h


def char_arg(e, what):
    if len(e.args) != 1 or e.args[0].kind != "charlit":
        raise EmitError("%s: the argument is not a character literal" % what)
    return e.args[0].val


def m_split(em, e, rt, rty, env, k):
    return k("(split_on %d %s)" % (char_arg(e, "str::split"), rt), ("list", STR), env)


def m_strip_prefix(em, e, rt, rty, env, k):
    return k("(str_strip_prefix %s %d)" % (rt, char_arg(e, "str::strip_prefix")), ("opt", STR), env)


def m_split_at(fn):
    """`s.split_at(mid)` = (&s[..mid], &s[mid..]); panics past the end / off a char boundary (Model/Text.v): both
    pieces are byte strings (StrB), like a slice of a str"""
    def h(em, e, rt, rty, env, k):
        if len(e.args) != 1:
            raise EmitError("str::split_at takes one argument")
        return em.expr(e.args[0], env, lambda m, _ty, env1: em.bind("%s %s %s" % (fn, rt, m), ("tuple", (STRB, STRB)), env1, k, hint="sp"))
    return h


def pure_closure(em, e, rty, env, what):
    """one-parameter closure without effects -> (Gallina function text, result type)"""
    if len(e.args) != 1 or e.args[0].kind != "closure" or len(e.args[0].params) != 1:
        raise EmitError("%s needs a one-parameter closure" % what)
    cl = e.args[0]
    p = cl.params[0][0]
    while p.kind == "pref":
        p = p.inner
    if p.kind != "pident":
        raise EmitError("%s: closure parameter pattern" % what)
    if rty[0] != "list":
        raise EmitError("%s on %r" % (what, rty))
    c = em.fresh(p.name)
    pr = em.try_pure(cl.body, env.bind(p.name, c, rty[1]))
    if pr is None:
        raise EmitError("%s: the closure can panic or assigns a captured variable" % what)
    return "(fun %s => %s)" % (c, pr[0]), pr[1]


def m_map(em, e, rt, rty, env, k):
    f, ty = pure_closure(em, e, rty, env, "Iterator::map")
    return k("(map %s %s)" % (f, rt), ("list", ty), env)


def m_all(em, e, rt, rty, env, k):
    f, ty = pure_closure(em, e, rty, env, "Iterator::all")
    if ty != BOOL:
        raise EmitError("Iterator::all: the closure does not answer a bool")
    return k("(forallb %s %s)" % (f, rt), BOOL, env)


def m_collect(em, e, rt, rty, env, k):
    noargs(e, "collect")
    if getattr(e, "targs", None) != "<Option<_>>" or rty[0] != "list" or rty[1][0] != "opt":
        raise EmitError("collect: only `collect::<Option<_>>()` over options is in the vocabulary")
    return k("(collect_option %s)" % rt, ("opt", ("list", rty[1][1])), env)


def m_parse(bytes_of):
    def h(em, e, rt, rty, env, k):
        noargs(e, "str::parse")
        if getattr(e, "targs", None) != "<u8>":
            raise EmitError("str::parse: only `parse::<u8>()` is in the vocabulary (found %r)" % getattr(e, "targs", None))
        return k("(res_of_opt (parse_u8 %s))" % (bytes_of % rt), RES(U8), env)
    return h


def m_into_iter(em, e, rt, rty, env, k):
    """Vec<u8>::into_iter(): the iterator is the list of the elements still to come"""
    noargs(e, "into_iter")
    if rty != ("list", U8):
        raise EmitError("into_iter on %r: only Vec<u8> is in the vocabulary" % (rty,))
    return k(rt, ("iter", U8), env)


def m_res_ok(em, e, rt, rty, env, k):
    noargs(e, "Result::ok")
    return k("(res_ok %s)" % rt, ("opt", rty[1]), env)


def m_res_map_err(em, e, rt, rty, env, k):
    """`r.map_err(|e| <pure expression>)` (`|_| ()`): the Ok value is kept, the error goes through the closure"""
    if len(e.args) != 1 or e.args[0].kind != "closure" or len(e.args[0].params) != 1:
        raise EmitError("Result::map_err needs a one-parameter closure")
    cl = e.args[0]
    p = cl.params[0][0]
    c = em.fresh("e")
    if p.kind == "pwild":
        env1 = env
    elif p.kind == "pident":
        env1 = env.bind(p.name, c, rty[2])
    else:
        raise EmitError("Result::map_err: closure parameter pattern")
    pr = em.try_pure(cl.body, env1)
    if pr is None:
        raise EmitError("Result::map_err: the closure can panic or assigns a captured variable")
    return k("(res_map_err (fun %s => %s) %s)" % (c, pr[0], rt), RES(rty[1], pr[1]), env)


def m_into_color(em, e, rt, rty, env, k):
    noargs(e, "into")
    return k(rt, COLOR, env)


def f_effects_new(em, e, env, k):
    noargs(e, "Effects::new")
    return k("fx_new", EFF, env)


def f_style_new(em, e, env, k):
    noargs(e, "Style::new")
    return k("t_default", STYLE, env)


def f_default(em, e, env, k):
    """Default::default(): the type is the one of the assigned variable"""
    noargs(e, "Default::default")
    ty = getattr(em, "assign_ty", None)
    if ty == EFF:
        return k("fx_new", EFF, env)
    if ty is not None and ty[0] == "opt":
        return k("None", ty, env)
    raise EmitError("Default::default() for a value of type %r" % (ty,))


def f_ansi256(em, e, env, k):
    if len(e.args) != 1:
        raise EmitError("Ansi256Color(..)")
    return em.expr(e.args[0], env, lambda t, ty, env1: k("(TAnsi256 %s)" % t, ("struct", "Ansi256Color"), env1))


def f_rgb(em, e, env, k):
    if len(e.args) != 3:
        raise EmitError("RgbColor(..)")
    return em.exprs(e.args, env, lambda ts, tys, env1: k("(TRgb %s)" % " ".join(ts), ("struct", "RgbColor"), env1))


def f_color_from(em, e, env, k):
    if len(e.args) != 1:
        raise EmitError("Color::from")
    a = e.args[0]
    while a.kind == "paren":
        a = a.e
    if a.kind == "tuple" and len(a.elems) == 3:
        def k3(ts, tys, env1):
            if not all(t == U8 for t in tys):
                raise EmitError("Color::from((r, g, b)): components of type %r" % (tys,))
            return k("(TRgb %s)" % " ".join(ts), COLOR, env1)
        return em.exprs(a.elems, env, k3)

    def k1(t, ty, env1):
        if ty != U8:
            raise EmitError("Color::from of a value of type %r" % (ty,))
        return k("(TAnsi256 %s)" % t, COLOR, env1)
    return em.expr(a, env, k1)


def f_from_str_radix(em, e, env, k):
    if len(e.args) != 2 or e.args[1].kind != "int":
        raise EmitError("u8::from_str_radix: the radix is not a literal")
    radix = e.args[1].val

    def k1(t, ty, env1):
        if ty == STRB:
            b = t
        elif ty == STR:
            b = "(str_bytes %s)" % t
        else:
            raise EmitError("u8::from_str_radix of a value of type %r" % (ty,))
        return k("(res_of_opt (u8_from_str_radix %d %s))" % (radix, b), RES(U8), env1)
    return em.expr(e.args[0], env, k1)


def shape(coq, self_mode, params, ret):
    return {"coq": coq, "self": self_mode, "params": params, "ret": ret, "total": True, "cfg": False}


def effect_bits(gm):
    src = gm.strip_comments(gm.read("crates/anstyle/src/effect.rs"))
    bits = {}
    for name, sh in re.findall(r"pub const (\w+)\s*:\s*Self\s*=\s*Effects\(1 << (\d+)\);", src):
        bits[name] = int(sh)
    if len(bits) != 12 or sorted(bits.values()) != list(range(12)):
        raise gm.GenError("effect.rs: expected 12 effect constants `Effects(1 << i)`, i = 0..11; found %r" % bits)
    return bits


def ansi_colors(gm):
    src = gm.strip_comments(gm.read("crates/anstyle/src/color.rs"))
    m = re.search(r"pub enum AnsiColor\s*\{(.*?)\}", src, re.S)
    if not m:
        raise gm.GenError("color.rs: enum AnsiColor not found")
    names = [p.strip() for p in re.sub(r"#\[[^\]]*\]", "", m.group(1)).split(",") if p.strip()]
    if len(names) != 16 or not all(re.fullmatch(r"\w+", n) for n in names):
        raise gm.GenError("color.rs: AnsiColor is not 16 plain variants: %r" % names)
    return {n: i for i, n in enumerate(names)}


def vocab(gm, area):
    bits = effect_bits(gm)
    ansi = ansi_colors(gm)
    nocheck = {"check": False, "fields": {}}
    bytes_of = "%s" if area == "ls" else "(str_bytes %s)"   # ls: a &str is its UTF-8 bytes; git: its code points
    v = {
        "reserved": ["result", "Ok", "Err", "k", "next"],
        "result": {"coq": "result", "ok": "Ok", "err": "Err"},
        "no_transparent": ("into",),
        "closure_unit_state": True,     # `fun x (_ : unit) => ..`: a closure whose every call was inlined is never applied
        "type_alias": {"str": STR, "String": STR, "Color": COLOR, "Error": ("coq", "git_error")},
        "enums": {
            "AnsiColor": {"coq": "tcolor", "eqb": "color_eqb", "variants": {n: "(TAnsi %d)" % i for n, i in ansi.items()}},
        },
        "structs": {
            "Str": dict(nocheck, coq="(list N)", eqb="list_eqb", index_range=("str_slice_cp", STRB), index_len="str_len"),
            # a piece of a str (slice, split_at): its UTF-8 bytes; slicing it again checks the char boundaries too
            "StrB": dict(nocheck, coq="(list N)", eqb="list_eqb", index_range=("str_slice", STRB)),
            "Effects": dict(nocheck, coq="N", bitor="fx_bitor"),
            "Style": dict(nocheck, coq="tstyle", bitor="style_or_effects"),
            "Ansi256Color": dict(nocheck, coq="tcolor"),
            "RgbColor": dict(nocheck, coq="tcolor"),
            "ExtraColor": dict(nocheck, coq="git_error", ctor=("GEExtraColor", ["style", "word"])),
            "UnknownWord": dict(nocheck, coq="git_error", ctor=("GEUnknownWord", ["style", "word"])),
        },
        "consts": {"Effects::" + n: ("(fx_bit %d)" % i, EFF) for n, i in bits.items()},
        "fns": {
            "Effects::new": f_effects_new,
            "Style::new": f_style_new,
            "Default::default": f_default,
            "Ansi256Color": f_ansi256,
            "RgbColor": f_rgb,
            "Color::from": f_color_from,
            "u8::from_str_radix": f_from_str_radix,
        },
        "methods": {
            ("Str", "is_empty"): m_pure("(is_empty %s)", BOOL, "str::is_empty"),
            ("Str", "parse"): m_parse(bytes_of),
            ("list", "map"): m_map,
            ("list", "all"): m_all,
            ("list", "collect"): m_collect,
            ("list", "pop_front"): shape("pop_front", "inout", [], ("opt", U8)),
            # a Vec consumed through `v.into_iter()` + `it.next()` is the same queue: vec::IntoIter yields front
            # to back and is fused (None for ever once exhausted), like pop_front on an empty deque
            # (the iterator has a type of its own, ("iter", u8): `next` on a plain list stays an error)
            ("list", "into_iter"): m_into_iter,
            ("iter", "next"): shape("pop_front", "inout", [], ("opt", U8)),
            ("result", "ok"): m_res_ok,
            ("result", "map_err"): m_res_map_err,
            ("int", "is_ascii_hexdigit"): m_pure("(is_ascii_hexdigit %s)", BOOL, "u8::is_ascii_hexdigit"),
            ("Effects", "insert"): shape("fx_insert", "in", [("in", EFF)], EFF),
            ("Effects", "remove"): shape("fx_remove", "in", [("in", EFF)], EFF),
            ("Style", "fg_color"): shape("set_fg", "in", [("in", ("opt", COLOR))], STYLE),
            ("Style", "bg_color"): shape("set_bg", "in", [("in", ("opt", COLOR))], STYLE),
            ("Style", "underline_color"): shape("set_underline", "in", [("in", ("opt", COLOR))], STYLE),
            ("Style", "effects"): shape("set_effects", "in", [("in", EFF)], STYLE),
            ("AnsiColor", "into"): m_into_color,
            ("Ansi256Color", "into"): m_into_color,
            ("RgbColor", "into"): m_into_color,
        },
        "opaque": {},
    }
    if area == "ls":
        v["methods"][("Str", "split")] = m_split
        # `while let Some(part) = parts.pop_front()`: every iteration but the last pops at least one element
        v["fuel"] = {"parse": ["(S (length parts))"]}
    else:
        v["methods"].update({
            ("Str", "split_whitespace"): m_pure("(split_whitespace %s)", ("list", STR), "str::split_whitespace"),
            ("Str", "to_lowercase"): m_pure("(to_lowercase %s)", STR, "str::to_lowercase"),
            ("Str", "strip_prefix"): m_strip_prefix,
            ("Str", "len"): m_pure("(str_len %s)", USZ, "str::len"),
            ("Str", "bytes"): m_pure("(str_bytes %s)", ("list", U8), "str::bytes"),
            ("Str", "split_at"): m_split_at("str_split_at_cp"),
            ("StrB", "split_at"): m_split_at("str_split_at"),
        })
    return v


def check_literals(src, names, rel):
    """string literals (expressions and patterns) of the translated functions are ASCII: a &str literal is then
    the same list whether it is read as bytes (ls) or as code points (git)"""
    items = parse_file(src)

    def walk(x):
        if isinstance(x, N):
            if (x.kind in ("str", "bstr") or (x.kind == "plit" and getattr(x, "lk", None) in ("str", "bstr"))) and any(b >= 128 for b in x.val):
                raise TranslateError("%s: non-ASCII string literal %r" % (rel, bytes(x.val)))
            for v in x.__dict__.values():
                walk(v)
        elif isinstance(x, (list, tuple)):
            for y in x:
                walk(y)
    for n in names:
        walk(find_fn(items, n, None, None))


# ---------------------------------------------------------------------------
# impl std::fmt::Display for anstyle_git::Error
#
# `fmt: &mut Formatter` is the text written so far (code points, like every string of the git area; threaded like
# every `&mut`), `std::fmt::Result` = `result unit unit`; a formatter over an infallible sink (what `to_string()` /
# `format!("{}", e)` use): `write!` appends its pieces in order and answers Ok(()).

GIT_ERROR_VARIANTS = [("ExtraColor", "GEExtraColor"), ("UnknownWord", "GEUnknownWord")]
GIT_ERROR_FIELDS = ["style", "word"]
FMT_RES = RES(UNITT, UNITT)


def format_pieces(fmt):
    """a format string -> [("lit", text) | ("arg", name)]: literal pieces (`{{` / `}}` unescaped) and INLINE captures
    `{name}`; positional / formatted placeholders (`{}`, `{0}`, `{x:?}`, `{x:>5}`) are not in the vocabulary"""
    out, lit, i = [], "", 0
    while i < len(fmt):
        c = fmt[i]
        if c in "{}" and fmt[i:i + 2] == c + c:
            lit += c
            i += 2
        elif c == "{":
            j = fmt.find("}", i)
            name = fmt[i + 1:j] if j >= 0 else ""
            if not re.fullmatch(r"[A-Za-z_][A-Za-z0-9_]*", name):
                raise EmitError("write!: placeholder %r: only inline captures `{name}` are in the vocabulary" % fmt[i:j + 1 if j >= 0 else len(fmt)])
            if lit:
                out.append(("lit", lit))
            out.append(("arg", name))
            lit, i = "", j + 1
        elif c == "}":
            raise EmitError("write!: unmatched `}` in the format string")
        else:
            lit += c
            i += 1
    if lit:
        out.append(("lit", lit))
    return out


def mac_write_git(em, e, env, k):
    """`write!(fmt, "literal {style} .. {word}")`: one append (git_fmt_write) per piece of the format string"""
    args = parse_macro_args(e.toks)
    if len(args) != 2 or args[0].kind != "path" or len(args[0].segs) != 1 or args[1].kind != "str":
        raise EmitError("write!: expected write!(<formatter variable>, \"format string with inline captures\")")
    dest = args[0]
    v = env.get(dest.segs[0])
    if v is None or v.ty != STR:
        raise EmitError("write!: %s is not the formatter" % dest.segs[0])
    if any(b >= 128 for b in args[1].val):
        raise EmitError("write!: non-ASCII format string (bytes = code points only for ASCII)")
    term = v.coq
    for kind, x in format_pieces(bytes(args[1].val).decode("ascii")):
        if kind == "lit":
            piece = "[%s]" % "; ".join(str(ord(c)) for c in x)
        else:
            a = env.get(x)
            if a is None or a.ty != STR:
                raise EmitError("write!: `{%s}`: not a String / &str variable in scope (Display of a str = the str itself)" % x)
            piece = a.coq
        term = "(git_fmt_write %s %s)" % (term, piece)
    return em.write_place(dest, term, env, lambda env1: k("(Ok tt)", FMT_RES, env1))


def struct_patterns_to_tuple(x, variants, fields):
    """`Self::ExtraColor { style, word }` -> `Self::ExtraColor(style, word)` (fields matched BY NAME and put in the
    argument order of the hand model's constructors, every field named, no `..`): the emitter knows data-carrying
    variants as tuple patterns (vocabulary `payload`)"""
    if isinstance(x, N):
        if x.kind == "pstruct":
            if x.segs[-1] not in variants or x.rest:
                raise TranslateError("pattern %s { .. }: not a fully spelt-out variant of Error" % "::".join(x.segs))
            got = dict(x.fields)
            if sorted(got) != sorted(fields) or len(x.fields) != len(fields):
                raise TranslateError("pattern %s: fields %r, the vocabulary models %r" % ("::".join(x.segs), [f for f, _ in x.fields], fields))
            return N("ptstruct", segs=x.segs, elems=[struct_patterns_to_tuple(got[f], variants, fields) for f in fields])
        for key, val in list(x.__dict__.items()):
            setattr(x, key, struct_patterns_to_tuple(val, variants, fields))
        return x
    if isinstance(x, list):
        return [struct_patterns_to_tuple(y, variants, fields) for y in x]
    if isinstance(x, tuple):
        return tuple(struct_patterns_to_tuple(y, variants, fields) for y in x)
    return x


def check_git_error(items):
    """`enum Error { ExtraColor { style: String, word: String }, UnknownWord { style: String, word: String } }`"""
    ens = find_items(items, "enum", "Error")
    if len(ens) != 1:
        raise TranslateError("enum Error: %d definitions" % len(ens))
    got = []
    for vname, payload, disc, _attrs in ens[0].variants:
        if payload != "struct" and not isinstance(payload, list):
            raise TranslateError("enum Error::%s: payload %r" % (vname, payload))
        got.append(vname)
    if got != [v for v, _ in GIT_ERROR_VARIANTS]:
        raise TranslateError("enum Error: variants %r, the vocabulary models %r" % (got, [v for v, _ in GIT_ERROR_VARIANTS]))


def git_error_fmt(gm, src):
    """`impl std::fmt::Display for Error`::fmt -> g_git_error_fmt"""
    try:
        items = parse_file(src)
    except (ParseError, LexError) as e:
        raise TranslateError("parse error: %s" % e)
    check_git_error(items)
    fn = find_fn(items, "fmt", "Error", "Display")
    v = vocab(gm, "git")
    v["enums"] = dict(v["enums"], Error={
        "coq": "git_error", "var": "err", "variants": dict(GIT_ERROR_VARIANTS),
        "payload": {n: [STR] * len(GIT_ERROR_FIELDS) for n, _ in GIT_ERROR_VARIANTS}})
    v["type_alias"] = dict(v["type_alias"], Formatter=STR, Result=FMT_RES)
    v["macros"] = {"write": mac_write_git}
    v["reserved"] = v["reserved"] + ["err", "fmt"]
    fn2 = struct_patterns_to_tuple(copy.deepcopy(fn), dict(GIT_ERROR_VARIANTS), GIT_ERROR_FIELDS)
    try:
        text, _shape = Emitter(v, items).emit_fn(fn2, "Error", "g_git_error_fmt")
    except EmitError as e:
        raise TranslateError("<Error as Display>::fmt: %s" % e)
    drv.REGISTRY.append(("translated", drv._sha(src), fn, "g_git_error_fmt"))
    return "(* <Error as Display>::fmt *)\n" + text + "\n"


HEADER = "(* GENERATED by tools/gen_fn_text.py (tools/rs2v) from %s\n   (effect bits / AnsiColor order from crates/anstyle/src/{effect.rs,color.rs}) -- do not edit *)"
REQ = """From Coq Require Import NArith List Bool.
From AV Require Import Spec.StyleRec Model.Base Model.Imp Model.Text%s.
Import ListNotations.
Local Open Scope N_scope.
Local Open Scope bool_scope."""

LS = "crates/anstyle-ls/src/lib.rs"
GIT = "crates/anstyle-git/src/lib.rs"


def register(generators, gm):
    def guarded(f):
        def g():
            try:
                return f()
            except TranslateError as e:
                raise gm.GenError(str(e))
            except KeyError as e:
                raise gm.GenError("function not found: %s" % e)
        return g

    def gen_ls():
        ls = gm.read(LS)
        check_literals(ls, ["parse"], LS)
        return translate(ls, vocab(gm, "ls"), [("parse", None, "g_ls_parse", {})], HEADER % LS, REQ % "", {}) + "\n"

    def gen_git():
        git = gm.read(GIT)
        check_literals(git, ["parse_color", "parse"], GIT)
        return translate(git, vocab(gm, "git"), [
            ("parse_color", None, "g_git_parse_color", {}),
            ("parse", None, "g_git_parse", {}),
        ], HEADER % GIT, REQ % " Model.Git", {}) + "\n" + git_error_fmt(gm, git) + "\n"

    def gen_text():
        return ("(* GENERATED by tools/gen_fn_text.py -- do not edit *)\n"
                "(* the translated text parsers: Generated/LsFn.v (anstyle_ls::parse), Generated/GitFn.v (anstyle_git::{parse, parse_color}) *)\n"
                "From AV Require Export Generated.LsFn Generated.GitFn.\n")

    generators["LsFn"] = guarded(gen_ls)
    generators["GitFn"] = guarded(gen_git)
    generators["TextFn"] = gen_text
