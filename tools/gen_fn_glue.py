#!/usr/bin/env python3
"""Function translator, the anstream glue (C08, C19):

  crates/anstream/src/buffer.rs   Buffer::{new, with_capacity, as_bytes}, AsRef::as_ref, io::Write::{write, flush}
  crates/anstream/src/stream.rs   every `impl IsTerminal for <T>` (is_terminal) and every `impl AsLockedWrite for <T>`
                                  (as_locked_write)
  crates/anstream/src/lib.rs      stdout(), stderr()
  crates/anstream/src/_macros.rs  to_adapted_string, and the macro_rules arms of print! / println! / eprint! / eprintln! /
                                  panic! (a small reader turns every arm into a function body, see MACROS below)
  -> coq/Generated/GlueFn.v       (generator name GlueFn)

translated (tools/rs2v) for the configuration C08 / C19 are stated for (non-Windows target, default features: feature
"auto" on, `test` off).  Proofs/GlueGen.v proves every translation equal to what the hand models and the vocabularies of
the other areas ASSUME about these functions:

  * Buffer is an accept-all in-memory writer: `write` appends the whole buffer and answers Ok(len), `flush` does nothing --
    exactly what the scripted writer of Spec/Io.v does once its script is exhausted (buffer_write_simulates_writer);
  * `raw.is_terminal()` (vocabulary of tools/gen_fn_auto.py: raw_is_terminal cf raw) is, for Stdout / StdoutLock / Stderr /
    StderrLock / File, the polyfill asked about `self` (no other handle), for the in-memory and dyn streams the constant
    false, for `&T` / `&mut T` / `Box<T>` the pointee's answer;
  * `x.as_locked_write()` (vocabulary of the LOCK translation of tools/gen_fn_auto.py: lr_acquire on x, the view lr_w x) IS
    what the impls for Stdout / Stderr do (`self.lock()`: one Acquire, the guard views the same stream); every other impl
    hands out `self` and takes no lock;
  * `anstream::stdout()` / `stderr()` are `AutoStream::auto` (TRANSLATED in Generated/AutoFn.v) of the process's stdout /
    stderr handle, each of its own handle.

Vocabulary (named, not translated): `is_terminal_polyfill::IsTerminal::is_terminal(x)` = raw_is_terminal cf x (what the OS
answers for that stream: std / the polyfill crate); `Stdout::lock()` / `Stderr::lock()` inside as_locked_write = lr_acquire +
the view lr_w (std's reentrant lock; the guard's destructor belongs to the caller's scope, tools/gen_fn_auto.py `drops`);
`std::io::stdout()` / `std::io::stderr()` = the two handles, extra parameters STDOUT / STDERR (vocabulary `statics`);
`Vec<u8>::extend(&[u8])` = append; `Vec::with_capacity(n)` = []; `#[derive(Default)]` on a struct = every field's default
(the derive attribute and the field list are read from the source: derive_default)."""
import os
import re
import sys

sys.path.insert(0, os.path.dirname(os.path.abspath(__file__)))
from rs2v.driver import translate, TranslateError, token_hash, fn_source   # noqa: E402
from rs2v import driver as drv   # noqa: E402
from rs2v.emit import EmitError, Emitter, NeedsBind   # noqa: E402
from rs2v.rparser import parse_file, find_items, find_fn, type_name   # noqa: E402
import gen_fn_auto   # noqa: E402
from glue_common import derive_default, make_f_default, target_label   # noqa: E402,F401

U8, USZ = ("int", "u8"), ("int", "usize")
UNIT, BOOL = ("unit",), ("bool",)
BYTES = ("list", U8)
WRITER = ("coq", "writer")
BUFFER = ("struct", "Buffer")
CFG = gen_fn_auto.CFG


def res(t):
    return ("res", t)


# -- buffer.rs ------------------------------------------------------------------------------------------------
def f_vec_with_capacity(em, e, env, k):
    if len(e.args) != 1:
        raise EmitError("with_capacity: expected 1 argument")
    return em.expr(e.args[0], env, lambda _t, _ty, env1: k("[]", BYTES, env1))


def f_self_tuple(em, e, env, k):
    """Self(v) in `impl Buffer`"""
    if em.self_struct != "Buffer" or len(e.args) != 1:
        raise EmitError("Self(..): only Buffer(Vec<u8>) is modelled")

    def k1(t, ty, env1):
        if ty != BYTES:
            raise EmitError("Buffer(%r)" % (ty,))
        return k("(buf_mk %s)" % t, BUFFER, env1)
    return em.expr(e.args[0], env, k1)


def m_list_extend(em, e, rt, rty, env, k):
    if len(e.args) != 1:
        raise EmitError("extend: expected 1 argument")

    def k1(t, ty, env1):
        if ty != rty:
            raise EmitError("extend of %r by %r" % (rty, ty))
        return em.write_place(e.recv, "(%s ++ %s)" % (rt, t), env1, lambda env2: k("tt", UNIT, env2))
    return em.expr(e.args[0], env, k1)


m_list_extend.mutates = True

V_BUFFER = {
    "result": {"err": "ekind"},
    "no_transparent": ["as_bytes", "as_ref"],
    "type_alias": {},
    "enums": {},
    "structs": {
        "Buffer": {"coq": "(list N)", "var": "b", "ctor": ("buf_mk", ["0"]), "fields": {
            "0": ("buf_f0", "set_buf_f0", BYTES),
        }},
    },
    "consts": {},
    "fns": {
        "Default::default": make_f_default({repr(BYTES): "[]"}),
        "Vec::with_capacity": f_vec_with_capacity,
        "Self": f_self_tuple,
    },
    "methods": {("list", "extend"): m_list_extend},
    "opaque": {},
}

BUFFER_TARGETS = [
    ("new", "Buffer", "g_buffer_new", {}),
    ("with_capacity", "Buffer", "g_buffer_with_capacity", {}),
    ("as_bytes", "Buffer", "g_buffer_as_bytes", {}),
    ("as_ref", "Buffer", "g_buffer_as_ref", {"trait": "AsRef"}),
    ("write", "Buffer", "g_buffer_write", {"trait": "Write"}),
    ("flush", "Buffer", "g_buffer_flush", {"trait": "Write"}),
]


# -- stream.rs: the impls of IsTerminal / AsLockedWrite ----------------------------------------------------------
# label of the impl target -> Coq suffix
HANDLES = [
    ("&T", "ref"), ("&mut T", "refmut"), ("Box<T>", "box"),
    ("std::io::Stdout", "stdout"), ("std::io::StdoutLock", "stdoutlock"),
    ("std::io::Stderr", "stderr"), ("std::io::StderrLock", "stderrlock"),
    ("dyn std::io::Write", "dyn"), ("dyn std::io::Write + Send", "dyn_send"), ("dyn std::io::Write + Send + Sync", "dyn_send_sync"),
    ("Vec<u8>", "vec"), ("std::fs::File", "file"), ("crate::Buffer", "buffer"),
]
GENERIC = ("ref", "refmut", "box")
LOCKING = {"stdout": "std::io::StdoutLock<'w>", "stderr": "std::io::StderrLock<'w>"}


def f_polyfill(em, e, env, k):
    """is_terminal_polyfill::IsTerminal::is_terminal(x): what the OS answers for THAT stream"""
    if len(e.f.segs) != 3 or e.f.segs[0] != "is_terminal_polyfill" or len(e.args) != 1:
        raise EmitError("only is_terminal_polyfill::IsTerminal::is_terminal(x) is modelled")
    return em.expr(e.args[0], env, lambda t, _ty, env1: k("(raw_is_terminal %s %s)" % (em.v["config_param"][0], t), BOOL, env1))


def m_pointee_is_terminal(em, e, rt, rty, env, k):
    """(**self).is_terminal() in the impls for &T / &mut T / Box<T>: the pointee's own impl"""
    if e.args:
        raise EmitError("is_terminal takes no argument")
    return k("(tit %s)" % rt, BOOL, env)


def hstruct(coq):
    return {h: {"coq": coq, "var": "w" if coq == "writer" else "lr", "fields": {}, "check": False} for h in ("H_" + s for _l, s in HANDLES)}


def v_is_terminal(generic):
    v = {
        "config_param": ("cf", "acfg"), "reserved": ["cf", "tit"],
        "type_alias": {}, "enums": {}, "consts": {}, "opaque": {},
        "structs": hstruct("writer"),
        "fns": {"IsTerminal::is_terminal": f_polyfill},
        "methods": {},
    }
    if generic:
        v["methods"] = {("H_" + s, "is_terminal"): m_pointee_is_terminal for s in GENERIC}
    return v


LRAW = ("coq", "lraw")
GUARD = ("coq", "writer")


def m_std_lock(em, e, rt, rty, env, k):
    """`self.lock()` on Stdout / Stderr inside as_locked_write: take the lock NOW (lr_acquire on the place), the guard is
    the view lr_w of the locked stream (its destructor runs in the caller's scope)"""
    if e.args:
        raise EmitError("lock takes no argument")
    if em.pure_mode:
        raise NeedsBind()
    if em.place_root(e.recv) is None:
        raise EmitError("lock on a value that is no place")
    return em.write_place(e.recv, "(lr_acquire %s)" % rt, env,
                          lambda env1: em.expr(e.recv, env1, lambda rt1, _t, env2: k("(lr_w %s)" % rt1, GUARD, env2)))


m_std_lock.mutates = True


def m_pointee_as_locked_write(em, e, rt, rty, env, k):
    """(**self).as_locked_write() in the impls for &mut T / Box<T>: the pointee's own impl [talw]"""
    if e.args:
        raise EmitError("as_locked_write takes no argument")
    if em.pure_mode:
        raise NeedsBind()
    if em.place_root(e.recv) is None:
        raise EmitError("as_locked_write on a value that is no place")
    o, r = em.fresh("o"), em.fresh("r")
    return "let '(%s, %s) := talw %s in\n%s" % (o, r, rt, em.write_place(e.recv, o, env, lambda env1: k(r, ("coq", "G"), env1)))


m_pointee_as_locked_write.mutates = True


def v_as_locked_write(suffix):
    v = {
        "type_alias": {}, "enums": {}, "consts": {}, "opaque": {}, "fns": {},
        "reserved": ["talw", "G"],
        "structs": hstruct("lraw"),
        "methods": {("H_stdout", "lock"): m_std_lock, ("H_stderr", "lock"): m_std_lock},
        # the associated type `Write<'w>` of the impl (checked against the source by the plug-in): the lock guard for
        # Stdout / Stderr, `&'w mut Self` for every other stream, the pointee's for the generic impls
        "ret_types": {"H_%s::as_locked_write" % suffix: GUARD if suffix in LOCKING else (("coq", "G") if suffix in GENERIC else ("struct", "H_" + suffix))},
    }
    if suffix in GENERIC:
        v["config_param"] = ("talw", "(lraw -> lraw * G)")
        v["methods"] = {("H_" + suffix, "as_locked_write"): m_pointee_as_locked_write}
    return v


def assoc_write_types(src):
    """`type Write<'w> = <T> where ..;` of every `impl AsLockedWrite for <X>` (rs2v skips `type` items), by impl label"""
    out = {}
    for m in re.finditer(r"impl\s*(<[^>]*>)?\s*AsLockedWrite\s+for\s+([^{]+?)\s*\{\s*type\s+Write<'w>\s*=\s*([^;]+?)\s*(?:where\s+Self\s*:\s*'w\s*)?;", src):
        lab = re.sub(r"\s+", " ", m.group(2)).replace("<'static>", "").replace("<'_>", "")
        out[lab] = re.sub(r"\s+", " ", m.group(3))
    return out


def trait_impls(items, trait, fname):
    out = {}
    for it in items:
        if it.kind == "impl" and it.trait is not None and type_name(it.trait) == trait:
            cf = [a for a in (it.attrs or []) if a.replace(" ", "").startswith("#[cfg")]
            if cf:
                raise TranslateError("impl %s for %s under %s" % (trait, target_label(it.target), " ".join(cf)))
            lab = target_label(it.target)
            fns = [x for x in it.items if x.kind == "fn"]
            if lab in out or len(fns) != 1 or fns[0].name != fname:
                raise TranslateError("impl %s for %s: duplicate, or not exactly one fn %s" % (trait, lab, fname))
            out[lab] = fns[0]
    return out


def emit_impls(src, items, impls, labels, vocab_of, prefix, trait, binder_of=None):
    out = []
    for lab, suf in labels:
        v = vocab_of(suf)
        em = Emitter(v, items)
        coq = prefix + suf
        try:
            text, _shape = em.emit_fn(impls[lab], "H_" + suf, coq)
        except EmitError as e:
            raise TranslateError("impl %s for %s: %s" % (trait, lab, e))
        if binder_of:
            text = binder_of(suf, text)
        drv.REGISTRY.append(("translated", drv._sha(src), impls[lab], coq))
        out += ["(* impl %s for %s *)" % (trait, lab), text, ""]
    return "\n".join(out)


def stream_rs(src):
    try:
        items = parse_file(src)
    except Exception as e:
        raise TranslateError("parse error: %s" % e)
    it = trait_impls(items, "IsTerminal", "is_terminal")
    want = [l for l, _s in HANDLES]
    if sorted(it) != sorted(want):
        raise TranslateError("impl IsTerminal for: %r, the vocabulary models %r" % (sorted(it), sorted(want)))

    def tit_binder(suf, text):
        # the pointee's impl is a parameter of the three generic impls
        return text.replace("(cf : acfg)", "(cf : acfg) (tit : writer -> bool)", 1) if suf in GENERIC else text
    out = ["(* ---- crates/anstream/src/stream.rs: `impl IsTerminal for <T>` ---- *)",
           emit_impls(src, items, it, HANDLES, lambda s: v_is_terminal(s in GENERIC), "g_is_terminal_", "IsTerminal", tit_binder)]
    al = trait_impls(items, "AsLockedWrite", "as_locked_write")
    want = [l for l, s in HANDLES if s != "ref"]
    if sorted(al) != sorted(want):
        raise TranslateError("impl AsLockedWrite for: %r, the vocabulary models %r" % (sorted(al), sorted(want)))
    wt = assoc_write_types(src)
    for lab, suf in HANDLES:
        if suf == "ref":
            continue
        exp = LOCKING.get(suf, "T::Write<'w>" if suf in GENERIC else "&'w mut Self")
        if wt.get(lab) != exp:
            raise TranslateError("impl AsLockedWrite for %s: type Write<'w> = %r, the vocabulary models %r" % (lab, wt.get(lab), exp))

    def g_binder(suf, text):
        return text.replace("(talw : (lraw -> lraw * G))", "(G : Type) (talw : (lraw -> lraw * G))", 1) if suf in GENERIC else text
    out += ["(* ---- crates/anstream/src/stream.rs: `impl AsLockedWrite for <T>`, over a raw stream that logs its lock events ---- *)",
            emit_impls(src, items, al, [(l, s) for l, s in HANDLES if s != "ref"], v_as_locked_write, "g_as_locked_write_", "AsLockedWrite", g_binder)]
    return "\n".join(out)


def is_terminal_classes(src):
    """{impl label: "false" | "polyfill" | "forward"}: every `impl IsTerminal for <T>` of stream.rs classified by what its
    TRANSLATION computes (the constant false / the polyfill asked about self / the pointee's impl), whatever the body's
    spelling -- for tools/gen_choice.py, whose table of the impls (C09's data) used to pin the three spellings textually"""
    try:
        items = parse_file(src)
    except Exception as e:
        raise TranslateError("parse error: %s" % e)
    it = trait_impls(items, "IsTerminal", "is_terminal")
    suffix = dict(HANDLES)
    out = {}
    n0 = len(drv.REGISTRY)
    for lab, fn in it.items():
        suf = suffix.get(lab)
        if suf is None:
            raise TranslateError("impl IsTerminal for %s: not in the vocabulary" % lab)
        em = Emitter(v_is_terminal(suf in GENERIC), items)
        try:
            text, _shape = em.emit_fn(fn, "H_" + suf, "g_probe")
        except EmitError as e:
            raise TranslateError("impl IsTerminal for %s: %s" % (lab, e))
        body = re.sub(r"\s+", " ", text.split(":=", 1)[1]).strip().rstrip(".").strip()
        m = re.match(r"Definition g_probe \(cf : acfg\) \((\w+) : writer\)", text)
        w = m.group(1) if m else "?"
        if body == "false":
            out[lab] = "false"
        elif body == "(raw_is_terminal cf %s)" % w:
            out[lab] = "polyfill"
        elif body == "(tit %s)" % w and suf in GENERIC:
            out[lab] = "forward"
        else:
            raise TranslateError("impl IsTerminal for %s: the translation %r is none of false / the polyfill on self / the pointee's impl" % (lab, body))
    del drv.REGISTRY[n0:]
    return out


# -- lib.rs: stdout() / stderr() -----------------------------------------------------------------------------------
def f_std_handle(which):
    def f(em, e, env, k):
        if e.args:
            raise EmitError("std::io::%s takes no argument" % which.lower())
        v = env.get(which)
        if v is None:
            raise EmitError("std::io::%s(): the function does not declare the handle (vocabulary static_use)" % which.lower())
        return k(v.coq, WRITER, env)
    return f


def v_lib():
    v = dict(gen_fn_auto.V_AUTO)
    # the structs are defined in auto.rs / strip.rs (checked there by tools/gen_fn_auto.py)
    v["structs"] = {n: dict(st, check=False) for n, st in v["structs"].items()}
    v["fns"] = dict(v["fns"], **{"io::stdout": f_std_handle("STDOUT"), "io::stderr": f_std_handle("STDERR")})
    # lib.rs: `pub type Stdout = AutoStream<std::io::Stdout>;` / `pub type Stderr = AutoStream<std::io::Stderr>;` (checked in gen)
    v["type_alias"] = dict(v["type_alias"], Stdout=gen_fn_auto.ASTREAM, Stderr=gen_fn_auto.ASTREAM)
    v["statics"] = {"STDOUT": WRITER, "STDERR": WRITER}
    both = [("STDOUT", "in"), ("STDERR", "in")]
    v["static_use"] = {"stdout": both, "stderr": both, "to_adapted_string": []}
    return v


HEADER = ("(* GENERATED by tools/gen_fn_glue.py (tools/rs2v) from crates/anstream/src/{buffer.rs, stream.rs, lib.rs, _macros.rs}\n"
          "   (non-Windows target, default features) -- do not edit *)")
REQ = """From Coq Require Import NArith List Bool.
From AV Require Import Generated.Table Spec.Io Model.Base Model.Imp Model.Utf8parse Model.Parser Model.Strip Model.Stream Model.Glue
  Generated.StreamFn Generated.AutoFn.
Import ListNotations.
Local Open Scope N_scope.
Local Open Scope bool_scope."""


def auto_shapes(strip, auto):
    """shapes of the functions Generated/AutoFn.v defines that lib.rs / _macros.rs call (text discarded)"""
    shapes = gen_fn_auto.stream_shapes(strip)
    translate(strip, gen_fn_auto.V_STRIP, [("new", "StripStream", "g_ss_new", {}), ("into_inner", "StripStream", "g_ss_into_inner", {}),
                                           ("is_terminal", "StripStream", "g_ss_is_terminal", {})], "", "", shapes)
    wr = {"trait": "Write"}
    translate(auto, gen_fn_auto.V_AUTO, [
        ("always_ansi_", "AutoStream", "g_as_always_ansi_", {}), ("always_ansi", "AutoStream", "g_as_always_ansi", {}),
        ("always", "AutoStream", "g_as_always", {}), ("never", "AutoStream", "g_as_never", {}),
        ("choice", "AutoStream", "g_as_choice", {}), ("new", "AutoStream", "g_as_new", {"rec_fuel": "2%nat"}),
        ("auto", "AutoStream", "g_as_auto", {}), ("into_inner", "AutoStream", "g_as_into_inner", {}),
        ("write_fmt", "AutoStream", "g_as_write_fmt", wr),
    ], "", "", shapes)
    return shapes


def register(generators, gm):
    def gen():
        try:
            n0 = len(drv.REGISTRY)
            shapes = auto_shapes(gm.read("crates/anstream/src/strip.rs"), gm.read("crates/anstream/src/auto.rs"))
            # the shapes only: AutoFn registers (and writes) those functions
            del drv.REGISTRY[n0:]
            out = [HEADER, REQ, ""]
            out.append(translate(gm.read("crates/anstream/src/buffer.rs"), V_BUFFER, BUFFER_TARGETS, "", "", {}))
            out.append(stream_rs(gm.read("crates/anstream/src/stream.rs")))
            lib = gm.read("crates/anstream/src/lib.rs")
            for n in ("Stdout", "Stderr"):
                if not re.search(r"pub\s+type\s+%s\s*=\s*AutoStream\s*<\s*std::io::%s\s*>\s*;" % (n, n), lib):
                    raise TranslateError("lib.rs: `pub type %s = AutoStream<std::io::%s>;` not found" % (n, n))
            # one at a time: the emitter resolves a call by its LAST path segment among the translated functions first, so
            # with `stdout` in the shapes a `std::io::stdout()` inside `stderr()` would be read as the crate's own stdout()
            for fname in ("stdout", "stderr"):
                out.append(translate(lib, v_lib(), [(fname, None, "g_" + fname, {})], "", "", shapes))
                shapes.pop(fname)
            return "\n".join(out) + "\n"
        except TranslateError as e:
            raise gm.GenError(str(e))
    generators["GlueFn"] = gen
