"""Translator, parser build configurations (C20): the cfg-dependent parts of
crates/anstyle-parse/src/lib.rs and the [features] table of its Cargo.toml
->  coq/Generated/ParseCfg.v.
Hooked into tools/gen_model.py through `register`; helpers come from that module.

What is data is translated (MAX_OSC_RAW, the feature table, the feature sets of
the property resolved through that table); what is shape is checked and recorded
as a named boolean (a changed shape raises GenError = broken tie):
  * `#[cfg(feature = "core")] osc_raw: ArrayVec<u8, MAX_OSC_RAW>` /
    `#[cfg(not(feature = "core"))] osc_raw: alloc::vec::Vec<u8>`
  * `Action::OscPut` starts with `#[cfg(feature = "core")] { if self.osc_raw.is_full() { return; } }`
    and the only growth of the buffer is `self.osc_raw.push(byte)` in its non-';' branch
  * `DefaultCharAccumulator` is `Utf8Parser` with `utf8`, `AsciiParser` without
  * `AsciiParser::add` is `unreachable!(..)`
"""
import re

# the four feature sets the property quantifies over: label -> cargo arguments
FEATURE_SETS = [
    ("default", None),            # default features
    ("core", ["core"]),           # --no-default-features --features core
    ("core-utf8", ["core", "utf8"]),
    ("none", []),                 # --no-default-features
]


def register(generators, gm):
    g = globals()
    for k in dir(gm):
        if not k.startswith("__") and k not in g:
            g[k] = getattr(gm, k)
    generators["ParseCfg"] = gen_parsecfg


def _ws(s):
    return re.sub(r"\s+", " ", s).strip()


def _fn_takes_over(why):
    """The BODY shapes checked below (the cfg(core) guard at the head of Action::OscPut, the single push, AsciiParser::add
    being `unreachable!`) are also TRANSLATED (tools/gen_fn_parser.py -> Generated/ParserFn.v: `#[cfg(feature = "core")] {..}`
    as `if cfg_core c`, `is_full` as `raw_full c`, the accumulator chosen by `utf8_on c`) and proved equal to the hand model
    the C20 theorems run (Proofs/ParserGen.v g_perform_action_eq / g_char_add_eq; C20 names both generators in gen_deps).
    A body that is not, text for text, the shape written down here is therefore no alarm by itself: the pin falls back on
    "the function translator still translates the crate"; what the code does is then decided by those proofs.  The DATA read
    here (MAX_OSC_RAW, the feature table, the field declarations, the type aliases) stays strict."""
    fn_gen = GENERATORS.get("ParserFn")
    try:
        if fn_gen is None:
            raise GenError("no function translator")
        fn_gen()
    except GenError as e:
        raise GenError("%s (and the function translator does not take over: %s)" % (why, e))


def _features(toml):
    m = re.search(r"^\[features\]\s*\n(.*?)(?=^\[|\Z)", toml, re.S | re.M)
    if not m:
        raise GenError("Cargo.toml: [features] not found")
    table = []
    for line in m.group(1).splitlines():
        line = line.split("#", 1)[0].strip()
        if not line:
            continue
        mm = re.fullmatch(r"([\w-]+)\s*=\s*\[(.*)\]", line)
        if not mm:
            raise GenError("Cargo.toml [features]: unrecognised line %r" % line)
        deps = []
        for tok in mm.group(2).split(","):
            tok = tok.strip()
            if not tok:
                continue
            ms = re.fullmatch(r'"([^"]*)"', tok)
            if not ms:
                raise GenError("Cargo.toml [features]: unrecognised entry %r" % tok)
            deps.append(ms.group(1))
        table.append((mm.group(1), deps))
    names = [n for n, _ in table]
    if sorted(names) != ["core", "default", "utf8"]:
        raise GenError("Cargo.toml [features]: expected exactly default/core/utf8, found %r" % names)
    d = dict(table)
    if d["core"] != ["dep:arrayvec"]:
        raise GenError('Cargo.toml: core = %r, expected ["dep:arrayvec"]' % d["core"])
    if d["utf8"] != ["dep:utf8parse"]:
        raise GenError('Cargo.toml: utf8 = %r, expected ["dep:utf8parse"]' % d["utf8"])
    for f in d["default"]:
        if f not in d:
            raise GenError("Cargo.toml: default feature %r is not a feature" % f)
    for dep in ("arrayvec", "utf8parse"):
        if not re.search(r"^%s\s*=\s*\{[^}\n]*optional\s*=\s*true[^}\n]*\}" % dep, toml, re.M):
            raise GenError("Cargo.toml: %s is not an optional dependency" % dep)
    return table


def _resolve(table, feats):
    d = dict(table)
    todo = list(d["default"]) if feats is None else list(feats)
    on = set()
    while todo:
        f = todo.pop()
        if f in on or f.startswith("dep:"):
            continue
        if f not in d:
            raise GenError("feature %r not in the table" % f)
        on.add(f)
        todo.extend(d[f])
    return on


def gen_parsecfg():
    lib = strip_comments(read("crates/anstyle-parse/src/lib.rs"))
    toml = read("crates/anstyle-parse/Cargo.toml")
    flat = _ws(lib)

    # MAX_OSC_RAW, only with `core`
    m = re.search(r'#\[cfg\(feature = "core"\)\] const MAX_OSC_RAW\s*:\s*usize\s*=\s*(\w+);', flat)
    if not m:
        raise GenError('`#[cfg(feature = "core")] const MAX_OSC_RAW: usize = ..;` not found')
    max_raw = rust_int(m.group(1))
    if not 0 < max_raw < 1 << 32:
        raise GenError("MAX_OSC_RAW out of range: %d" % max_raw)

    # the two field declarations
    decl = re.findall(r"#\[cfg\(([^\]]*)\)\] osc_raw\s*:\s*(.+?), (?=#|\w+\s*:)", flat)
    want = [('feature = "core"', "ArrayVec<u8, MAX_OSC_RAW>"), ('not(feature = "core")', "alloc::vec::Vec<u8>")]
    if [(a.strip(), _ws(b)) for a, b in decl] != want:
        raise GenError("osc_raw field declarations: unexpected shape %r" % (decl,))
    if len(re.findall(r"\bosc_raw\s*:", flat)) != 2:
        raise GenError("osc_raw: expected exactly two field declarations")
    if not re.search(r'#\[cfg\(feature = "core"\)\] use arrayvec::ArrayVec;', flat):
        raise GenError("`use arrayvec::ArrayVec` under cfg(core) not found")

    # Action::OscPut: guard first, one push
    mf = re.search(r"\bfn\s+perform_action\s*<", lib)
    if not mf or len(re.findall(r"\bfn\s+perform_action\b", lib)) != 1:
        raise GenError("fn perform_action not found (or not unique)")
    body = lib[mf.start():]
    if len(re.findall(r"Action::OscPut\s*=>", lib)) != 1:
        raise GenError("expected exactly one Action::OscPut arm")
    mm = re.search(r"Action::OscPut\s*=>\s*\{", body)
    if not mm:
        raise GenError("Action::OscPut arm not found")
    i = body.index("{", mm.start())
    depth = 0
    arm = None
    for j in range(i, len(body)):
        if body[j] == "{":
            depth += 1
        elif body[j] == "}":
            depth -= 1
            if depth == 0:
                arm = _ws(body[i + 1:j])
                break
    if arm is None:
        raise GenError("Action::OscPut: unbalanced braces")
    guard = '#[cfg(feature = "core")] { if self.osc_raw.is_full() { return; } }'
    rest = arm[len(guard):].strip() if arm.startswith(guard) else arm
    uses = set(re.findall(r"osc_raw\s*(\.\w+|\[)", flat))
    if not arm.startswith(guard):
        _fn_takes_over("Action::OscPut does not start with the cfg(core) is_full guard: %r" % arm[:90])
    elif "cfg" in rest:
        _fn_takes_over("Action::OscPut: further cfg-dependent code after the guard")
    elif not rest.startswith("let idx = self.osc_raw.len(); if byte == b';' {"):
        _fn_takes_over("Action::OscPut: unexpected code after the guard: %r" % rest[:80])
    elif not re.search(r"\} else \{ self\.osc_raw\.push\(byte\); \}$", rest):
        _fn_takes_over("Action::OscPut: the non-';' branch is not `self.osc_raw.push(byte)`")
    elif flat.count("osc_raw.push(") != 1:
        _fn_takes_over("osc_raw.push: expected exactly one call site")
    # every other use of osc_raw is len / clear / index (no other growth, no other cfg)
    elif uses != {".is_full", ".len", ".push", ".clear", "["}:
        _fn_takes_over("osc_raw: unexpected uses %r" % sorted(uses))
    # cfg attributes in lib.rs: exactly the known ones
    cfgs = sorted(set(re.findall(r"#\[cfg\(([^\]]*)\)\]", flat)))
    if cfgs != ['feature = "core"', 'feature = "utf8"', 'not(feature = "core")', 'not(feature = "utf8")']:
        raise GenError("lib.rs: unexpected cfg attributes %r" % cfgs)

    # char accumulators
    if not re.search(r'#\[cfg\(feature = "utf8"\)\] pub type DefaultCharAccumulator = Utf8Parser; '
                     r'#\[cfg\(not\(feature = "utf8"\)\)\] pub type DefaultCharAccumulator = AsciiParser;', flat):
        raise GenError("DefaultCharAccumulator alias: unexpected shape")
    mi = re.search(r"impl CharAccumulator for AsciiParser \{(.*?)\} \}", flat)
    if not mi or not re.fullmatch(r'\s*fn add\(&mut self, _byte: u8\) -> Option<char> \{ unreachable!\("[^"]*"\)\s*', mi.group(1)):
        _fn_takes_over("AsciiParser::add is not a bare unreachable!")
    if not re.search(r'#\[cfg\(feature = "utf8"\)\] impl CharAccumulator for Utf8Parser', flat):
        raise GenError("Utf8Parser impl under cfg(utf8) not found")
    if not re.search(r"pub struct Parser<C = DefaultCharAccumulator>", flat):
        raise GenError("Parser<C = DefaultCharAccumulator> not found")

    table = _features(toml)
    sets = []
    for label, feats in FEATURE_SETS:
        on = _resolve(table, feats)
        sets.append((label, "core" in on, "utf8" in on))

    def cb(b):
        return "true" if b else "false"

    o = [HEADER % "crates/anstyle-parse/{src/lib.rs,Cargo.toml}"]
    o.append("From Coq Require Import NArith List.\nImport ListNotations.\nLocal Open Scope N_scope.\n")
    o.append("(* #[cfg(feature = \"core\")] const MAX_OSC_RAW *)")
    o.append("Definition pc_max_osc_raw : N := %d.\n" % max_raw)
    o.append("(* shapes recognised by the translator (a changed shape is a generator error) *)")
    o.append("Definition pc_shape_core_buffer_is_arrayvec_max_osc_raw : bool := true.")
    o.append("Definition pc_shape_nocore_buffer_is_vec : bool := true.")
    o.append("Definition pc_shape_oscput_starts_with_is_full_return : bool := true.")
    o.append("Definition pc_shape_single_push_in_oscput : bool := true.")
    o.append("Definition pc_shape_ascii_add_is_unreachable : bool := true.")
    o.append("Definition pc_shape_default_accumulator_by_utf8 : bool := true.\n")
    o.append("(* Cargo.toml [features]: name, what it enables (names as byte strings) *)")
    o.append("Definition pc_feature_table : list (list N * list (list N)) :=\n  [%s].\n" % ";\n   ".join(
        "(%s (* %s *), [%s])" % (coq_bytes(n.encode()), n, "; ".join("%s (* %s *)" % (coq_bytes(d.encode()), d) for d in deps))
        for n, deps in table))
    o.append("(* the feature sets of the property resolved through the table:\n   label, `core` enabled, `utf8` enabled *)")
    o.append("Definition pc_feature_sets : list (list N * (bool * bool)) :=\n  [%s].\n" % ";\n   ".join(
        "(%s (* %s *), (%s, %s))" % (coq_bytes(l.encode()), l, cb(c), cb(u)) for l, c, u in sets))
    return "\n".join(o)
