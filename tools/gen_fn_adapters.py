#!/usr/bin/env python3
"""Function translator, the conversion crates (C16):
crates/anstyle-{ansi-term,crossterm,owo-colors,termcolor,yansi,syntect}/src/lib.rs
-> coq/Generated/AdaptersFn.v.

EVERY function of the six crates is TRANSLATED (tools/rs2v) into Gallina over the types of the hand
model (Spec/Sgr.v `sstyle`, Spec/Targets.v `ad_tstyle` / `ad_tcolor`, adapters at the end of
Model/Adapters.v):
  anstyle-ansi-term   rgb_to_ansi_color, xterm_to_ansi_color, ansi_to_ansi_color, to_ansi_color, to_ansi_term
  anstyle-crossterm   rgb_to_ansi_color, xterm_to_ansi_color, ansi_to_ansi_color, to_ansi_color, to_crossterm
  anstyle-owo-colors  rgb_to_owo_colors_color, xterm_to_owo_colors_color, ansi_to_owo_colors_color, to_owo_colors, to_owo_style
  anstyle-termcolor   rgb_to_termcolor_color, xterm_to_termcolor_color, ansi_to_termcolor_color, to_termcolor_color, to_termcolor_spec
  anstyle-yansi       rgb_to_yansi_color, xterm_to_yansi_color, ansi_to_yansi_color, to_yansi_color, to_yansi_style
  anstyle-syntect     to_anstyle_effects, to_anstyle_color, to_anstyle
Proofs/AdaptersGen.v proves every translation equal to the hand model (Model/Adapters.v) the theorems of
C16 are about.  The table translator tools/gen_adapters.py (`Adapters`: the match ARMS and the effect
list as data for the hand model) is unchanged; this translation covers the control flow: which effect
switches which attribute on, in which order, under which condition, which colour goes to which slot.

Nothing inside the six crates is opaque.  What the functions CALL is vocabulary (one per crate; a path is
only accepted with the crate prefix the library really has, see `lib_path`):
  anstyle        Style::{get_fg_color, get_bg_color, get_underline_color, get_effects, new, fg_color,
                 bg_color, effects}, Effects::{new, contains, `|=`, constants}, the enums Color (one payload
                 per variant) and AnsiColor (its ANSI number), the tuple structs Ansi256Color / RgbColor
  target crates  (third party, outside the repository: no token pin; names as in the libraries' API
                 documentation, the same names Spec/Targets.v gives a meaning to)
                 builder methods / setters -> ad_t_with_fg, ad_t_with_bg, ad_t_set_fg, ad_t_set_bg,
                 ad_t_attr (by NAME), ad_t_flag (termcolor's `set_x(bool)`), crossterm's
                 Attributes::{default, set} -> ad_attrs_new / ad_attrs_set, the struct literal
                 ContentStyle { .. } -> mkAdT, colour constructors -> AdNamed <name> / AdFixed / AdRgb
  syntect        Style { foreground, background, font_style }, Color { r, g, b, a }, FontStyle::{BOLD,
                 UNDERLINE, ITALIC} (ad_font_flag: the documented bit), FontStyle::contains
  std            Option::map(<translated fn>) (ad_opt_map_m when the function can answer None),
                 Option::unwrap_or, Some(..), tuples"""
import os
import re
import sys

sys.path.insert(0, os.path.dirname(os.path.abspath(__file__)))
from rs2v.driver import translate, TranslateError   # noqa: E402
from rs2v.emit import EmitError, Emitter             # noqa: E402
from rs2v.rparser import parse_file, find_items, ParseError, type_name, N   # noqa: E402
from rs2v.lexer import LexError   # noqa: E402
from rs2v.imports import resolve_uses, UseError   # noqa: E402

U8, BOOL = ("int", "u8"), ("bool",)
ANSI = ("enum", "AnsiColor")
COLOR = ("enum", "Color")
A256, RGB = ("struct", "Ansi256Color"), ("struct", "RgbColor")
ASTYLE, EFF = ("struct", "AStyle"), ("struct", "Effects")
TSTYLE, TCOLOR = ("struct", "TStyle"), ("struct", "TColor")
NAME = ("struct", "Name")            # a target constructor / attribute known by its name
ATTRS = ("struct", "Attributes")     # crossterm::style::Attributes

ANSI_NAMES = ["Black", "Red", "Green", "Yellow", "Blue", "Magenta", "Cyan", "White",
              "BrightBlack", "BrightRed", "BrightGreen", "BrightYellow", "BrightBlue", "BrightMagenta", "BrightCyan", "BrightWhite"]
BRIGHT8 = ["Black", "Red", "Green", "Yellow", "Blue", "Magenta", "Cyan", "White"]

# ---------------------------------------------------------------------------
# The public API of the target libraries, as far as the adapters may use it (names from the libraries'
# documentation: ansi_term 0.12, crossterm 0.28, owo-colors 4, termcolor 1.1, yansi 1.0, syntect 5).
# A name outside these lists is a GEN-ERROR; what a name MEANS is Spec/Targets.v's business.
LIBS = {
    "ansi_term": {
        "src": "crates/anstyle-ansi-term/src/lib.rs",
        "style": "ansi_term::Style", "color": "ansi_term::Color",
        "named": ["Black", "Red", "Green", "Yellow", "Blue", "Purple", "Cyan", "White"],
        "fixed": "Fixed", "rgb": ("RGB", "tuple"),
        "new": "ansi_term::Style::new", "with_fg": "fg", "with_bg": "on",
        "attrs": ["bold", "dimmed", "italic", "underline", "blink", "reverse", "hidden", "strikethrough"],
        "targets": [("rgb_to_ansi_color", "g_at_rgb_to_ansi_color"), ("xterm_to_ansi_color", "g_at_xterm_to_ansi_color"),
                    ("ansi_to_ansi_color", "g_at_ansi_to_ansi_color"), ("to_ansi_color", "g_at_to_ansi_color"),
                    ("to_ansi_term", "g_to_ansi_term")],
    },
    "crossterm": {
        "src": "crates/anstyle-crossterm/src/lib.rs",
        "style": "crossterm::style::ContentStyle", "color": "crossterm::style::Color",
        "named": ["Reset", "Black", "DarkGrey", "Red", "DarkRed", "Green", "DarkGreen", "Yellow", "DarkYellow", "Blue", "DarkBlue",
                  "Magenta", "DarkMagenta", "Cyan", "DarkCyan", "White", "Grey"],
        "fixed": "AnsiValue", "rgb": ("Rgb", "struct"),
        "attribute": "crossterm::style::Attribute",
        "attrs": ["Reset", "Bold", "Dim", "Italic", "Underlined", "DoubleUnderlined", "Undercurled", "Underdotted", "Underdashed",
                  "SlowBlink", "RapidBlink", "Reverse", "Hidden", "CrossedOut", "Fraktur", "NoBold", "NormalIntensity", "NoItalic",
                  "NoUnderline", "NoBlink", "NoReverse", "NoHidden", "NotCrossedOut", "Framed", "Encircled", "OverLined",
                  "NotFramedOrEncircled", "NotOverLined"],
        "targets": [("rgb_to_ansi_color", "g_ct_rgb_to_ansi_color"), ("xterm_to_ansi_color", "g_ct_xterm_to_ansi_color"),
                    ("ansi_to_ansi_color", "g_ct_ansi_to_ansi_color"), ("to_ansi_color", "g_ct_to_ansi_color"),
                    ("to_crossterm", "g_to_crossterm")],
    },
    "owo": {
        "src": "crates/anstyle-owo-colors/src/lib.rs",
        "style": "owo_colors::Style", "color": "owo_colors::DynColors",
        "named_path": "owo_colors::colored::Color",
        "named": BRIGHT8 + ["Default"] + ["Bright" + n for n in BRIGHT8],
        "new": "owo_colors::Style::new", "with_fg": "color", "with_bg": "on_color",
        "attrs": ["bold", "dimmed", "italic", "underline", "blink", "blink_fast", "reversed", "hidden", "strikethrough"],
        "targets": [("rgb_to_owo_colors_color", "g_owo_rgb_to_owo_colors_color"), ("xterm_to_owo_colors_color", "g_owo_xterm_to_owo_colors_color"),
                    ("ansi_to_owo_colors_color", "g_owo_ansi_to_owo_colors_color"), ("to_owo_colors", "g_to_owo_colors"),
                    ("to_owo_style", "g_to_owo_style")],
    },
    "termcolor": {
        "src": "crates/anstyle-termcolor/src/lib.rs",
        "style": "termcolor::ColorSpec", "color": "termcolor::Color",
        "named": ["Black", "Blue", "Green", "Red", "Cyan", "Magenta", "Yellow", "White"],
        "fixed": "Ansi256", "rgb": ("Rgb", "tuple"),
        "new": "termcolor::ColorSpec::new", "set_fg": "set_fg", "set_bg": "set_bg",
        "flags": ["set_bold", "set_dimmed", "set_italic", "set_underline", "set_intense", "set_reset"],
        "targets": [("rgb_to_termcolor_color", "g_tc_rgb_to_termcolor_color"), ("xterm_to_termcolor_color", "g_tc_xterm_to_termcolor_color"),
                    ("ansi_to_termcolor_color", "g_tc_ansi_to_termcolor_color"), ("to_termcolor_color", "g_to_termcolor_color"),
                    ("to_termcolor_spec", "g_to_termcolor_spec")],
    },
    "yansi": {
        "src": "crates/anstyle-yansi/src/lib.rs",
        "style": "yansi::Style", "color": "yansi::Color",
        "named": ["Primary"] + BRIGHT8 + ["Bright" + n for n in BRIGHT8],
        "fixed": "Fixed", "rgb": ("Rgb", "tuple"),
        "new": "yansi::Style::new", "with_fg": "fg", "with_bg": "bg",
        "attrs": ["bold", "dim", "italic", "underline", "blink", "rapid_blink", "invert", "conceal", "strike"],
        "targets": [("rgb_to_yansi_color", "g_ya_rgb_to_yansi_color"), ("xterm_to_yansi_color", "g_ya_xterm_to_yansi_color"),
                    ("ansi_to_yansi_color", "g_ya_ansi_to_yansi_color"), ("to_yansi_color", "g_to_yansi_color"),
                    ("to_yansi_style", "g_to_yansi_style")],
    },
}
SYNTECT_SRC = "crates/anstyle-syntect/src/lib.rs"
SYNTECT_FLAGS = ["BOLD", "UNDERLINE", "ITALIC"]          # syntect::highlighting::FontStyle (bitflags)
SYNTECT_TARGETS = [("to_anstyle_effects", "g_syn_to_anstyle_effects"), ("to_anstyle_color", "g_syn_to_anstyle_color"),
                   ("to_anstyle", "g_syn_to_anstyle")]


def coq_name(s):
    """an ASCII identifier of a library's API as the byte string Spec/Targets.v knows it by"""
    return "[" + "; ".join(str(b) for b in s.encode("ascii")) + "]"


def shape(coq, self_mode, params, ret, total=True):
    return {"coq": coq, "self": self_mode, "params": params, "ret": ret, "total": total, "cfg": False}


# ---------------------------------------------------------------------------
# vocabulary callables

def lib_path(e, want, what):
    """the called path, written in full (a crate's own `Color::Fixed` would otherwise pass for the library's)"""
    got = "::".join(e.f.segs)
    if got != want:
        raise EmitError("call of %s: the vocabulary models %s (%s)" % (got, want, what))


def f_const(path, term, ty):
    def h(em, e, env, k):
        lib_path(e, path, "no arguments")
        if e.args:
            raise EmitError("%s takes no argument" % path)
        return k(term, ty, env)
    h.path = path
    return h


def f_ctor(path, fmt, ptys, ty):
    """a constructor call `path(a, b, ..)`; every argument must have the modelled type"""
    def h(em, e, env, k):
        lib_path(e, path, "%d arguments" % len(ptys))
        if len(e.args) != len(ptys):
            raise EmitError("%s takes %d arguments" % (path, len(ptys)))

        def k1(ts, tys, env1):
            for t, want in zip(tys, ptys):
                if t != want:
                    raise EmitError("%s: argument of type %r, the vocabulary models %r" % (path, t, want))
            return k(fmt % tuple(ts), ty, env1)
        return em.exprs(e.args, env, k1)
    h.path = path
    return h


def m_getter(fmt, ty):
    def h(em, e, rt, rty, env, k):
        if e.args:
            raise EmitError("%s takes no argument" % e.name)
        return k(fmt % rt, ty, env)
    return h


def m_attr(name):
    """`style.bold()` (by value, returns the new style): the attribute switched on, by name"""
    def h(em, e, rt, rty, env, k):
        if e.args:
            raise EmitError("%s takes no argument" % e.name)
        return k("(ad_t_attr %s %s)" % (rt, coq_name(name)), TSTYLE, env)
    return h


def var_place(e, what):
    """the variable a `&mut self` setter is called on (termcolor's setters return `&mut ColorSpec`, crossterm's
    Attributes::set returns nothing; both are used as statements on a local)"""
    while e.kind == "paren" or (e.kind == "unary" and e.op in ("&mut", "*")):
        e = e.e
    if e.kind == "path" and len(e.segs) == 1:
        return e.segs[0]
    raise EmitError("%s on a receiver that is no variable" % what)


def m_setter(fmt, ptys, ret):
    """`place.set_x(arg)` on a `&mut self`: the place is rewritten; the value of the call is the place (termcolor)
    or unit (crossterm)"""
    def h(em, e, rt, rty, env, k):
        if len(e.args) != len(ptys):
            raise EmitError("%s takes %d arguments" % (e.name, len(ptys)))
        root = var_place(e.recv, e.name)

        def k1(ts, tys, env1):
            for t, want in zip(tys, ptys):
                if t != want:
                    raise EmitError("%s: argument of type %r, the vocabulary models %r" % (e.name, t, want))
            cur = env1.get(root).coq
            return em.write_place(N("path", segs=[root]), fmt % tuple([cur] + ts), env1,
                                  lambda env2: k(env2.get(root).coq, rty, env2) if ret == "self" else k("tt", ("unit",), env2))
        return em.exprs(e.args, env, k1)
    h.mutates = True
    return h


def one_param_fn(em, a, what):
    if a.kind != "path" or len(a.segs) != 1 or a.segs[0] not in em.fn_shapes:
        raise EmitError("%s: the argument is not a translated function of this crate" % what)
    sh = em.fn_shapes[a.segs[0]]
    if sh.get("self") or len(sh["params"]) != 1 or sh["params"][0][0] != "in" or sh.get("cfg"):
        raise EmitError("%s(%s): not a function of one by-value parameter" % (what, a.segs[0]))
    return sh


def m_opt_map(em, e, rt, rty, env, k):
    """Option::map(<translated function>)"""
    if len(e.args) != 1:
        raise EmitError("Option::map takes one argument")
    sh = one_param_fn(em, e.args[0], "Option::map")
    if rty[0] != "opt" or rty[1] != sh["params"][0][1]:
        raise EmitError("Option::map(%s) on %r" % (sh["coq"], rty))
    if sh["total"]:
        return k("(option_map %s %s)" % (sh["coq"], rt), ("opt", sh["ret"]), env)
    return em.bind("ad_opt_map_m %s %s" % (sh["coq"], rt), ("opt", sh["ret"]), env, k, hint="om")


def m_rgb_into(em, e, rt, rty, env, k):
    """`RgbColor(..).into()` where a Color is expected: `impl From<RgbColor> for Color` = Color::Rgb"""
    if e.args:
        raise EmitError("into takes no argument")
    return k("(AdcRgb %s)" % rt, COLOR, env)


def m_contains(em, e, rt, rty, env, k):
    """bitflags `contains`: (self & other) == other; both sides of one flags type"""
    if len(e.args) != 1:
        raise EmitError("contains takes one argument")

    def k1(t, ty, env1):
        if ty != rty:
            raise EmitError("%r.contains(%r)" % (rty, ty))
        return k("(ad_bits_contains %s %s)" % (rt, t), BOOL, env1)
    return em.expr(e.args[0], env, k1)


# ---------------------------------------------------------------------------
# vocabulary

def anstyle_vocab(bits):
    """the anstyle side, common to the six crates"""
    nocheck = {"check": False, "fields": {}}
    return {
        "reserved": ["k", "next", "s", "t", "c", "e", "bit"],
        "no_transparent": ("into",),
        "type_alias": {
            "anstyle::Style": ASTYLE, "anstyle::Color": COLOR, "anstyle::AnsiColor": ANSI,
            "anstyle::Ansi256Color": A256, "anstyle::RgbColor": RGB, "anstyle::Effects": EFF,
        },
        "enums": {
            "AnsiColor": {"coq": "N", "eqb": "N.eqb", "native": False, "variants": {n: str(i) for i, n in enumerate(ANSI_NAMES)}},
            "Color": {"coq": "ad_color", "variants": {"Ansi": "AdcAnsi", "Ansi256": "AdcIdx", "Rgb": "AdcRgb"},
                      "payload": {"Ansi": [ANSI], "Ansi256": [A256], "Rgb": [RGB]}},
        },
        "structs": {
            "AStyle": dict(nocheck, coq="sstyle"),
            "Effects": dict(nocheck, coq="N", bitor="ad_bits_or"),
            "Ansi256Color": {"coq": "N", "var": "c", "check": False, "fields": {"0": ("ad_idx_f0", None, U8)}},
            "RgbColor": {"coq": "(N * N * N)", "var": "c", "check": False, "fields": {
                "0": ("ad_rgb_f0", None, U8), "1": ("ad_rgb_f1", None, U8), "2": ("ad_rgb_f2", None, U8)}},
            "TStyle": dict(nocheck, coq="ad_tstyle"),
            "TColor": dict(nocheck, coq="ad_tcolor"),
            "Name": dict(nocheck, coq="(list N)"),
        },
        "paths": {"anstyle::Effects::" + n: ("(bit %d)" % b, EFF) for n, b in bits.items()},
        "consts": {},
        "method_paths": {},
        "fns": {},
        "methods": {
            ("AStyle", "get_fg_color"): m_getter("(ad_s_get_fg %s)", ("opt", COLOR)),
            ("AStyle", "get_bg_color"): m_getter("(ad_s_get_bg %s)", ("opt", COLOR)),
            ("AStyle", "get_underline_color"): m_getter("(ad_s_get_ul %s)", ("opt", COLOR)),
            ("AStyle", "get_effects"): m_getter("(ad_s_get_eff %s)", EFF),
            ("Effects", "contains"): m_contains,
            ("opt", "map"): m_opt_map,
        },
        "macros": {},
        "opaque": {},
    }


def lib_vocab(lib, bits):
    d = LIBS[lib]
    v = anstyle_vocab(bits)
    v["type_alias"][d["style"]] = TSTYLE
    v["type_alias"][d["color"]] = TCOLOR
    named_path = d.get("named_path", d["color"])
    named_ty = NAME if "named_path" in d else TCOLOR
    if "named_path" in d:
        v["type_alias"][d["named_path"]] = NAME
    for n in d["named"]:
        v["paths"]["%s::%s" % (named_path, n)] = (coq_name(n) if named_ty == NAME else "(AdNamed %s)" % coq_name(n), named_ty)
    last2 = lambda p: "::".join(p.split("::")[-2:])
    if "fixed" in d:
        p = "%s::%s" % (d["color"], d["fixed"])
        v["fns"][last2(p)] = f_ctor(p, "(AdFixed %s)", [U8], TCOLOR)
    if "rgb" in d and d["rgb"][1] == "tuple":
        p = "%s::%s" % (d["color"], d["rgb"][0])
        v["fns"][last2(p)] = f_ctor(p, "(AdRgb %s %s %s)", [U8, U8, U8], TCOLOR)
    if "new" in d:
        v["fns"][last2(d["new"])] = f_const(d["new"], "ad_t_new", TSTYLE)
    if "with_fg" in d:
        v["methods"][("TStyle", d["with_fg"])] = shape("ad_t_with_fg", "in", [("in", TCOLOR)], TSTYLE)
        v["methods"][("TStyle", d["with_bg"])] = shape("ad_t_with_bg", "in", [("in", TCOLOR)], TSTYLE)
        for a in d["attrs"]:
            v["methods"][("TStyle", a)] = m_attr(a)
            # `<Style>::bold` as a function POINTER in a private table of the crate (emit.py fn_value)
            v["method_paths"]["%s::%s" % (d["style"], a)] = ("TStyle", a)
    if lib == "crossterm":
        # Color::Rgb { r, g, b } and ContentStyle { .. } are struct literals; Attributes is a set of Attribute
        v["structs"]["Rgb"] = {"coq": "ad_tcolor", "check": False, "ctor": ("AdRgb", ["r", "g", "b"]),
                               "fields": {"r": (None, None, U8), "g": (None, None, U8), "b": (None, None, U8)}}
        v["structs"]["ContentStyle"] = {"coq": "ad_tstyle", "check": False,
                                        "ctor": ("mkAdT", ["foreground_color", "background_color", "underline_color", "attributes"]),
                                        "fields": {"foreground_color": ("ad_t_fg", None, ("opt", TCOLOR)),
                                                   "background_color": ("ad_t_bg", None, ("opt", TCOLOR)),
                                                   "underline_color": ("ad_t_ul", None, ("opt", TCOLOR)),
                                                   "attributes": ("ad_t_attrs", None, ATTRS)}}
        v["structs"]["Attributes"] = {"coq": "(list (list N))", "check": False, "fields": {}}
        v["type_alias"]["crossterm::style::Attributes"] = ATTRS
        v["type_alias"]["crossterm::style::Attribute"] = NAME
        v["type_alias"][d["style"]] = ("struct", "ContentStyle")
        v["structlits"] = [d["style"], "%s::%s" % (d["color"], d["rgb"][0])]
        for a in d["attrs"]:
            v["paths"]["%s::%s" % (d["attribute"], a)] = (coq_name(a), NAME)
        v["fns"]["Attributes::default"] = f_const("crossterm::style::Attributes::default", "ad_attrs_new", ATTRS)
        v["methods"][("Attributes", "set")] = m_setter("(ad_attrs_set %s %s)", [NAME], "unit")
    if lib == "owo":
        v["structs"]["XtermColors"] = {"coq": "N", "check": False, "fields": {}}
        xt = ("struct", "XtermColors")
        v["type_alias"]["owo_colors::XtermColors"] = xt
        # XtermColors::from(u8): the colour with that index (impl From<u8> for XtermColors)
        v["fns"]["XtermColors::from"] = f_ctor("owo_colors::XtermColors::from", "%s", [U8], xt)
        v["fns"]["DynColors::Ansi"] = f_ctor("owo_colors::DynColors::Ansi", "(AdNamed %s)", [NAME], TCOLOR)
        v["fns"]["DynColors::Xterm"] = f_ctor("owo_colors::DynColors::Xterm", "(AdFixed %s)", [xt], TCOLOR)
        v["fns"]["DynColors::Rgb"] = f_ctor("owo_colors::DynColors::Rgb", "(AdRgb %s %s %s)", [U8, U8, U8], TCOLOR)
    if lib == "termcolor":
        v["methods"][("TStyle", d["set_fg"])] = m_setter("(ad_t_set_fg %s %s)", [("opt", TCOLOR)], "self")
        v["methods"][("TStyle", d["set_bg"])] = m_setter("(ad_t_set_bg %s %s)", [("opt", TCOLOR)], "self")
        for f in d["flags"]:
            v["methods"][("TStyle", f)] = m_setter("(ad_t_flag %%s %s %%s)" % coq_name(f), [BOOL], "self")
    return v


def syntect_vocab(bits):
    v = anstyle_vocab(bits)
    syn_color, syn_style, font = ("struct", "SynColor"), ("struct", "SynStyle"), ("struct", "FontStyle")
    v["type_alias"].update({"syntect::highlighting::Style": syn_style, "syntect::highlighting::Color": syn_color,
                            "syntect::highlighting::FontStyle": font})
    v["structs"]["SynStyle"] = {"coq": "ad_syn_style", "var": "s", "check": False, "fields": {
        "foreground": ("ad_syn_fg", None, syn_color), "background": ("ad_syn_bg", None, syn_color), "font_style": ("ad_syn_font", None, font)}}
    v["structs"]["SynColor"] = {"coq": "(N * N * N * N)", "var": "c", "check": False, "fields": {
        "r": ("ad_syn_r", None, U8), "g": ("ad_syn_g", None, U8), "b": ("ad_syn_b", None, U8), "a": ("ad_syn_a", None, U8)}}
    v["structs"]["FontStyle"] = {"coq": "N", "check": False, "fields": {}}
    for f in SYNTECT_FLAGS:
        v["paths"]["syntect::highlighting::FontStyle::" + f] = ("(ad_font_flag %s)" % coq_name(f), font)
    v["fns"]["Style::new"] = f_const("anstyle::Style::new", "ad_s_new", ASTYLE)
    v["fns"]["Effects::new"] = f_const("anstyle::Effects::new", "ad_bits_new", EFF)
    v["fns"]["RgbColor"] = f_ctor("anstyle::RgbColor", "(ad_rgb_new %s %s %s)", [U8, U8, U8], RGB)
    v["methods"].update({
        ("FontStyle", "contains"): m_contains,
        ("RgbColor", "into"): m_rgb_into,
        ("AStyle", "fg_color"): shape("ad_s_with_fg", "in", [("in", ("opt", COLOR))], ASTYLE),
        ("AStyle", "bg_color"): shape("ad_s_with_bg", "in", [("in", ("opt", COLOR))], ASTYLE),
        ("AStyle", "effects"): shape("ad_s_with_eff", "in", [("in", EFF)], ASTYLE),
    })
    return v


HEADER = ("(* GENERATED by tools/gen_fn_adapters.py (tools/rs2v) from crates/anstyle-{ansi-term,crossterm,owo-colors,termcolor,yansi,syntect}/src/lib.rs\n"
          "   (enum orders from crates/anstyle/src/color.rs, effect bits from crates/anstyle/src/effect.rs) -- do not edit *)")
REQ = """From Coq Require Import NArith List Bool.
From AV Require Import Generated.Adapters Spec.Sgr Spec.Targets Model.Adapters Model.Base Model.Imp.
Import ListNotations.
Local Open Scope N_scope.
Local Open Scope bool_scope."""


def check_enum(items, name, expected):
    ens = find_items(items, "enum", name)
    if len(ens) != 1:
        raise TranslateError("enum %s: %d definitions" % (name, len(ens)))
    got = []
    for vname, payload, disc, _attrs in ens[0].variants:
        if payload == "struct" or disc is not None:
            raise TranslateError("enum %s::%s: struct payload / explicit discriminant" % (name, vname))
        got.append((vname, [type_name(t) for t in payload] if payload else []))
    if got != expected:
        raise TranslateError("enum %s: variants %r, the vocabulary models %r" % (name, got, expected))


def read_src(gm, rel):
    """the source with its `use` declarations resolved (tools/rs2v/imports.py): `use anstyle::AnsiColor;` + `AnsiColor::Red` is read
    as `anstyle::AnsiColor::Red`, file-wide or inside one function; what cannot be resolved exactly (a glob import, an imported
    name that is also a local) stays a GEN-ERROR.  A source without `use` is returned as it is."""
    src = gm.read(rel)
    try:
        return resolve_uses(src)
    except (UseError, LexError) as e:
        raise TranslateError("%s: `use` item: the vocabulary reads every path in full, and %s" % (rel, e))


def anstyle_color_src(gm):
    """crates/anstyle/src/color.rs as an `inline_sources` entry: a method of anstyle's own colour types that an adapter calls
    (`color.is_bright()`) and that is neither vocabulary nor a function of the adapter is INLINED from its source (emit.py
    `local_method`: the `impl` of the receiver's type), i.e. tied to what anstyle really does, not to a name"""
    return gm.read("crates/anstyle/src/color.rs")


def check_file(gm, rel, src, items, vocab):
    """no `use` / `type` / `macro_rules` (they would change what a path means; the parser skips them), then check_paths"""
    text = fn_pointer_aliases(rel, gm.strip_comments(src), vocab)
    m = re.search(r"^\s*(?:pub(?:\([^)]*\))?\s+)?(use|type|extern|macro_rules)\b", text, re.M)
    if m:
        raise TranslateError("%s: `%s` item: the vocabulary reads every path as written" % (rel, m.group(1)))
    check_paths(rel, items, vocab, set(h.path for h in vocab["fns"].values() if hasattr(h, "path")))


def fn_pointer_aliases(rel, text, vocab):
    """A PRIVATE module-level `type NAME = fn(T, ..) -> R;` over types of the vocabulary (written in full) is no change of
    what a path means: NAME becomes a `type_alias` of the function-pointer type (emit.py: a "fnval") and the item is
    blanked out of the text the `use` / `type` check looks at.  Any other `type` item stays a GEN-ERROR."""
    def repl(m):
        name, rhs = m.group(1), m.group(2)
        try:
            ty = parse_file("const X: %s = 0;" % rhs)[0].ty
        except (ParseError, LexError, IndexError, AttributeError):
            return m.group(0)
        fv = Emitter(vocab, []).ty_of_ast(ty)
        if fv[0] != "fnval" or name in vocab["type_alias"]:
            return m.group(0)
        vocab["type_alias"][name] = fv
        return " " * len(m.group(0))
    return re.sub(r"(?m)^type\s+(\w+)\s*=\s*(fn\s*\([^;{}]*);", repl, text)


def check_paths(rel, items, vocab, callees):
    """Every path of two or more segments in the file is written in full and known to the vocabulary.  (The
    emitter resolves enum variants, constructors and struct literals by their LAST one or two segments:
    `foo::Color::Ansi(x)` must not pass for `anstyle::Color::Ansi(x)`.)  Types: whole-path keys of `type_alias`;
    values and patterns: `paths`, the variants of the enums under their aliased path; callees: the vocabulary
    callables compare the whole path themselves (lib_path), here only the crate prefix is checked."""
    types = set(vocab["type_alias"])
    known = set(vocab["paths"]) | set(vocab.get("structlits", ()))
    for en, ent in vocab["enums"].items():
        for p, t in vocab["type_alias"].items():
            if t == ("enum", en):
                known.update("%s::%s" % (p, var) for var in ent["variants"])

    def bad(p, what):
        raise TranslateError("%s: %s %s is not in the vocabulary (paths must be written in full)" % (rel, what, p))

    def walk(x, seen):
        if isinstance(x, (list, tuple)):
            for y in x:
                walk(y, seen)
            return
        if not isinstance(x, N) or id(x) in seen:
            return
        seen.add(id(x))
        segs = getattr(x, "segs", None)
        if isinstance(segs, list) and len(segs) >= 2:
            p = "::".join(segs)
            if x.kind == "ty":
                if p not in types:
                    bad(p, "type")
            elif x.kind in ("path", "ppath", "ptstruct", "pstruct", "structlit"):
                if p not in known:
                    bad(p, "path")
        for kk, vv in x.__dict__.items():
            if x.kind == "call" and kk == "f" and vv.kind == "path":
                p = "::".join(vv.segs)
                if len(vv.segs) >= 2 and p not in callees:
                    bad(p, "callee")
                continue
            walk(vv, seen)
    fn_known = known
    for it in items:
        if it.kind == "fn":
            known = fn_known
            walk(it, set())
        elif it.kind == "const" and not getattr(it, "static", False) and not getattr(it, "pub", False) \
                and it.val is not None and it.val.kind == "array":
            # a private table (emit.py source_table reads it where a function names it): its paths are checked like
            # those of a function; only here may a vocabulary method be NAMED as a function pointer (`method_paths`)
            known = fn_known | set(vocab.get("method_paths", ()))
            walk(it, set())
            known = fn_known
        elif it.kind not in ("use",):
            raise TranslateError("%s: item `%s` besides the conversion functions" % (rel, it.kind))


def effect_bits(gm):
    src = gm.strip_comments(gm.read("crates/anstyle/src/effect.rs"))
    bits = {}
    for mm in re.finditer(r"pub const (\w+)\s*:\s*Self\s*=\s*Effects\(([^;]*)\);", src):
        sh = re.fullmatch(r"1\s*<<\s*(\d+)", mm.group(2).strip())
        if not sh or mm.group(1) in bits:
            raise TranslateError("effect.rs: constant %s is not a unique `Effects(1 << k)`" % mm.group(1))
        bits[mm.group(1)] = int(sh.group(1))
    if not bits:
        raise TranslateError("effect.rs: no effect constants found")
    return bits


def register(generators, gm):
    def parse(rel, src):
        try:
            return parse_file(src)
        except (ParseError, LexError) as e:
            raise TranslateError("%s: parse error: %s" % (rel, e))

    def gen():
        try:
            citems = parse("color.rs", gm.read("crates/anstyle/src/color.rs"))
            check_enum(citems, "AnsiColor", [(n, []) for n in ANSI_NAMES])
            check_enum(citems, "Color", [("Ansi", ["AnsiColor"]), ("Ansi256", ["Ansi256Color"]), ("Rgb", ["RgbColor"])])
            bits = effect_bits(gm)
            out = [HEADER, REQ, ""]
            for lib in ("ansi_term", "crossterm", "owo", "termcolor", "yansi"):
                d = LIBS[lib]
                src = read_src(gm, d["src"])
                v = lib_vocab(lib, bits)
                v["inline_sources"] = [anstyle_color_src(gm)]
                check_file(gm, d["src"], src, parse(d["src"], src), v)
                out.append("(* ---- %s ---- *)" % d["src"])
                try:
                    out.append(translate(src, v, [(f, None, g, {}) for f, g in d["targets"]], "", "", {}).strip("\n") + "\n")
                except TranslateError as e:
                    raise TranslateError("%s: %s" % (d["src"], e))
            src = read_src(gm, SYNTECT_SRC)
            v = syntect_vocab(bits)
            check_file(gm, SYNTECT_SRC, src, parse(SYNTECT_SRC, src), v)
            out.append("(* ---- %s ---- *)" % SYNTECT_SRC)
            try:
                out.append(translate(src, v, [(f, None, g, {}) for f, g in SYNTECT_TARGETS], "", "", {}).strip("\n"))
            except TranslateError as e:
                raise TranslateError("%s: %s" % (SYNTECT_SRC, e))
            return "\n".join(out) + "\n"
        except TranslateError as e:
            raise gm.GenError(str(e))
        except KeyError as e:
            raise gm.GenError("function not found: %s" % e)
    generators["AdaptersFn"] = gen
