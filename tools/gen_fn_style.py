#!/usr/bin/env python3
"""Function translator, anstyle values: crates/anstyle/src/{effect.rs,style.rs,color.rs}
-> coq/Generated/StyleFn.v (C13).

TRANSLATED (tools/rs2v) into Gallina over the types of the hand model (Model/Style.v: an Effects is
its u16 as an `N`, a Style the record `style`, a Color the inductive `color`, an AnsiColor the
generated `ansi_color`, an Ansi256Color its index):
  effect.rs  Effects::{new, is_plain, contains, insert, remove, clear, set, iter, index_iter, render},
             impl BitOr / BitOrAssign / Sub / SubAssign for Effects,
             <EffectIter as Iterator>::next, <EffectIndexIter as Iterator>::next,
             <Effects as Debug>::fmt   (the Formatter is the text written so far, see below)
  color.rs   AnsiColor::{bright, is_bright}, Ansi256Color::{index, into_ansi, from_ansi}
  style.rs   Style::{new, fg_color, bg_color, underline_color, effects, bold, dimmed, italic, underline,
             blink, invert, hidden, strikethrough, get_fg_color, get_bg_color, get_underline_color,
             get_effects, is_plain}, impl From<Effects> for Style, impl BitOr<Effects> / BitOrAssign<Effects> /
             Sub<Effects> / SubAssign<Effects> for Style, impl PartialEq<Effects> for Style
Proofs/StyleGen.v proves every translation equal to the hand model the theorems of C13 are about.

The constants `Effects::X` and the table METADATA are data: they stay with tools/gen_model.py
(gen_style -> Generated/Style.v `eff_*`, `metadata`); this plug-in reads the constant NAMES only.

`AnsiColor::bright`, `Ansi256Color::{into_ansi, from_ansi}` are also translated by gen_fn_wincon.py /
gen_fn_lossy.py / gen_fn_render.py, but over the value representations of THOSE hand models (`acolor`,
the ANSI number); C13's hand model is over Generated/Style.v `ansi_color`, and C13 must not depend on the
parser / wincon / lossy developments, so the four small functions are translated here over `ansi_color`
(the plug-in code -- variant list, enum check -- is shared with gen_fn_render.py).

NOT translated: nothing is pinned in this area.  `core::fmt::Formatter` is modelled by the vocabulary
(see m_write): `write!(f, "lit")` / `write!(f, "{}", s)` append to the text written so far and answer
Ok(()) -- a Formatter over an infallible sink, which is what `format!("{:?}", ..)` (the harness) uses."""
import os
import re
import sys

sys.path.insert(0, os.path.dirname(os.path.abspath(__file__)))
from rs2v.driver import translate, TranslateError   # noqa: E402
from rs2v.rparser import N, parse_file, ParseError, parse_macro_args   # noqa: E402
from rs2v.lexer import LexError   # noqa: E402
from gen_fn_render import ANSI_NAMES, check_enum   # noqa: E402

U8, U16, USZ = ("int", "u8"), ("int", "u16"), ("int", "usize")
BYTES = ("list", U8)
EFF, EFFD, STYLE = ("struct", "Effects"), ("struct", "EffectsDisplay"), ("struct", "Style")
ITER, IITER, META = ("struct", "EffectIter"), ("struct", "EffectIndexIter"), ("struct", "Metadata")
COLOR, OCOLOR = ("coq", "color"), ("opt", ("coq", "color"))
ANSI, A256 = ("enum", "AnsiColor"), ("struct", "Ansi256Color")
FMT_RESULT = ("res", ("unit",))


def f_effects_ctor(em, e, env, k):
    """`Effects(x)`: the field is a u16, so rustc types an unsuffixed literal on the left of `<<` as u16
    (the emitter on its own would let the literal adopt the type of the shift amount)"""
    if len(e.args) != 1:
        raise TranslateError("Effects(..): one argument expected")
    a = e.args[0]
    if a.kind == "binary" and a.op == "<<" and a.l.kind == "int" and not a.l.suffix:
        a = N("binary", op="<<", l=N("int", val=a.l.val, suffix="u16"), r=a.r)
    return em.expr(a, env, lambda t, ty, env1: k("(eff_new %s)" % t, EFF, env1), expect=U16)


def f_self_ctor(em, e, env, k):
    """`Self(x)` inside `impl Ansi256Color`"""
    if em.self_struct != "Ansi256Color" or len(e.args) != 1:
        raise TranslateError("Self(..) outside impl Ansi256Color")
    return em.expr(e.args[0], env, lambda t, _ty, env1: k("(a256_of %s)" % t, A256, env1), expect=U8)


def iter_fuel(env):
    return "(S (length metadata))"


def shape(coq, self_mode, params, ret, total=True):
    return {"coq": coq, "self": self_mode, "params": params, "ret": ret, "total": total, "cfg": False}


# -- core::fmt: `f: &mut Formatter` is the text written so far (a byte list, threaded like every `&mut`);
#    write!(f, "literal") and write!(f, "{}", <str>) append and answer Ok(())
def write_parts(e):
    args = parse_macro_args(e.toks)
    if len(args) < 2 or args[0].kind != "path" or len(args[0].segs) != 1 or args[1].kind != "str":
        raise TranslateError("write!: expected write!(<formatter variable>, \"format\", ..)")
    fmt = bytes(args[1].val).decode("utf-8")
    if fmt == "{}" and len(args) == 3:
        return args[0], None, args[2]
    if "{" in fmt or "}" in fmt or len(args) != 2:
        raise TranslateError("write!: format string %r is neither a literal text nor \"{}\"" % fmt)
    return args[0], args[1], None


def m_write(em, e, env, k):
    dest, lit, arg = write_parts(e)
    v = env.get(dest.segs[0])
    if v is None or v.ty != BYTES:
        raise TranslateError("write!: %s is not the formatter" % dest.segs[0])

    def k1(t, ty, env1):
        if ty != BYTES:
            raise TranslateError("write!(f, \"{}\", x): x is not a str (type %r)" % (ty,))
        cur = env1.get(dest.segs[0]).coq
        return em.write_place(dest, "(fmt_write_str %s %s)" % (cur, t), env1, lambda env2: k("(inl tt)", FMT_RESULT, env2))
    return em.expr(lit if lit is not None else arg, env, k1)


def macro_writes(em, x):
    """the variables a macro call assigns (for the loop-state analysis)"""
    if x.name.split("::")[-1] == "write":
        return [write_parts(x)[0].segs[0]]
    return []


def m_index_iter_enumerate(em, e, rt, rty, env, k):
    """`<EffectIndexIter>.enumerate()` in a `for`: the items of the translated `next`, numbered"""
    return em.bind("iter_drain g_eff_index_iter_next %s %s" % (iter_fuel(env), rt), None, env,
                   lambda x, _t, env1: k("(enumerate0 %s)" % x, ("list", ("tuple", (USZ, USZ))), env1), hint="items")


ENUM_ANSI = {"coq": "ansi_color", "var": "a", "eqb": "ansi_eqb", "variants": {n: n for n in ANSI_NAMES}}


def vocab(const_names):
    consts = {"Effects::" + n: ("eff_" + n.lower(), EFF) for n in const_names}
    consts["PLAIN"] = ("effect_plain", EFF)
    consts["METADATA"] = ("metadata", ("list", META))
    return {
        "reserved": ["color", "style", "e", "s", "it", "a", "i", "metadata"],
        "checked_shl": "cshl",
        "loop_ret_state": True,
        "for_ret_state": True,
        "result": {"err": "unit"},
        "enums": {"AnsiColor": ENUM_ANSI, "Self": ENUM_ANSI},
        "structs": {
            "Effects": {"coq": "N", "var": "e", "fields": {"0": ("eff_f0", "set_eff_f0", U16)},
                        "op_assign": {"|=": "Effects::bitor_assign", "-=": "Effects::sub_assign"}},
            "EffectsDisplay": {"coq": "N", "var": "d", "fields": {"0": ("effd_f0", None, EFF)}},
            "EffectIter": {"coq": "eff_iter", "var": "it", "ctor": ("mkEffIter", ["index", "effects"]), "fields": {
                "index": ("ei_index", "set_ei_index", USZ), "effects": ("ei_effects", "set_ei_effects", EFF)}},
            "EffectIndexIter": {"coq": "eff_iter", "var": "it", "ctor": ("mkEffIter", ["index", "effects"]), "fields": {
                "index": ("ei_index", "set_ei_index", USZ), "effects": ("ei_effects", "set_ei_effects", EFF)}},
            "Metadata": {"coq": "(list N * list N)", "var": "md", "fields": {
                "name": ("md_name", None, BYTES), "escape": ("md_escape", None, BYTES)}},
            "Style": {"coq": "style", "var": "s", "eqb": "style_eqb", "ctor": ("mkStyle", ["fg", "bg", "underline", "effects"]), "fields": {
                "fg": ("st_fg", "set_st_fg", OCOLOR), "bg": ("st_bg", "set_st_bg", OCOLOR),
                "underline": ("st_ul", "set_st_ul", OCOLOR), "effects": ("st_eff", "set_st_eff", EFF)}},
            "Ansi256Color": {"coq": "N", "var": "i", "fields": {"0": ("a256_f0", None, U8)}},
        },
        "type_alias": {"Color": COLOR, "str": BYTES, "Formatter": BYTES, "Result": FMT_RESULT},
        "consts": consts,
        "fns": {
            "Effects": f_effects_ctor,
            "EffectsDisplay": shape("effd_new", None, [("in", EFF)], EFFD),
            "Self": f_self_ctor,
        },
        "methods": {("EffectIndexIter", "enumerate"): m_index_iter_enumerate},
        # `for x in <EffectIndexIter>` (no `.enumerate()`): the items of the translated `next`
        "iter_conv": {"EffectIndexIter": ("iter_drain g_eff_index_iter_next (S (length metadata))", True, USZ)},
        "macros": {"write": m_write},
        "macro_writes": macro_writes,
        "fuel": {"EffectIter::next": [iter_fuel], "EffectIndexIter::next": [iter_fuel]},
        "opaque": {},
    }


HEADER = "(* GENERATED by tools/gen_fn_style.py (tools/rs2v) from crates/anstyle/src/{effect.rs,color.rs,style.rs} -- do not edit *)"
REQ = """From Coq Require Import NArith List Bool.
From AV Require Import Generated.Style Model.Base Model.Imp Model.Style.
Import ListNotations.
Local Open Scope N_scope.
Local Open Scope bool_scope."""

CONV = ["bold", "dimmed", "italic", "underline", "blink", "invert", "hidden", "strikethrough"]


def register(generators, gm):
    def gen():
        try:
            eff = gm.read("crates/anstyle/src/effect.rs")
            col = gm.read("crates/anstyle/src/color.rs")
            sty = gm.read("crates/anstyle/src/style.rs")
            try:
                citems = parse_file(col)
            except (ParseError, LexError) as e:
                raise TranslateError("color.rs: parse error: %s" % e)
            check_enum(citems, "AnsiColor", [(n, []) for n in ANSI_NAMES])
            check_enum(citems, "Color", [("Ansi", ["AnsiColor"]), ("Ansi256", ["Ansi256Color"]), ("Rgb", ["RgbColor"])])
            names = re.findall(r"pub const (\w+)\s*:\s*Self\s*=", eff)
            if not names:
                raise TranslateError("effect.rs: no `pub const X: Self` found")
            base = vocab(names)
            shapes = {}
            out = []

            def voc(checked, **extra):
                v = dict(base)
                v["structs"] = {n: dict(s, check=(n in checked)) for n, s in base["structs"].items()}
                v["type_alias"] = dict(base["type_alias"], **extra)
                return v
            out.append(translate(eff, voc(["Effects", "EffectsDisplay", "EffectIter", "EffectIndexIter", "Metadata"], Item=EFF), [
                ("new", "Effects", "g_eff_new", {}),
                ("is_plain", "Effects", "g_eff_is_plain", {}),
                ("contains", "Effects", "g_eff_contains", {}),
                ("insert", "Effects", "g_eff_insert", {}),
                ("remove", "Effects", "g_eff_remove", {}),
                ("clear", "Effects", "g_eff_clear", {}),
                ("set", "Effects", "g_eff_set", {}),
                ("iter", "Effects", "g_eff_iter", {}),
                ("index_iter", "Effects", "g_eff_index_iter", {}),
                ("render", "Effects", "g_eff_render", {}),
                ("bitor", "Effects", "g_eff_bitor", {"trait": "BitOr"}),
                ("bitor_assign", "Effects", "g_eff_bitor_assign", {"trait": "BitOrAssign"}),
                ("sub", "Effects", "g_eff_sub", {"trait": "Sub"}),
                ("sub_assign", "Effects", "g_eff_sub_assign", {"trait": "SubAssign"}),
                ("next", "EffectIter", "g_eff_iter_next", {"trait": "Iterator"}),
            ], HEADER, REQ, shapes))
            out.append(translate(eff, voc([], Item=USZ), [
                ("next", "EffectIndexIter", "g_eff_index_iter_next", {"trait": "Iterator"}),
                ("fmt", "Effects", "g_eff_debug_fmt", {"trait": "Debug"}),
            ], "", "", shapes))
            out.append(translate(col, voc([], Self=ANSI), [
                ("bright", "AnsiColor", "g_ansi_bright", {}),
                ("is_bright", "AnsiColor", "g_ansi_is_bright", {}),
            ], "", "", shapes))
            out.append(translate(col, voc(["Ansi256Color"]), [
                ("index", "Ansi256Color", "g_a256_index", {}),
                ("into_ansi", "Ansi256Color", "g_a256_into_ansi", {}),
                ("from_ansi", "Ansi256Color", "g_a256_from_ansi", {}),
            ], "", "", shapes))
            targets = [("new", "Style", "g_st_new", {})]
            targets += [(f, "Style", "g_st_" + f, {}) for f in ("fg_color", "bg_color", "underline_color", "effects")]
            targets += [(f, "Style", "g_st_" + f, {}) for f in CONV]
            targets += [(f, "Style", "g_st_" + f, {}) for f in ("get_fg_color", "get_bg_color", "get_underline_color", "get_effects", "is_plain")]
            targets += [
                ("from", "Style", "g_st_from_effects", {"trait": "From", "trait_arg": "Effects"}),
                ("bitor", "Style", "g_st_bitor", {"trait": "BitOr"}),
                ("bitor_assign", "Style", "g_st_bitor_assign", {"trait": "BitOrAssign"}),
                ("sub", "Style", "g_st_sub", {"trait": "Sub"}),
                ("sub_assign", "Style", "g_st_sub_assign", {"trait": "SubAssign"}),
                ("eq", "Style", "g_st_eq_effects", {"trait": "PartialEq", "trait_arg": "Effects"}),
            ]
            out.append(translate(sty, voc(["Style"]), targets, "", "", shapes))
            return "\n".join(out) + "\n"
        except TranslateError as e:
            raise gm.GenError(str(e))
    generators["StyleFn"] = gen
