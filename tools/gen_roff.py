"""Translator, roff part (C15):

  crates/anstyle-roff/src/styled_str.rs  (cansi -> anstyle colour table, `create_effects`)
  crates/anstyle-roff/src/lib.rs         (control request names, roff colour names of the 16
                                          colours, the bright-colour test, the literals of
                                          add_color_to_roff / rgb_name / to_hex)
      -> coq/Generated/Roff.v

Hooked into tools/gen_model.py by `register(GENERATORS, <gen_model module>)`.  A shape that
is not recognised raises gm.GenError (reported as GEN-ERROR Roff: a broken tie, never a crash).

cansi itself is a third-party crate (outside /repo): its `Color` / `Intensity` enums are
numbered here by their declaration order in cansi 2.2.1 (CANSI_COLORS / CANSI_INTENSITY below);
the hand model of cansi in coq/Model/Roff.v uses the same numbering and is tied by the
correspondence runs.
"""
import re

# cansi 2.2.1 src/lib.rs: `pub enum Color { .. }`, `pub enum Intensity { .. }` in declaration order
CANSI_COLORS = ["Black", "Red", "Green", "Yellow", "Blue", "Magenta", "Cyan", "White",
                "BrightBlack", "BrightRed", "BrightGreen", "BrightYellow", "BrightBlue", "BrightMagenta", "BrightCyan", "BrightWhite"]
CANSI_INTENSITY = ["Normal", "Bold", "Faint"]
# the Option<bool> fields of cansi::v3::CategorisedSlice
CANSI_FLAGS = {"italic": "RfSrcItalic", "underline": "RfSrcUnderline", "blink": "RfSrcBlink", "reversed": "RfSrcReversed",
               "hidden": "RfSrcHidden", "strikethrough": "RfSrcStrikethrough"}


def register(generators, gm):
    GenError = gm.GenError

    def squash(s):
        return re.sub(r"\s+", "", s)

    def effect_bits():
        src = gm.strip_comments(gm.read("crates/anstyle/src/effect.rs"))
        bits = {}
        for name, sh in re.findall(r"pub const (\w+)\s*:\s*Self\s*=\s*Effects\(1 << (\d+)\);", src):
            bits[name] = int(sh)
        if len(bits) != 12 or sorted(bits.values()) != list(range(12)):
            raise GenError("effect.rs: expected 12 effect constants `Effects(1 << i)`, i = 0..11; found %r" % bits)
        return bits

    def ansi_colors():
        src = gm.strip_comments(gm.read("crates/anstyle/src/color.rs"))
        m = re.search(r"pub enum AnsiColor\s*\{(.*?)\}", src, re.S)
        if not m:
            raise GenError("color.rs: enum AnsiColor not found")
        names = [p.strip() for p in re.sub(r"#\[[^\]]*\]", "", m.group(1)).split(",") if p.strip()]
        if len(names) != 16 or not all(re.fullmatch(r"\w+", n) for n in names):
            raise GenError("color.rs: AnsiColor is not 16 plain variants: %r" % names)
        return {n: i for i, n in enumerate(names)}

    def non_test(src):
        m = re.search(r"#\[cfg\(test\)\]", src)
        return src[:m.start()] if m else src

    def ascii_lit(body, what):
        bs = gm.rust_str_bytes(body)
        if not bs or any(b >= 128 or b <= 32 for b in bs):
            raise GenError("%s: expected a non-empty printable ASCII literal without spaces, found %r" % (what, body))
        return list(bs)

    def fn_takes_over(why):
        """A check of this translator that looks at the SHAPE of a body (or at how the imports are written) and reads no data
        off it is not an alarm by itself: every function of the two files is TRANSLATED by tools/gen_fn_roff.py (`RoffFn`, which
        compares the imports name by name) and proved equal to the hand model (Proofs/RoffGen.v; C15 names both generators).
        The pin falls back on "RoffFn still translates the crate"; what the code does is then the business of those proofs."""
        gm.takes_over("RoffFn", why)

    def bright_by_evaluation(src, ansi, why):
        """is_bright's list of bright variants is DATA (rf_bright_tab).  When the function is no longer the `if let` + `matches!`
        text and RoffFn still translates the crate, the table is the graph of the function over Color::Ansi(<the 16 constants>),
        computed by evaluating it (tools/rs_eval.py).  Sound whatever is computed: Proofs/RoffGen.v proves the translated
        is_bright equal to the hand model over this table."""
        fn_takes_over(why)
        import rs_eval
        order = sorted(ansi, key=lambda n: ansi[n])
        try:
            rows = rs_eval.graph(src, "is_bright", "anstyle::AnsiColor", gm.read("crates/anstyle/src/color.rs"), order, "lib.rs",
                                 wrap=("anstyle::Color::Ansi",))
        except rs_eval.EvalError as e:
            raise GenError("%s (and the table cannot be computed from the function: %s)" % (why, e))
        if any(t not in ("true", "false") for _v, t in rows):
            raise GenError("is_bright: not a bool")
        return [v for v, t in rows if t == "true"]

    def cansi_table_text(body, ansi):
        """the 16 arms + `None => None` read off the text `match color { Some(Color::X) => Some(AColor::Ansi(AnsiColor::Y)), .. }`:
        (table, None), or (None, why) when the body is not that text"""
        mm = re.fullmatch(r"matchcolor\{(.*)\}", squash(body))
        if not mm:
            return None, "cansi_to_anstyle_color: not a single `match color`"
        tab = {}
        saw_none = False
        for arm in [a for a in mm.group(1).split(",") if a]:
            m = re.fullmatch(r"Some\(Color::(\w+)\)=>Some\(AColor::Ansi\(AnsiColor::(\w+)\)\)", arm)
            if m:
                if m.group(1) not in CANSI_COLORS or m.group(2) not in ansi:
                    raise GenError("cansi_to_anstyle_color: unknown colour in arm %r" % arm)
                if m.group(1) in tab:
                    raise GenError("cansi_to_anstyle_color: duplicate arm %r" % arm)
                tab[m.group(1)] = ansi[m.group(2)]
            elif arm == "None=>None":
                saw_none = True
            else:
                return None, "cansi_to_anstyle_color: arm not recognised: %r" % arm
        if set(tab) != set(CANSI_COLORS) or not saw_none:
            return None, "cansi_to_anstyle_color: arms do not cover the 16 cansi colours and None"
        return tab, None

    def cansi_table_by_evaluation(src, ansi, why):
        """The 16 pairs (cansi colour, AnsiColor) are DATA of the hand model (rf_cansi_color_tab).  When the function is no longer
        the 17-arm text (`color?`, an enum-to-enum match wrapped once, `color.map(..)`, a helper, or-patterns ..) and RoffFn still
        translates the crate, the table is the graph of the function over Some(cansi::Color::<the 16 constants>) and None, computed
        by evaluating it (tools/rs_eval.py; cansi's enum is third party: its variants are CANSI_COLORS).  Every value must still
        have the form of an arm: `Some(anstyle::Color::Ansi(anstyle::AnsiColor::Y))`, and None must go to None.  Sound whatever
        is computed: Proofs/RoffGen.v proves the translated function equal to the hand model over this table."""
        fn_takes_over(why)
        import rs_eval
        enum_src = "pub enum Color { %s }" % ", ".join(CANSI_COLORS)
        try:
            rows = rs_eval.graph(src, "cansi_to_anstyle_color", "cansi::Color", enum_src, CANSI_COLORS, "styled_str.rs",
                                 wrap=("Some",), extra=(("None", ("ctor", "None", [])),))
        except rs_eval.EvalError as e:
            raise GenError("%s (and the table cannot be computed from the function: %s)" % (why, e))
        tab = {}
        for v, t in rows:
            if v == "None":
                if t != "None":
                    raise GenError("cansi_to_anstyle_color: None is taken to %s" % t)
                continue
            m = re.fullmatch(r"Some\(anstyle::Color::Ansi\(anstyle::AnsiColor::(\w+)\)\)", t)
            if not m or m.group(1) not in ansi:
                raise GenError("cansi_to_anstyle_color: Some(Color::%s) is taken to %s: not a 16-colour value" % (v, t))
            tab[v] = ansi[m.group(1)]
        if set(tab) != set(CANSI_COLORS):
            raise GenError("cansi_to_anstyle_color: the 16 cansi colours are not covered")
        return tab

    def gen_roff():
        ansi = ansi_colors()
        bits = effect_bits()

        # ------------------------------------------------------------ styled_str.rs
        rel_s = "crates/anstyle-roff/src/styled_str.rs"
        ss = non_test(gm.strip_comments(gm.read(rel_s)))
        sq = squash(ss)
        if "useanstyle::{AnsiColor,ColorasAColor,Effects,Style};" not in sq:
            raise GenError("styled_str.rs: `use anstyle::{AnsiColor, Color as AColor, Effects, Style};` not found")
        if "usecansi::{v3::CategorisedSlice,Color,Intensity};" not in sq:
            raise GenError("styled_str.rs: `use cansi::{v3::CategorisedSlice, Color, Intensity};` not found")
        if "letcategorized=cansi::v3::categorise_text(text);categorized.into_iter().map(|x|x.into())" not in sq:
            raise GenError("styled_str.rs: styled_stream is not `cansi::v3::categorise_text(text)` mapped through `into`")
        if not re.search(r"letmutstyle=Style::new\(\);style=style\.fg_color\(cansi_to_anstyle_color\(category\.fg\)\)"
                         r"\.bg_color\(cansi_to_anstyle_color\(category\.bg\)\);leteffects=create_effects\(&category\);"
                         r"style=style\.effects\(effects\);Self\{text:category\.text,style,?\}", sq):
            raise GenError("styled_str.rs: From<CategorisedSlice> body not recognised")
        # colour table
        tab, why = cansi_table_text(gm.fn_body(ss, "cansi_to_anstyle_color"), ansi)
        if tab is None:
            tab = cansi_table_by_evaluation(ss, ansi, why)
        # effects
        if squash(gm.fn_body(ss, "is_bold")) != "matches!(intensity,Some(Intensity::Bold))":
            raise GenError("is_bold: body not recognised")
        if squash(gm.fn_body(ss, "is_faint")) != "matches!(intensity,Some(Intensity::Faint))":
            raise GenError("is_faint: body not recognised")
        ce = squash(gm.fn_body(ss, "create_effects"))
        if not ce.startswith("Effects::new()"):
            raise GenError("create_effects: does not start from Effects::new()")
        rest = ce[len("Effects::new()"):]
        sources = []
        while rest:
            m = re.match(r"\.set\(Effects::(\w+),(?:category\.(\w+)\.unwrap_or\(false\)|(is_bold|is_faint)\(category\.intensity\)),?\)", rest)
            if not m:
                raise GenError("create_effects: `.set(..)` link not recognised near %r" % rest[:60])
            eff, field, pred = m.group(1), m.group(2), m.group(3)
            if eff not in bits:
                raise GenError("create_effects: unknown effect %s" % eff)
            if field is not None:
                if field not in CANSI_FLAGS:
                    raise GenError("create_effects: unknown CategorisedSlice field %s" % field)
                sources.append((bits[eff], CANSI_FLAGS[field]))
            else:
                sources.append((bits[eff], "RfSrcIntensity %d" % CANSI_INTENSITY.index("Bold" if pred == "is_bold" else "Faint")))
            rest = rest[m.end():]
        if len(set(b for b, _ in sources)) != len(sources) or not sources:
            raise GenError("create_effects: an effect is set twice (or none)")

        # ------------------------------------------------------------------ lib.rs
        rel_l = "crates/anstyle-roff/src/lib.rs"
        ls = non_test(gm.strip_comments(gm.read(rel_l)))
        lq = squash(ls)
        consts = dict(re.findall(r'pub\(crate\)\s+const\s+(\w+)\s*:\s*&str\s*=\s*"([^"\\]*)";', ls))
        for k in ("CREATE_COLOR", "BACKGROUND", "FOREGROUND"):
            if k not in consts:
                raise GenError("lib.rs: control_requests::%s not found" % k)
        req = {k: ascii_lit(v, "control_requests::" + k) for k, v in consts.items()}
        if "useanstyle::{Ansi256Color,AnsiColor,Color,RgbColor,Style};" not in lq or "useroff::{bold,italic,Roff};" not in lq:
            fn_takes_over("lib.rs: use lines not recognised")
        if not re.search(r"forstyledinstyled_str::styled_stream\(styled_text\)\{set_color\(\(&styled\.style\.get_fg_color\(\),&styled\.style\.get_bg_color\(\)\),?&mutdoc,?\);"
                         r"set_effects_and_text\(&styled,&mutdoc\);\}", lq):
            fn_takes_over("to_roff: loop body not recognised")
        if squash(gm.fn_body(ls, "set_color")) != ("add_color_to_roff(doc,control_requests::FOREGROUND,colors.0);"
                                                   "add_color_to_roff(doc,control_requests::BACKGROUND,colors.1);"):
            fn_takes_over("set_color: body not recognised")
        # add_color_to_roff: the literals of its four arms
        ac = squash(gm.fn_body(ls, "add_color_to_roff"))
        m = re.search(r'Some\(Color::Rgb\(c\)\)=>\{letname=rgb_name\(c\);doc\.control\(control_requests::CREATE_COLOR,vec!\[name\.as_str\(\),"([^"\\]*)",to_hex\(c\)\.as_str\(\)\],?\)'
                      r'\.control\(control_request,vec!\[name\.as_str\(\)\]\);\}', ac)
        if not m:
            raise GenError("add_color_to_roff: Rgb arm not recognised")
        rgb_word = ascii_lit(m.group(1), "add_color_to_roff rgb word")
        if "Some(Color::Ansi(c))=>{doc.control(control_request,vec![ansi_color_to_roff(c)]);}" not in ac:
            raise GenError("add_color_to_roff: Ansi arm not recognised")
        if "Some(Color::Ansi256(c))=>{add_color_to_roff(doc,control_request,&Some(xterm_to_ansi_or_rgb(*c)));}" not in ac:
            raise GenError("add_color_to_roff: Ansi256 arm not recognised")
        m = re.search(r'None=>\{doc\.control\(control_request,vec!\["([^"\\]*)"\]\);\}', ac)
        if not m:
            raise GenError("add_color_to_roff: None arm not recognised")
        default_name = ascii_lit(m.group(1), "add_color_to_roff default name")
        if squash(gm.fn_body(ls, "xterm_to_ansi_or_rgb")) != ("matchcolor.into_ansi(){Some(ansi_color)=>Color::Ansi(ansi_color),"
                                                              "None=>Color::Rgb(anstyle_lossy::xterm_to_rgb(color,Palette::default())),}"):
            raise GenError("xterm_to_ansi_or_rgb: body not recognised")
        m = re.fullmatch(r'format!\("([^"\\{}]*)\{\}",to_hex\(c\)\.as_str\(\)\)', squash(gm.fn_body(ls, "rgb_name")))
        if not m:
            raise GenError("rgb_name: body not recognised")
        name_prefix = ascii_lit(m.group(1), "rgb_name prefix")
        m = re.fullmatch(r'letval:usize=\(\(rgb\.0asusize\)<<16\)\+\(\(rgb\.1asusize\)<<8\)\+\(rgb\.2asusize\);format!\("([^"\\{}]*)\{val:0(\d)x\}"\)',
                         squash(gm.fn_body(ls, "to_hex")))
        if not m:
            raise GenError("to_hex: body not recognised")
        hex_prefix = ascii_lit(m.group(1), "to_hex prefix")
        hex_width = int(m.group(2))
        # colour names
        body = squash(gm.fn_body(ls, "ansi_color_to_roff"))
        mm = re.fullmatch(r"matchcolor\{(.*)\}", body)
        if not mm:
            raise GenError("ansi_color_to_roff: not a single `match color`")
        names = {}
        for arm in [a for a in mm.group(1).split(",") if a]:
            m = re.fullmatch(r'((?:AnsiColor::\w+\|?)+)=>"([^"\\]*)"', arm)
            if not m:
                raise GenError("ansi_color_to_roff: arm not recognised: %r" % arm)
            lit = ascii_lit(m.group(2), "ansi_color_to_roff name")
            for v in re.findall(r"AnsiColor::(\w+)", m.group(1)):
                if v not in ansi or v in names:
                    raise GenError("ansi_color_to_roff: unknown or duplicate variant %s" % v)
                names[v] = lit
        if set(names) != set(ansi):
            raise GenError("ansi_color_to_roff: arms do not cover AnsiColor")
        # bright test
        ib = squash(gm.fn_body(ls, "is_bright"))
        m = re.fullmatch(r"ifletColor::Ansi\(color\)=fg_color\{matches!\(color,((?:\|?AnsiColor::\w+)+)\)\}else\{false\}", ib)
        if not m:
            bright = bright_by_evaluation(ls, ansi, "is_bright: body not recognised")
        else:
            bright = re.findall(r"AnsiColor::(\w+)", m.group(1))
        if any(b not in ansi for b in bright) or len(set(bright)) != len(bright):
            raise GenError("is_bright: unknown or duplicate variant in %r" % bright)
        if squash(gm.fn_body(ls, "has_bright_fg")) != "style.get_fg_color().as_ref().map(is_bright).unwrap_or(false)":
            fn_takes_over("has_bright_fg: body not recognised")
        # font selection chain (shape only; the algorithm is modelled by hand)
        se = squash(gm.fn_body(ls, "set_effects_and_text"))
        if not re.fullmatch(r"leteffects=styled\.style\.get_effects\(\);ifeffects\.contains\(anstyle::Effects::BOLD\)\|has_bright_fg\(&styled\.style\)"
                            r"\{doc\.text\(vec!\[bold\(styled\.text\)\]\);\}elseifeffects\.contains\(anstyle::Effects::ITALIC\)"
                            r"\{doc\.text\(vec!\[italic\(styled\.text\)\]\);\}else\{doc\.text\(vec!\[roff::roman\(styled\.text\)\]\);\}", se):
            fn_takes_over("set_effects_and_text: if-chain not recognised")

        order = sorted(ansi, key=lambda n: ansi[n])
        o = [gm.HEADER % (rel_l + ", " + rel_s) +
             "(* plus crates/anstyle/src/{effect.rs,color.rs} for the effect bit numbers and the AnsiColor order.\n"
             "   cansi::Color / cansi::Intensity are numbered by declaration order in cansi 2.2.1 (third party). *)\n"]
        o.append("From Coq Require Import NArith List Bool.\nImport ListNotations.\nLocal Open Scope N_scope.\n")
        o.append("(* control_requests::{CREATE_COLOR, FOREGROUND, BACKGROUND}; set_color uses FOREGROUND with the\n"
                 "   foreground colour (colors.0) and BACKGROUND with the background colour (colors.1) *)")
        o.append("Definition rf_req_defcolor : list N := %s.   (* %s *)" % (gm.coq_bytes(req["CREATE_COLOR"]), consts["CREATE_COLOR"]))
        o.append("Definition rf_req_fg : list N := %s.   (* %s *)" % (gm.coq_bytes(req["FOREGROUND"]), consts["FOREGROUND"]))
        o.append("Definition rf_req_bg : list N := %s.   (* %s *)\n" % (gm.coq_bytes(req["BACKGROUND"]), consts["BACKGROUND"]))
        o.append("(* literals of add_color_to_roff, rgb_name (format!(\"<prefix>{}\")) and to_hex (format!(\"<prefix>{val:0<w>x}\")) *)")
        o.append("Definition rf_default_name : list N := %s." % gm.coq_bytes(default_name))
        o.append("Definition rf_rgb_word : list N := %s." % gm.coq_bytes(rgb_word))
        o.append("Definition rf_rgb_name_prefix : list N := %s." % gm.coq_bytes(name_prefix))
        o.append("Definition rf_hex_prefix : list N := %s." % gm.coq_bytes(hex_prefix))
        o.append("Definition rf_hex_width : nat := %d.\n" % hex_width)
        o.append("(* ansi_color_to_roff, indexed by AnsiColor in declaration order *)")
        o.append("Definition rf_color_names : list (list N) :=\n  [ " + ";\n    ".join(
            "%s (* %s => %s *)" % (gm.coq_bytes(names[n]), n, bytes(names[n]).decode()) for n in order) + " ].\n")
        o.append("(* is_bright's matches! list, indexed by AnsiColor *)")
        o.append("Definition rf_bright_tab : list bool := [%s].\n" % "; ".join("true" if n in bright else "false" for n in order))
        o.append("(* cansi_to_anstyle_color: (cansi::Color number, AnsiColor number); None => None *)")
        o.append("Definition rf_cansi_color_tab : list (N * N) := [%s].\n" % "; ".join("(%d, %d)" % (CANSI_COLORS.index(c), tab[c]) for c in CANSI_COLORS))
        o.append("(* create_effects: Effects::new().set(Effects::<bit>, <source>)... in source order.  A flag source is\n"
                 "   `category.<field>.unwrap_or(false)`; RfSrcIntensity k is `matches!(category.intensity, Some(<Intensity #k>))`\n"
                 "   (cansi::Intensity: Normal = 0, Bold = 1, Faint = 2) *)")
        o.append("Inductive rf_source : Set :=\n  | RfSrcItalic | RfSrcUnderline | RfSrcBlink | RfSrcReversed | RfSrcHidden | RfSrcStrikethrough\n  | RfSrcIntensity (k : N).\n")
        o.append("Definition rf_effect_sources : list (N * rf_source) := [%s].\n" % "; ".join("(%d, %s)" % s for s in sources))
        return "\n".join(o)

    generators["Roff"] = gen_roff
