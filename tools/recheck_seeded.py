#!/usr/bin/env python3
"""tools/recheck_seeded.py <seed id glob> [<property id> ...]

Re-runs the registered quick checks against already CONFIRMED seeded changes (seeded/<id>/patch.diff):
applies the patch to /repo, runs ./check for the seed's property (and the others given), undoes the patch
straight afterwards and records the outcome in seeded/<id>/meta.json under "checks_rerun"."""
import fnmatch
import json
import os
import subprocess
import sys
import time

VERIF = os.path.dirname(os.path.dirname(os.path.abspath(__file__)))
sys.path.insert(0, os.path.join(VERIF, "tools"))


def sh(cmd, cwd=None, timeout=3600):
    p = subprocess.run(cmd, cwd=cwd, shell=True, stdout=subprocess.PIPE, stderr=subprocess.STDOUT, timeout=timeout)
    return p.returncode, p.stdout.decode("utf-8", "replace")


def in_place(d, sid, props):
        rc, o = sh("git -C /repo apply %s" % os.path.join(d, "patch.diff"))
        if rc != 0:
            print(sid, "patch does not apply:", o[-300:])
            sh("git -C /repo checkout -- .")
            return None
        res = {}
        try:
            for pid in props:
                t0 = time.time()
                rc, o = sh("./check %s --tier quick" % pid, cwd=VERIF)
                viol = [l for l in o.split("\n") if l.startswith("VIOLATION")]
                broken = [l.strip() for l in o.split("\n") if l.strip().startswith("broken:")]
                res[pid] = {"exit": rc, "detected": rc == 1 and bool(viol), "with_failing_input": bool(viol) and "no-failing-input-found" not in viol[0],
                            "broken": broken, "wall_s": round(time.time() - t0, 1)}
                for l in viol:
                    rel = l.split("replay=")[1].split()[0]
                    src = os.path.join(VERIF, rel)
                    if os.path.exists(src):
                        os.replace(src, os.path.join(d, "replay_%s.json" % pid))
        finally:
            sh("git -C /repo checkout -- .")
        return res


def main():
    pat = sys.argv[1]
    extra = sys.argv[2:]
    if not os.environ.get("SEED_ISOLATED"):
        rc, o = sh("git -C /repo status --porcelain")
        assert o.strip() == "", "/repo is not clean: " + o
    for sid in sorted(os.listdir(os.path.join(VERIF, "seeded"))):
        if not fnmatch.fnmatch(sid, pat):
            continue
        d = os.path.join(VERIF, "seeded", sid)
        meta = json.load(open(os.path.join(d, "meta.json")))
        props = [meta["property"]] + [p for p in extra if p != meta["property"]]
        if os.environ.get("SEED_ISOLATED"):
            import try_seeded
            res = {}
            try_seeded.check_isolated(res, props, os.path.join(d, "patch.diff"), sid)
            for r in res.values():
                r.pop("tail", None)
                r.pop("violation_lines", None)
        else:
            res = in_place(d, sid, props)
            if res is None:
                continue
        meta["checks_rerun"] = res
        json.dump(meta, open(os.path.join(d, "meta.json"), "w"), indent=1)
        print(sid, {p: ("input" if r["with_failing_input"] else "tie" if r["detected"] else "MISSED", [b.split(":")[1].strip() for b in r["broken"]]) for p, r in res.items()})
        sys.stdout.flush()
    if not os.environ.get("SEED_ISOLATED"):
        sh("git checkout -- evidence", cwd=VERIF)
        rc, o = sh("git -C /repo status --porcelain")
        assert o.strip() == "", "/repo not restored: " + o


if __name__ == "__main__":
    main()
