"""Translator, colour auto-detection part (C09)  ->  coq/Generated/Choice.v

  crates/anstyle-query/src/lib.rs      the environment-variable NAME every probe reads and the
                                       literal strings it compares with (the non-Windows blocks
                                       of term_supports_color / term_supports_ansi_color)
  crates/colorchoice/src/lib.rs        enum ColorChoice, the arms of AtomicChoice::from_choice /
                                       to_choice, the initial value of the global
  crates/colorchoice-clap/src/lib.rs   the arms of Color::as_choice
  crates/anstream/src/stream.rs        the IsTerminal impls, classified: constant `false`,
                                       is_terminal_polyfill (isatty of the descriptor), forwarding

This generator writes the DATA the hand model (coq/Model/Choice.v) is parametrised by.  The
LOGIC of the probes, of the plumbing around the global atomic, of Color::write_global and the
if/else chain of anstream::auto::choice is tied by the function translator
(tools/gen_fn_choice.py -> Generated/ChoiceFn.v; Proofs/ChoiceGen.v proves every translated
body equal to the hand model over these constants), which replaced the whole-body regex pins
this file used to carry for them.  Still shape-checked here: the #[cfg] split of
term_supports_color, the arm tables of from_choice / to_choice / as_choice, the IsTerminal impls.

Hooked into tools/gen_model.py through `register`.
"""
import re

CHOICES = ["Auto", "AlwaysAnsi", "Always", "Never"]      # constructors Ch<Name> of Spec/Choice.v
FLAGS = ["Auto", "Always", "Never"]                      # constructors Fl<Name> of Spec/Choice.v


def register(generators, gm):
    GenError = gm.GenError

    def squash(s):
        return re.sub(r"\s+", "", s)

    def block_at(src, i, what):
        """src[i] == '{' -> (text between the matching braces, index after the closing brace)"""
        if i >= len(src) or src[i] != "{":
            raise GenError("%s: `{` expected" % what)
        depth = 0
        j = i
        in_str = False
        while j < len(src):
            c = src[j]
            if in_str:
                if c == "\\":
                    j += 1
                elif c == '"':
                    in_str = False
            elif c == '"':
                in_str = True
            elif c == "{":
                depth += 1
            elif c == "}":
                depth -= 1
                if depth == 0:
                    return src[i + 1:j], j + 1
            j += 1
        raise GenError("%s: unbalanced braces" % what)

    def fn_body(src, header_re, what):
        """squashed body of the single function whose header matches (the header
        regex must end just before the opening brace)"""
        ms = list(re.finditer(header_re, src))
        if len(ms) != 1:
            raise GenError("%s: expected exactly one definition, found %d" % (what, len(ms)))
        i = ms[0].end()
        while i < len(src) and src[i] in " \t\r\n":
            i += 1
        body, _ = block_at(src, i, what)
        return squash(body)

    def lit(s, what):
        bs = gm.rust_str_bytes(s)
        if not bs and what.startswith("name"):
            raise GenError("%s: empty string" % what)
        if any(b >= 128 or b == 0 for b in bs):
            raise GenError("%s: non-ASCII or NUL in %r" % (what, s))
        return list(bs)

    def coq_bytes_def(name, bs, comment):
        return "Definition %s : list N := %s.   (* %s *)" % (name, gm.coq_bytes(bs), comment)

    STR = r'"((?:[^"\\]|\\.)*)"'

    def cfg_split(body, what):
        """`#[cfg(not(windows))]{A}#[cfg(windows)]{B}` -> (A, B), both squashed"""
        m = re.match(r"#\[cfg\(not\(windows\)\)\]", body)
        if not m:
            raise GenError("%s: `#[cfg(not(windows))]` block not found first" % what)
        a, j = block_at(body, m.end(), what)
        m2 = re.match(r"#\[cfg\(windows\)\]", body[j:])
        if not m2:
            raise GenError("%s: `#[cfg(windows)]` block not found second" % what)
        b, k = block_at(body, j + m2.end(), what)
        if body[k:] != "":
            raise GenError("%s: tokens after the two cfg blocks: %r" % (what, body[k:][:60]))
        return a, b

    # ------------------------------------------------------------------ probes
    # The LOGIC of every probe is tied by translation (tools/gen_fn_choice.py -> Generated/ChoiceFn.v,
    # Proofs/ChoiceGen.v: each translated body equals the hand model over these very constants), so the
    # bodies are no longer shape-pinned here; what is read off is only the data the hand model is
    # parametrised by: the variable NAME a probe passes to std::env::var_os and the string literals it
    # compares the value with.
    def var_name(body, what):
        names = set(re.findall(r"std::env::var_os\(%s\)" % STR, body))
        if len(names) != 1:
            raise GenError("%s: expected exactly one variable name passed to std::env::var_os, found %r" % (what, sorted(names)))
        return lit(names.pop(), "name in " + what)

    def cmp_lits(body, what):
        lits = [m[1] for m in re.findall(r"(==|!=)%s" % STR, body)]
        if not lits:
            raise GenError("%s: no comparison with a string literal found" % what)
        return [lit(x, "literal in " + what) for x in lits]

    def one(l, what):
        if len(l) != 1:
            raise GenError("%s: expected exactly one string literal compared with, found %d" % (what, len(l)))
        return l[0]

    def probes():
        rel = "crates/anstyle-query/src/lib.rs"
        src = gm.strip_comments(gm.read(rel))
        tm = re.search(r"#\[cfg\(test\)\]", src)
        if tm:
            src = src[:tm.start()]
        out = {}
        b = fn_body(src, r"pub fn clicolor\(\)\s*->\s*Option<bool>", "clicolor")
        out["clicolor"] = (var_name(b, "clicolor"), one(cmp_lits(b, "clicolor"), "clicolor"))
        for fn in ("clicolor_force", "no_color"):
            b = fn_body(src, r"pub fn %s\(\)\s*->\s*bool" % fn, fn)
            out[fn] = var_name(b, fn)
        b = fn_body(src, r"pub fn term_supports_color\(\)\s*->\s*bool", "term_supports_color")
        unix, _win = cfg_split(b, "term_supports_color")
        out["term"] = (var_name(unix, "term_supports_color (non-Windows block)"),
                       one(cmp_lits(unix, "term_supports_color (non-Windows block)"), "term_supports_color (non-Windows block)"))
        b = fn_body(src, r"pub fn truecolor\(\)\s*->\s*bool", "truecolor")
        out["truecolor"] = (var_name(b, "truecolor"), cmp_lits(b, "truecolor"))
        b = fn_body(src, r"pub fn is_ci\(\)\s*->\s*bool", "is_ci")
        out["is_ci"] = var_name(b, "is_ci")
        return rel, out

    # ------------------------------------------------------------- colorchoice
    def arms_of(body, what):
        """`match x { a => b, ... }` (squashed, flat arms) -> [(a, b)]"""
        m = re.fullmatch(r"match\w+(?:\.\w+)?\{(.*)\}", body)
        if not m:
            raise GenError("%s: body is not a single match: %r" % (what, body[:120]))
        arms = []
        for part in m.group(1).split(","):
            if not part:
                continue
            if part.count("=>") != 1:
                raise GenError("%s: unrecognised arm %r" % (what, part))
            a, b = part.split("=>")
            arms.append((a, b))
        return arms

    def colorchoice():
        rel = "crates/colorchoice/src/lib.rs"
        src = gm.strip_comments(gm.read(rel))
        tm = re.search(r"#\[cfg\(test\)\]\s*mod", src)
        if tm:
            src = src[:tm.start()]
        m = re.search(r"pub enum ColorChoice\s*\{(.*?)\}", src, re.S)
        if not m:
            raise GenError("enum ColorChoice not found")
        variants = [p.strip() for p in re.sub(r"#\[[^\]]*\]", "", m.group(1)).split(",") if p.strip()]
        if sorted(variants) != sorted(CHOICES):
            raise GenError("enum ColorChoice has variants %r; Spec/Choice.v speaks about %r" % (variants, CHOICES))
        b = fn_body(src, r"const fn from_choice\(choice:\s*ColorChoice\)\s*->\s*usize", "from_choice")
        from_arms = {}
        for a, v in arms_of(b, "from_choice"):
            mm = re.fullmatch(r"ColorChoice::(\w+)", a)
            if not mm or mm.group(1) not in CHOICES or mm.group(1) in from_arms:
                raise GenError("from_choice: unrecognised or duplicate pattern %r" % a)
            try:
                from_arms[mm.group(1)] = gm.rust_int(v)
            except ValueError:
                raise GenError("from_choice: arm value is not an integer literal: %r" % v)
        if sorted(from_arms) != sorted(CHOICES):
            raise GenError("from_choice: arms %r do not cover ColorChoice" % sorted(from_arms))
        b = fn_body(src, r"const fn to_choice\(choice:\s*usize\)\s*->\s*Option<ColorChoice>", "to_choice")
        to_arms = []
        wildcard = False
        for a, v in arms_of(b, "to_choice"):
            if wildcard:
                raise GenError("to_choice: arm after the wildcard")
            if a == "_":
                if v != "None":
                    raise GenError("to_choice: wildcard arm is not None: %r" % v)
                wildcard = True
                continue
            mm = re.fullmatch(r"Some\(ColorChoice::(\w+)\)", v)
            if not mm or mm.group(1) not in CHOICES:
                raise GenError("to_choice: unrecognised arm value %r" % v)
            try:
                k = gm.rust_int(a)
            except ValueError:
                raise GenError("to_choice: pattern is not an integer literal: %r" % a)
            if k in [x for x, _ in to_arms]:
                raise GenError("to_choice: duplicate pattern %d" % k)
            to_arms.append((k, mm.group(1)))
        if not wildcard:
            raise GenError("to_choice: no wildcard arm")
        # the plumbing between the public functions and the atomic (AtomicChoice::new / get / set, `static USER`,
        # ColorChoice::global / write_global) is TRANSLATED (tools/gen_fn_choice.py); read off here is only the
        # initial value, which the hand model is parametrised by
        b = fn_body(src, r"pub\(crate\) const fn new\(\)\s*->\s*Self", "AtomicChoice::new")
        inits = re.findall(r"from_choice\(ColorChoice::(\w+)\)", b)
        if len(inits) != 1 or inits[0] not in CHOICES:
            raise GenError("AtomicChoice::new: expected one `from_choice(ColorChoice::X)`, found %r" % inits)
        initial = inits[0]
        return rel, from_arms, to_arms, initial

    # -------------------------------------------------------- colorchoice-clap
    def clap_flag():
        rel = "crates/colorchoice-clap/src/lib.rs"
        src = gm.strip_comments(gm.read(rel))
        tm = re.search(r"#\[cfg\(test\)\]\s*mod", src)
        if tm:
            src = src[:tm.start()]
        if not re.search(r"pub use clap::ColorChoice;", src):
            raise GenError("`pub use clap::ColorChoice;` not found (the flag type)")
        if not re.search(r"pub color:\s*ColorChoice,", src):
            raise GenError("field `pub color: ColorChoice` not found")
        b = fn_body(src, r"pub fn as_choice\(&self\)\s*->\s*colorchoice::ColorChoice", "as_choice")
        if not b.startswith("matchself.color{"):
            raise GenError("as_choice: not a match on self.color")
        arms = {}
        for a, v in arms_of(b, "as_choice"):
            ma = re.fullmatch(r"ColorChoice::(\w+)", a)
            mv = re.fullmatch(r"colorchoice::ColorChoice::(\w+)", v)
            if not ma or not mv or ma.group(1) in arms:
                raise GenError("as_choice: unrecognised or duplicate arm %r => %r" % (a, v))
            if ma.group(1) not in FLAGS:
                raise GenError("as_choice: flag value %s is outside {auto, always, never}" % ma.group(1))
            if mv.group(1) not in CHOICES:
                raise GenError("as_choice: unknown choice %s" % mv.group(1))
            arms[ma.group(1)] = mv.group(1)
        if sorted(arms) != sorted(FLAGS):
            raise GenError("as_choice: arms %r do not cover the three flag values" % sorted(arms))
        # Color::write_global is translated (tools/gen_fn_choice.py)
        return rel, arms

    # ------------------------------------------------------------ IsTerminal
    def is_terminal_impls():
        rel = "crates/anstream/src/stream.rs"
        src = gm.strip_comments(gm.read(rel))
        const_false, polyfill, forward = [], [], []
        for m in re.finditer(r"((?:#\[[^\]]*\]\s*)*)impl\s*(<[^>]*>)?\s*IsTerminal\s+for\s+([^{]+?)\s*\{", src):
            attrs, generics, ty = m.group(1), m.group(2), re.sub(r"\s+", " ", m.group(3).strip())
            for a in re.findall(r"#\[([^\]]*)\]", attrs):
                if squash(a) != "allow(deprecated)":
                    raise GenError("IsTerminal for %s: unexpected attribute #[%s]" % (ty, a))
            body, _ = block_at(src, m.end() - 1, "impl IsTerminal for " + ty)
            mm = re.fullmatch(r"(?:#\[inline\])?fnis_terminal\(&self\)->bool\{(.*)\}", squash(body))
            b = mm.group(1) if mm else None
            known = ("false", "is_terminal_polyfill::IsTerminal::is_terminal(self)", "(**self).is_terminal()")
            if b not in known:
                # not one of the three spellings: what the impl MEANS is decided by its translation (tools/gen_fn_glue.py,
                # the code Generated/GlueFn.v is written from; Proofs/GlueGen.v translated_is_terminal_*): the constant
                # false / the polyfill asked about self / the pointee's impl.  GEN-ERROR only if that fails too
                import gen_fn_glue
                from rs2v.driver import TranslateError
                try:
                    cls = gen_fn_glue.is_terminal_classes(gm.read(rel))
                except TranslateError as e:
                    raise GenError("IsTerminal for %s: body not recognised and not translatable: %s" % (ty, e))
                lab = ty.replace("<'_>", "").replace("<'static>", "")
                if lab not in cls:
                    raise GenError("IsTerminal for %s: body not recognised, no translated impl under that name" % ty)
                b = {"false": known[0], "polyfill": known[1], "forward": known[2]}[cls[lab]]
            if b == "false" and generics is None:
                const_false.append(ty)
            elif b == "is_terminal_polyfill::IsTerminal::is_terminal(self)" and generics is None:
                polyfill.append(ty)
            elif b == "(**self).is_terminal()" and generics is not None and squash(generics) == "<T:IsTerminal+?Sized>" and ty in ("&T", "&mut T", "Box<T>"):
                forward.append(ty)
            else:
                raise GenError("IsTerminal for %s: method body not recognised: %r" % (ty, b))
        if not const_false or not polyfill:
            raise GenError("IsTerminal impls not found")
        for l in (const_false, polyfill, forward):
            if len(set(l)) != len(l):
                raise GenError("duplicate IsTerminal impl in %r" % l)
        return rel, const_false, polyfill, forward

    def gen_choice():
        prel, p = probes()
        crel, from_arms, to_arms, initial = colorchoice()
        frel, flag_arms = clap_flag()
        srel, const_false, polyfill, forward = is_terminal_impls()
        o = [gm.HEADER % ", ".join([prel, crel, frel, srel])]
        o.append("(* the types [choice] / [color_flag] are the vocabulary of Spec/Choice.v: Rust variant")
        o.append("   `ColorChoice::X` is constructor [ChX]; clap's flag value `ColorChoice::X` is [FlX] *)")
        o.append("")
        o.append("From Coq Require Import NArith List.")
        o.append("From AV Require Import Spec.Choice.")
        o.append("Import ListNotations.")
        o.append("Local Open Scope N_scope.")
        o.append("")
        o.append("(* anstyle_query: the variable each probe passes to std::env::var_os and the string")
        o.append("   literals it compares the value with (TERM: the #[cfg(not(windows))] block) *)")

        def s(bs):
            return '"%s"' % bytes(bs).decode("ascii")
        o.append(coq_bytes_def("ch_var_clicolor", p["clicolor"][0], "clicolor(): var_os(%s)?" % s(p["clicolor"][0])))
        o.append(coq_bytes_def("ch_lit_clicolor_off", p["clicolor"][1], "clicolor(): Some(value != %s)" % s(p["clicolor"][1])))
        o.append(coq_bytes_def("ch_var_clicolor_force", p["clicolor_force"], "clicolor_force(): non_empty(var_os(%s))" % s(p["clicolor_force"])))
        o.append(coq_bytes_def("ch_var_no_color", p["no_color"], "no_color(): non_empty(var_os(%s))" % s(p["no_color"])))
        o.append(coq_bytes_def("ch_var_term", p["term"][0], "term_supports_color(): match var_os(%s)" % s(p["term"][0])))
        o.append(coq_bytes_def("ch_lit_term_dumb", p["term"][1], "term_supports_color(): if k == %s { return false }" % s(p["term"][1])))
        o.append(coq_bytes_def("ch_var_colorterm", p["truecolor"][0], "truecolor(): var_os(%s)" % s(p["truecolor"][0])))
        o.append("Definition ch_lit_truecolor : list (list N) := [%s].   (* truecolor(): %s *)" % (
            "; ".join(gm.coq_bytes(x) for x in p["truecolor"][1]), " || ".join("value == " + s(x) for x in p["truecolor"][1])))
        o.append(coq_bytes_def("ch_var_ci", p["is_ci"], "is_ci(): var_os(%s).is_some()" % s(p["is_ci"])))
        o.append("")
        o.append("(* colorchoice::AtomicChoice *)")
        o.append("Definition ch_from_choice (c : choice) : N :=")
        o.append("  match c with")
        for c in CHOICES:
            o.append("  | Ch%s => %d" % (c, from_arms[c]))
        o.append("  end.")
        o.append("")
        o.append("Definition ch_to_choice (n : N) : option choice :=")
        if to_arms:
            o.append("  " + "\n  else ".join("if N.eqb n %d then Some Ch%s" % (k, c) for k, c in to_arms))
            o.append("  else None.")
        else:
            o.append("  None.")
        o.append("")
        o.append("Definition ch_global_initial : choice := Ch%s.   (* AtomicChoice::new() *)" % initial)
        o.append("")
        o.append("(* colorchoice_clap::Color::as_choice *)")
        o.append("Definition ch_as_choice (f : color_flag) : choice :=")
        o.append("  match f with")
        for f in FLAGS:
            o.append("  | Fl%s => Ch%s" % (f, flag_arms[f]))
        o.append("  end.")
        o.append("")
        o.append("(* anstream::stream: `impl IsTerminal for <type>`, by the body of is_terminal *)")

        def tylist(name, tys, comment):
            o.append("(* %s *)" % comment)
            o.append("Definition %s : list (list N) :=" % name)
            if not tys:
                o.append("  [].")
                return
            for t in tys:
                if "(*" in t or "*)" in t or '"' in t:
                    raise GenError("IsTerminal impl for a type whose name cannot be quoted in a Coq comment: %r" % t)
            o.append("  [ " + ";\n    ".join("%s (* %s *)" % (gm.coq_bytes(list(t.encode("ascii"))), t) for t in tys) + " ].")
        tylist("ch_streams_const_false", const_false, "`false`")
        tylist("ch_streams_polyfill", polyfill, "`is_terminal_polyfill::IsTerminal::is_terminal(self)`: isatty of the descriptor")
        tylist("ch_streams_forward", forward, "forwarding impls: is_terminal of the pointee (double deref of self)")
        return "\n".join(o) + "\n"

    generators["Choice"] = gen_choice
