#!/usr/bin/env python3
"""Function translator, third-party crate ansi_term (the version /repo/Cargo.lock pins, 0.12.1): the RENDERING path
of `ansi_term::Style` as harness/h-adapters runs it on a converted value (`s.paint("x").to_string().into_bytes()`)
-> coq/Generated/AnsiTermFn.v (generator `AnsiTermFn`, C16).

The source is located by tools/thirdparty.py (version from Cargo.lock = harness/h-adapters/Cargo.lock, the one
registry directory `ansi_term-<version>`, compared with `cargo metadata --offline` in harness/h-adapters;
$VERIF_REGISTRY=<dir> takes `<dir>/ansi_term-<version>/src/..` instead -- mutation tests only).

TRANSLATED (tools/rs2v) over the types of Model/AnsiTerm.v (`atm_style` = the struct, `atm_colour` = the enum):
  style.rs    impl Default for Style::default, Style::{new, bold, dimmed, italic, underline, blink, reverse, hidden,
              strikethrough, fg, on, is_plain}                                             (g_atm_<name>)
  ansi.rs     RESET (static), Colour::{write_foreground_code, write_background_code}, Style::{write_prefix (with
              its closure `write_char`), write_suffix, prefix, suffix}, impl Display for Prefix / Suffix
  display.rs  Style::paint, ANSIGenericString::write_to_any, impl Display for ANSIString
  and, a SECOND time over these concrete types, the adapter crates/anstyle-ansi-term/src/lib.rs (g_atc_*): the
  builder calls of `to_ansi_term` are then the translated builder methods of style.rs.
WRITTEN by the plug-in (std glue, checked against harness/h-adapters/src/c16.rs): `g_atm_to_string` (ToString: a fresh
String, `fmt`, an Err is a panic) and `g_atm_render s` = the harness's `at::render`.

Modelling: `fmt::Formatter`, `&mut fmt::Write` and the generic `W: AnyWrite` are ONE type, the bytes written so far
(a sink that never fails: the String of to_string()); `fmt::Result` / `Result<(), W::Error>` = unit + unit.
`write!(w, "<format>", args..)` is vocabulary (`m_write`): the format string is cut into literal pieces and `{}`;
a `{}` prints a u8 in decimal (atm_dec), a char as itself (atm_char), a &str as its bytes, a `Prefix` / `Suffix` by
calling the TRANSLATED `impl Display`.  write.rs (`trait AnyWrite` and its two impls: forwarders to std's
fmt::Write / io::Write) is PINNED by token hash: `impl AnyWrite for fmt::Write + 'a` (a bare trait object type) is
outside the parser's subset, and the vocabulary reading of `write!` / `write_str` on a `W` is exactly those
forwarders."""
import os
import re
import sys

sys.path.insert(0, os.path.dirname(os.path.abspath(__file__)))
from rs2v.driver import translate, TranslateError, token_hash   # noqa: E402
from rs2v.emit import EmitError                                  # noqa: E402
from rs2v.rparser import parse_file, find_items, ParseError, type_name, N, parse_macro_args   # noqa: E402
from rs2v.lexer import LexError   # noqa: E402
import thirdparty                 # noqa: E402
import gen_fn_adapters as GA      # noqa: E402

HARNESS = "h-adapters"
U8, BOOL, UNIT, CHAR = ("int", "u8"), ("bool",), ("unit",), ("int", "char")
BYTES = ("list", U8)
STYLE, COLOUR = ("struct", "Style"), ("enum", "Colour")
PREFIX, SUFFIX, ASTR = ("struct", "Prefix"), ("struct", "Suffix"), ("struct", "ANSIGenericString")
FRES = ("res", UNIT)
OKT = "(inl tt : unit + unit)"      # Ok(()) of a write: annotated, `match (inl tt) with ..` alone cannot be typed

NAMED = ["Black", "Red", "Green", "Yellow", "Blue", "Purple", "Cyan", "White"]
FLAGS = [("is_bold", "atm_bold"), ("is_dimmed", "atm_dimmed"), ("is_italic", "atm_italic"), ("is_underline", "atm_underline"),
         ("is_blink", "atm_blink"), ("is_reverse", "atm_reverse"), ("is_hidden", "atm_hidden"), ("is_strikethrough", "atm_strike")]
BUILDERS = ["bold", "dimmed", "italic", "underline", "blink", "reverse", "hidden", "strikethrough"]
# token hash of write.rs as a whole (trait AnyWrite + impl for fmt::Write + impl for io::Write)
WRITE_RS_PIN = "f8f1d873bfacb0df"


def shape(coq, self_mode, params, ret, total=True):
    return {"coq": coq, "self": self_mode, "params": params, "ret": ret, "total": total, "cfg": False}


# ---------------------------------------------------------------------------
# write!(w, "format", args..) on the bytes written so far

def split_format(fmt):
    """literal pieces and `{}` holes of a format string; anything else ({:x}, {name}, {0}) is an error"""
    pieces, cur, i = [], bytearray(), 0
    while i < len(fmt):
        c = fmt[i]
        if c == "{" and fmt[i:i + 2] == "{{":
            cur += b"{"
            i += 2
        elif c == "}" and fmt[i:i + 2] == "}}":
            cur += b"}"
            i += 2
        elif c == "{" and fmt[i:i + 2] == "{}":
            pieces.append(bytes(cur))
            cur = bytearray()
            pieces.append(None)
            i += 2
        elif c in "{}":
            raise EmitError("write!: format string %r: only literal text and `{}` are modelled" % fmt)
        else:
            cur += c.encode("utf-8")
            i += 1
    pieces.append(bytes(cur))
    return pieces


def write_parts(x):
    args = parse_macro_args(x.toks)
    if len(args) < 2 or args[0].kind != "path" or len(args[0].segs) != 1 or args[1].kind != "str":
        raise EmitError("write!: expected write!(<writer variable>, \"format\", ..)")
    return args[0], bytes(args[1].val).decode("utf-8"), args[2:]


def lit(bs):
    return "[" + "; ".join(str(b) for b in bs) + "]"


def m_write(em, e, env, k):
    """write!(w, fmt, args..): `w` = the bytes written so far.  Literal pieces are appended (atm_write_str); a `{}`
    prints its argument by type; an Err of a nested Display::fmt is returned at once (as core::fmt::write does)."""
    dest, fmt, args = write_parts(e)
    name = dest.segs[0]
    v = env.get(name)
    if v is None or v.ty != BYTES:
        raise EmitError("write!: %s is not a writer (bytes written so far)" % name)
    pieces = split_format(fmt)
    holes = [p for p in pieces if p is None]
    if len(holes) != len(args):
        raise EmitError("write!: %d `{}` for %d arguments" % (len(holes), len(args)))

    def run(i, ai, env1):
        if i == len(pieces):
            return k(OKT, FRES, env1)
        p = pieces[i]
        if p is not None:
            if not p:
                return run(i + 1, ai, env1)
            cur = env1.get(name).coq
            return em.write_place(dest, "(atm_write_str %s %s)" % (cur, lit(p)), env1, lambda env2: run(i + 1, ai, env2))
        a = args[ai]
        while a.kind == "unary" and a.op == "&":
            a = a.e

        def k_arg(t, ty, env2):
            cur = env2.get(name).coq
            if ty == U8:
                return em.write_place(dest, "(atm_write_str %s (atm_dec %s))" % (cur, t), env2, lambda env3: run(i + 1, ai + 1, env3))
            if ty == CHAR:
                return em.write_place(dest, "(atm_write_str %s (atm_char %s))" % (cur, t), env2, lambda env3: run(i + 1, ai + 1, env3))
            if ty == BYTES:
                return em.write_place(dest, "(atm_write_str %s %s)" % (cur, t), env2, lambda env3: run(i + 1, ai + 1, env3))
            if ty in (PREFIX, SUFFIX):
                # Display of a type of the crate: the TRANSLATED `fmt`, on this writer (core::fmt::write hands the
                # sink on and returns what `fmt` returns); only as the whole format string
                if pieces != [b"", None, b""]:
                    raise EmitError("write!: `{}` of %s inside a longer format string" % ty[1])
                sh = em.fn_shapes.get("%s::fmt" % ty[1])
                if sh is None:
                    raise EmitError("write!: `{}` of %s before its Display impl is translated" % ty[1])
                return em.call_shape(sh, N("term", term=t, ty=ty), [dest], env2, k)
            raise EmitError("write!: `{}` of a value of type %r is not modelled" % (ty,))
        return em.expr(a, env1, k_arg)
    return run(0, 0, env)


def macro_writes(em, x):
    if x.name.split("::")[-1] == "write":
        return [write_parts(x)[0].segs[0]]
    return []


def m_write_str(em, e, rt, rty, env, k):
    """<W as AnyWrite>::write_str(s) = fmt::Write::write_str on the bytes written so far"""
    if len(e.args) != 1:
        raise EmitError("write_str takes one argument")

    def k1(t, ty, env1):
        if ty != BYTES:
            raise EmitError("write_str(%r)" % (ty,))
        return em.write_place(e.recv, "(atm_write_str %s %s)" % (rt, t), env1, lambda env2: k(OKT, FRES, env2))
    return em.expr(e.args[0], env, k1)


m_write_str.mutates = True


# ---------------------------------------------------------------------------
# vocabulary

def base_vocab(check_style=False):
    fields = {"foreground": ("atm_fg", None, ("opt", COLOUR)), "background": ("atm_bg", None, ("opt", COLOUR))}
    for f, g in FLAGS:
        fields[f] = (g, None, BOOL)
    astr = {"coq": "atm_string", "var": "a", "check": False, "ctor": ("mkAtmString", ["style", "string"]),
            "fields": {"style": ("atm_s_style", None, STYLE), "string": ("atm_s_string", None, BYTES)}}
    return {
        "reserved": ["k", "next", "s", "c", "f", "w", "p", "n", "r", "g", "b"],
        "result": {"err": "unit"},
        "reborrow_lets": True,
        "closure_state_types": True,
        "type_alias": {"fmt::Result": FRES, "str": BYTES, "W": BYTES, "Formatter": BYTES, "Write": BYTES, "ANSIString": ASTR,
                       "I": BYTES, "Cow": BYTES},
        "structs": {
            "Style": {"coq": "atm_style", "var": "s", "eqb": "atm_style_eqb", "fields": fields, "check": check_style,
                      "ctor": ("mkAtm", ["foreground", "background"] + [f for f, _g in FLAGS])},
            "Prefix": {"coq": "atm_style", "var": "p", "check": False, "fields": {"0": ("atm_prefix_f0", None, STYLE)}},
            "Suffix": {"coq": "atm_style", "var": "p", "check": False, "fields": {"0": ("atm_suffix_f0", None, STYLE)}},
            "ANSIGenericString": astr, "ANSIString": astr,     # type ANSIString<'a> = ANSIGenericString<'a, str>
        },
        "enums": {
            "Colour": {"coq": "atm_colour", "var": "c", "eqb": "atm_colour_eqb",
                       "variants": dict([(n, "At" + n) for n in NAMED] + [("Fixed", "AtFixed"), ("RGB", "AtRGB")]),
                       "payload": {"Fixed": [U8], "RGB": [U8, U8, U8]}},
        },
        "consts": {},
        "fns": {
            "Prefix": shape("atm_prefix_new", None, [("in", STYLE)], PREFIX),
            "Suffix": shape("atm_suffix_new", None, [("in", STYLE)], SUFFIX),
        },
        "methods": {("list", "write_str"): m_write_str},
        "macros": {"write": m_write},
        "macro_writes": macro_writes,
        "closure_param_types": {"Style::write_prefix": [CHAR]},
        "opaque": {},
    }


def m_to_string(em, e, rt, rty, env, k):
    """<ANSIString as ToString>::to_string: g_atm_to_string (written by the plug-in over the translated Display::fmt)"""
    if e.args:
        raise EmitError("to_string takes no argument")
    return em.bind("g_atm_to_string %s" % rt, BYTES, env, k, hint="text")


def conc_vocab(bits):
    """crates/anstyle-ansi-term/src/lib.rs over the concrete types: the anstyle side as in gen_fn_adapters.py, ansi_term's
    Style / Colour as the record / enum of Model/AnsiTerm.v; the builder methods are the translated functions of style.rs
    (fn_shapes `Style::fg`, `Style::bold`, ..)"""
    v = GA.anstyle_vocab(bits)
    b = base_vocab()
    v["type_alias"]["ansi_term::Style"] = STYLE
    v["type_alias"]["ansi_term::Color"] = COLOUR
    v["structs"]["Style"] = b["structs"]["Style"]
    v["enums"]["Colour"] = b["enums"]["Colour"]
    for n in NAMED:
        v["paths"]["ansi_term::Color::" + n] = ("At" + n, COLOUR)
    v["fns"]["Color::Fixed"] = GA.f_ctor("ansi_term::Color::Fixed", "(AtFixed %s)", [U8], COLOUR)
    v["fns"]["Color::RGB"] = GA.f_ctor("ansi_term::Color::RGB", "(AtRGB %s %s %s)", [U8, U8, U8], COLOUR)
    v["fns"]["Style::new"] = GA.f_const("ansi_term::Style::new", "g_atm_new", STYLE)
    for a in GA.LIBS["ansi_term"]["attrs"]:
        v["method_paths"]["ansi_term::Style::" + a] = (STYLE[1], a)      # as a function pointer in a private table of the adapter
    return v


HEADER = ("(* GENERATED by tools/gen_fn_ansiterm.py (tools/rs2v) from the cargo registry source of the third-party crate\n"
          "   ansi_term %s (src/style.rs, src/ansi.rs, src/display.rs; version pinned by Cargo.lock) and, over the same\n"
          "   concrete types, crates/anstyle-ansi-term/src/lib.rs -- do not edit *)")
REQ = """From Coq Require Import NArith List Bool.
From AV Require Import Spec.Sgr Spec.Targets Model.Adapters Model.Base Model.Imp Model.AnsiTerm.
Import ListNotations.
Local Open Scope N_scope.
Local Open Scope bool_scope."""


def squash(s):
    return re.sub(r"\s+", "", s)


def parse(rel, src):
    try:
        return parse_file(src)
    except (ParseError, LexError) as e:
        raise TranslateError("ansi_term %s: parse error: %s" % (rel, e))


def check_enum(items, name, expected):
    ens = find_items(items, "enum", name)
    if len(ens) != 1:
        raise TranslateError("enum %s: %d definitions" % (name, len(ens)))
    got = []
    for vname, payload, disc, _attrs in ens[0].variants:
        if payload == "struct" or disc is not None:
            raise TranslateError("enum %s::%s: struct payload / explicit discriminant" % (name, vname))
        got.append((vname, [type_name(t) for t in payload] if payload else []))
    if got != expected:
        raise TranslateError("enum %s: variants %r, the vocabulary models %r" % (name, got, expected))


def register(generators, gm):
    def read(rel):
        return thirdparty.read_crate(gm, "ansi_term", rel, HARNESS)

    def harness_src():
        with open(os.path.join(os.path.dirname(os.path.abspath(__file__)), "..", "harness", HARNESS, "src", "c16.rs"), encoding="utf-8") as f:
            return f.read()

    def gen():
        try:
            version, _dir = thirdparty.crate_dir(gm, "ansi_term", HARNESS)
            style_rs, ansi_rs, display_rs = read("src/style.rs"), read("src/ansi.rs"), read("src/display.rs")
            write_rs, lib_rs = read("src/write.rs"), read("src/lib.rs")
            # ---- what the vocabulary assumes outside the function bodies
            sitems = parse("src/style.rs", style_rs)
            check_enum(sitems, "Colour", [(n, []) for n in NAMED] + [("Fixed", ["u8"]), ("RGB", ["u8", "u8", "u8"])])
            sq = squash(gm.strip_comments(style_rs))
            for need in ("#[derive(PartialEq,Clone,Copy)]", "pubstructStyle{", "#[derive(PartialEq,Clone,Copy,Debug)]", "pubenumColour{"):
                if need not in sq:
                    raise TranslateError("ansi_term src/style.rs: `%s` not found (`==` on Style / Colour is the derived one)" % need)
            if re.search(r"implPartialEq", sq):
                raise TranslateError("ansi_term src/style.rs: a hand-written impl of PartialEq")
            lq = squash(gm.strip_comments(lib_rs))
            for need in ("pubusestyle::{Colour,Style};", "pubuseColourasColor;", "pubuseansi::{Prefix,Infix,Suffix};", "pubusedisplay::*;"):
                if need not in lq:
                    raise TranslateError("ansi_term src/lib.rs: `%s` not found (ansi_term::Color must be the enum Colour)" % need)
            h = token_hash(write_rs)
            if h != WRITE_RS_PIN:
                raise TranslateError("ansi_term src/write.rs changed (token hash %s, pinned %s): trait AnyWrite and its impls are read "
                                     "by hand (write! / write_str on a W forward to std's fmt::Write) and must be re-read" % (h, WRITE_RS_PIN))
            shapes = {}
            v = base_vocab(check_style=True)
            out = [translate(style_rs, v, [
                ("default", "Style", "g_atm_default", {"trait": "Default"}),
                ("new", "Style", "g_atm_new", {}),
            ] + [(b, "Style", "g_atm_" + b, {}) for b in BUILDERS] + [
                ("fg", "Style", "g_atm_fg", {}),
                ("on", "Style", "g_atm_on", {}),
                ("is_plain", "Style", "g_atm_is_plain", {}),
            ], HEADER % version, REQ, shapes)]
            # ---- ansi.rs
            aitems = parse("src/ansi.rs", ansi_rs)
            rs = find_items(aitems, "const", "RESET") + find_items(aitems, "static", "RESET")
            if len(rs) != 1 or rs[0].val.kind != "str" or squash(type_name(rs[0].ty) or "") != "str" or any(b >= 128 for b in rs[0].val.val):
                raise TranslateError("ansi_term src/ansi.rs: not exactly one `pub static RESET: &str = \"<ascii>\"`")
            out.append("(* static RESET *)\nDefinition g_atm_RESET : list N := %s.\n" % lit(rs[0].val.val))
            v = base_vocab()
            v["consts"]["RESET"] = ("g_atm_RESET", BYTES)
            out.append(translate(ansi_rs, v, [
                ("write_foreground_code", "Colour", "g_atm_write_foreground_code", {}),
                ("write_background_code", "Colour", "g_atm_write_background_code", {}),
                ("write_prefix", "Style", "g_atm_write_prefix", {}),
                ("write_suffix", "Style", "g_atm_write_suffix", {}),
                ("prefix", "Style", "g_atm_prefix", {}),
                ("suffix", "Style", "g_atm_suffix", {}),
                ("fmt", "Prefix", "g_atm_prefix_fmt", {"trait": "Display"}),
                ("fmt", "Suffix", "g_atm_suffix_fmt", {"trait": "Display"}),
            ], "", "", shapes))
            # ---- display.rs
            out.append(translate(display_rs, base_vocab(), [
                ("paint", "Style", "g_atm_paint", {}),
                ("write_to_any", "ANSIGenericString", "g_atm_write_to_any", {}),
            ], "", "", shapes))
            if "pubtypeANSIString<'a>=ANSIGenericString<'a,str>;" not in squash(gm.strip_comments(display_rs)):
                raise TranslateError("ansi_term src/display.rs: `pub type ANSIString<'a> = ANSIGenericString<'a, str>;` not found")
            shapes["ANSIString::write_to_any"] = shapes["ANSIGenericString::write_to_any"]
            out.append(translate(display_rs, base_vocab(), [
                ("fmt", "ANSIString", "g_atm_string_fmt", {"trait": "Display"}),
            ], "", "", shapes))
            # ---- the harness glue: at::render = `s.paint("x").to_string().into_bytes()`
            hsrc = harness_src()
            m = re.search(r"^mod at \{\n(.*?)^\}", hsrc, re.S | re.M)
            if not m:
                raise TranslateError("harness/h-adapters/src/c16.rs: `mod at { .. }` not found")
            out.append("(* <ANSIString as ToString>::to_string (std: a fresh String, Display::fmt, an Err is a panic) *)\n"
                       "Definition g_atm_to_string (a : atm_string) : option (list N) :=\n"
                       "  '(f, r) <- g_atm_string_fmt a [] ;;\n"
                       "  match r with inl _ => Some f | inr _ => None end.\n")
            hv = base_vocab()
            hv["methods"][("ANSIGenericString", "to_string")] = m_to_string
            hv["methods"][("list", "into_bytes")] = lambda em, e, rt, rty, env, k: k(rt, rty, env)
            out.append("(* harness/h-adapters/src/c16.rs, mod at *)")
            out.append(translate(m.group(1), hv, [("render", None, "g_atm_render", {})], "", "", shapes))
            # ---- the adapter once more, over the concrete types: its builder calls are the functions above
            bits = GA.effect_bits(gm)
            rel = GA.LIBS["ansi_term"]["src"]
            asrc = GA.read_src(gm, rel)
            av = conc_vocab(bits)
            av["inline_sources"] = [GA.anstyle_color_src(gm)]
            GA.check_file(gm, rel, asrc, parse(rel, asrc), av)
            out.append("(* ---- %s over ansi_term's own types ---- *)" % rel)
            out.append(translate(asrc, av, [
                ("rgb_to_ansi_color", None, "g_atc_rgb_to_ansi_color", {}),
                ("xterm_to_ansi_color", None, "g_atc_xterm_to_ansi_color", {}),
                ("ansi_to_ansi_color", None, "g_atc_ansi_to_ansi_color", {}),
                ("to_ansi_color", None, "g_atc_to_ansi_color", {}),
                ("to_ansi_term", None, "g_atc_to_ansi_term", {}),
            ], "", "", shapes))
            for need in ("let t = anstyle_ansi_term::to_ansi_term(s);", "at::render(&t)"):
                if need not in hsrc:
                    raise TranslateError("harness/h-adapters/src/c16.rs: `%s` not found" % need)
            out.append("(* harness/h-adapters/src/c16.rs, adv: `let t = anstyle_ansi_term::to_ansi_term(s); .. at::render(&t)` *)\n"
                       "Definition g_atc_render_converted (s : sstyle) : option (list N) :=\n"
                       "  t <- g_atc_to_ansi_term s ;;\n"
                       "  g_atm_render t.\n")
            return "\n".join(out) + "\n"
        except TranslateError as e:
            raise gm.GenError(str(e))
        except KeyError as e:
            raise gm.GenError("function not found: %s" % e)
    generators["AnsiTermFn"] = gen
