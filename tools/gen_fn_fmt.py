#!/usr/bin/env python3
"""Function translator, crates/anstream/src/fmt.rs -> coq/Generated/FmtFn.v (generator name FmtFn; C06, C08, C18, C19):

  Adapter::new, Adapter::write_fmt, <Adapter as std::fmt::Write>::write_str

`struct Adapter<W: FnMut(&[u8]) -> io::Result<()>> { writer: W, error: io::Result<()> }` is the record `fadapter S`
(Model/Stream.v): the closure `writer` is a CLOSURE VALUE `fclosure S` = the code (a state-passing function, what
rs2v's e_closure makes of `|buf| write_all(raw, state, buf)`) together with the current value of its captured variables
(`S`, a type parameter: the generated file opens a Section over it); `(self.writer)(bytes)` is fclosure_call: run the
code on the captured state, keep the new state in the closure.  `error` is the error slot, an io::Result<()>.

Vocabulary (named, not translated), the faithful reading of std that the brief asks for:
  * `std::fmt::write(&mut self, fmt)` = core_fmt_write <the TRANSLATED write_str> self fmt (Model/Stream.v): core::fmt::write
    calls `write_str` once per fragment of the Arguments, in order, and stops at the first `Err(fmt::Error)` -- `?` after
    every piece in core::fmt::write; `fmt::Arguments` is the list of fragments, as everywhere in the stream area;
  * `std::fmt::Result` = `unit + unit`, `std::fmt::Error` = tt; `s.as_bytes()` of a fragment is the fragment;
  * `io::Error::new(kind, msg)` = the kind; `self.error.is_err()`.
Proofs/FmtGen.v proves `Adapter::new(f).write_fmt(args)` equal to the hand model fmt_adapter_write_fmt (Model/Stream.v),
which the translations of strip.rs / wincon.rs `write_fmt` now reach THROUGH the translated functions."""
import os
import sys

sys.path.insert(0, os.path.dirname(os.path.abspath(__file__)))
from rs2v.driver import translate, TranslateError   # noqa: E402
from rs2v.emit import EmitError, NeedsBind   # noqa: E402

U8 = ("int", "u8")
UNIT, BOOL = ("unit",), ("bool",)
BYTES = ("list", U8)
FRAGS = ("list", BYTES)
CLOSURE = ("coq", "(fclosure S)")
ADAPTER = ("struct", "Adapter")
FMTRES = ("coq", "(unit + unit)")


def res(t):
    return ("res", t)


def call_closure_field(em, e, env, k):
    """`(self.writer)(arg)`: call the closure value stored in a place -- fclosure_call, the closure (its captured state) is
    written back to the place"""
    f = e.f
    while f.kind == "paren":
        f = f.e
    if len(e.args) != 1 or em.place_root(f) is None:
        raise EmitError("call of a closure value: one argument, the closure in a place")
    if em.pure_mode:
        raise NeedsBind()

    def k_f(ft, fty, env1):
        if fty != CLOSURE:
            raise EmitError("call of a value of type %r" % (fty,))

        def k_a(at, aty, env2):
            if aty != BYTES:
                raise EmitError("closure argument of type %r" % (aty,))
            o, r = em.fresh("o"), em.fresh("r")
            return "'(%s, %s) <- fclosure_call %s %s ;;\n%s" % (o, r, ft, at, em.write_place(f, o, env2, lambda env3: k(r, res(UNIT), env3)))
        return em.expr(e.args[0], env1, k_a)
    return em.expr(f, env, k_f)


def f_fmt_write(em, e, env, k):
    """std::fmt::write(&mut self, fmt): write_str (TRANSLATED) once per fragment, stop at the first error"""
    if len(e.f.segs) < 2 or e.f.segs[-2:] != ["fmt", "write"] or len(e.args) != 2:
        raise EmitError("only std::fmt::write(out, args) is modelled")
    out = e.args[0]
    if out.kind != "unary" or out.op != "&mut" or em.place_root(out.e) is None:
        raise EmitError("std::fmt::write: the output must be `&mut <place>`")
    ws = em.fn_shapes.get("Adapter::write_str")
    if ws is None:
        raise EmitError("std::fmt::write: write_str is not translated yet")
    if em.pure_mode:
        raise NeedsBind()

    def k_o(ot, oty, env1):
        if oty != ADAPTER:
            raise EmitError("std::fmt::write into %r" % (oty,))

        def k_a(at, aty, env2):
            if aty != FRAGS:
                raise EmitError("std::fmt::write of %r" % (aty,))
            o, r = em.fresh("o"), em.fresh("r")
            return "'(%s, %s) <- core_fmt_write %s %s %s ;;\n%s" % (o, r, ws["coq"], ot, at, em.write_place(out.e, o, env2, lambda env3: k(r, ("res", UNIT), env3)))
        return em.expr(e.args[1], env1, k_a)
    return em.expr(out.e, env, k_o)


def f_error_new(em, e, env, k):
    if len(e.args) != 2 or e.args[1].kind != "str":
        raise EmitError("io::Error::new(kind, \"literal\")")
    return em.expr(e.args[0], env, lambda t, _ty, env1: k(t, ("coq", "ekind"), env1))


def m_res_is_err(em, e, rt, rty, env, k):
    if e.args:
        raise EmitError("is_err takes no argument")
    return k("(res_is_err %s)" % rt, BOOL, env)


def m_as_bytes(em, e, rt, rty, env, k):
    return k(rt, rty, env)


VOCAB = {
    "result": {"err": "ekind"},
    "no_transparent": ["as_bytes"],
    "call_value": call_closure_field,
    # `write_fmt(mut self, ..)` consumes the adapter, but the variables its closure captures are `&mut` borrows of the
    # CALLER's variables: what the closure did to them stays visible after the call.  The value translation keeps the
    # captured state inside the closure value, so the final adapter is returned next to the answer (as for `&mut self`)
    "interior_mut": ["Adapter::write_fmt"],
    "type_alias": {"W": CLOSURE, "std::fmt::Result": FMTRES, "Arguments": FRAGS, "str": BYTES},
    "enums": {"ErrorKind": {"coq": "ekind", "variants": {x: x for x in ("Interrupted", "WouldBlock", "Other", "WriteZero")}}},
    "structs": {
        "Adapter": {"coq": "(fadapter S)", "var": "ad", "ctor": ("(mkFA S)", ["writer", "error"]), "fields": {
            "writer": ("(fa_writer S)", "(set_fa_writer S)", CLOSURE),
            "error": ("(fa_error S)", "(set_fa_error S)", res(UNIT)),
        }},
    },
    "reserved": ["S"],
    "consts": {},
    "paths": {"std::fmt::Error": ("tt", UNIT)},
    "fns": {"fmt::write": f_fmt_write, "Error::new": f_error_new},
    "methods": {("res", "is_err"): m_res_is_err, ("list", "as_bytes"): m_as_bytes},
    "opaque": {},
}

HEADER = "(* GENERATED by tools/gen_fn_fmt.py (tools/rs2v) from crates/anstream/src/fmt.rs -- do not edit *)"
REQ = """From Coq Require Import NArith List Bool.
From AV Require Import Generated.Table Spec.Io Model.Base Model.Imp Model.Utf8parse Model.Parser Model.Strip Model.Stream.
Import ListNotations.
Local Open Scope N_scope.
Local Open Scope bool_scope.

Section Adapter.
(* the type of the variables the closure `writer` captures *)
Variable S : Type."""

TARGETS = [
    ("new", "Adapter", "g_adapter_new", {}),
    ("write_str", "Adapter", "g_adapter_write_str", {"trait": "Write"}),
    ("write_fmt", "Adapter", "g_adapter_write_fmt", {}),
]


def fmt_shapes(src):
    shapes = {}
    text = translate(src, VOCAB, TARGETS, HEADER, REQ, shapes)
    return text, shapes


def register(generators, gm):
    def gen():
        try:
            text, _shapes = fmt_shapes(gm.read("crates/anstream/src/fmt.rs"))
            return text + "\nEnd Adapter.\n"
        except TranslateError as e:
            raise gm.GenError(str(e))
    generators["FmtFn"] = gen
