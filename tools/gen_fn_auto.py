#!/usr/bin/env python3
"""Function translator, AutoStream (C08; the lock discipline of C19):

  crates/anstream/src/strip.rs   StripStream::{new, into_inner, is_terminal, lock (Stdout), lock (Stderr)}
  crates/anstream/src/auto.rs    AutoStream::{always_ansi_, always_ansi, always, never, wincon, choice, new, auto,
                                 into_inner, is_terminal, current_choice, lock (Stdout), lock (Stderr)} and
                                 <AutoStream as io::Write>::{write, write_vectored, flush, write_all, write_fmt}
  -> coq/Generated/AutoFn.v      (generator name AutoFn)

translated (tools/rs2v) for the configuration the properties are stated for: a NON-Windows target with the
default features (`cfg_static`: `cfg!(windows)` = false, feature "auto" on, `all(windows, feature = "wincon")`
off -- the Windows branch of `always` and the `Wincon` arms are compiled out and are not translated; of
`AutoStream::wincon` the compiled-in block `Err(raw)` is).  Proofs/AutoGen.v proves every translation equal to the hand model (Model/Stream.v: auto_mode,
auto_op, run_ops, current_choice) the theorems of C08 are about.

The Strip arm forwards to the methods of `impl io::Write for StripStream`, which are ALREADY translated
(Generated/StreamFn.v, tools/gen_fn_stream.py): their shapes are recomputed here (same sources, same vocabulary)
and the generated code calls g_ss_write / g_ss_flush / g_ss_write_all / g_ss_write_fmt.

Vocabulary (named, not translated):
  * the raw stream `S: RawStream` is the scripted writer of Spec/Io.v; what it answers besides being a writer is
    the config parameter `cf : acfg` of every function: `choice(&raw)` (the free function of auto.rs: C09's
    subject, translated in Generated/ChoiceFn.v) = raw_choice cf raw, `raw.is_terminal()` = raw_is_terminal cf raw,
    real vectored writes or std's default = ac_wv_all cf;
  * `w.as_locked_write()` is a write-through view of `w` (transparent place; what the lock excludes is C19's
    subject, see LOCK below), the guard's methods are the inner writer's own (std's defaults):
    raw_write / raw_write_vectored / raw_flush / raw_write_all / raw_write_fmt;
  * `Stdout::lock()` / `Stderr::lock()` = raw_lock (the guard writes to the same stream);
  * `anstyle_query::windows::enable_ansi_colors()` = raw_enable_ansi_colors (None off Windows);
  * `debug_assert_ne!(a, b)` = `if a != b then .. else None` (a debug build panics).
Pinned by token hash (hand-modelled), same pin as tools/gen_fn_stream.py:
  * StripStream::write_vectored (iterator-adapter plumbing over IoSlice): the plug-in WRITES
    g_ss_write_vectored = the translated g_ss_write on first_nonempty.

LOCK (C19): a second translation of the five Write methods of AutoStream and StripStream (same Rust text,
another vocabulary, `gl_*`) in which the value threaded through a stream is the TRACE of lock events:
`as_locked_write()` appends LkAcquire and yields a guard, every method called on the guard appends LkInner,
and the guard's drop at the end of the enclosing statement appends LkRelease."""
import os
import sys

sys.path.insert(0, os.path.dirname(os.path.abspath(__file__)))
from rs2v.driver import translate, TranslateError, token_hash, fn_source   # noqa: E402
from rs2v.emit import EmitError, ind   # noqa: E402
from rs2v.rparser import parse_file, find_items, parse_macro_args, N   # noqa: E402
import gen_fn_stream   # noqa: E402

U8, USZ = ("int", "u8"), ("int", "usize")
UNIT, BOOL = ("unit",), ("bool",)
BYTES = ("list", U8)
WRITER = ("coq", "writer")
SBYTES = ("struct", "StripBytes")
SSTREAM = ("struct", "StripStream")
ASTREAM = ("struct", "AutoStream")
INNER = ("enum", "StreamInner")
CHOICE = ("enum", "ColorChoice")
CHOICES = ["Auto", "AlwaysAnsi", "Always", "Never"]

# the configuration the code is translated for
CFG = {"windows": False, 'feature="auto"': True, 'all(windows,feature="wincon")': False}


def res(t):
    return ("res", t)


# -- the raw stream ------------------------------------------------------------------
def m_raw_is_terminal(em, e, rt, rty, env, k):
    if e.args:
        raise EmitError("is_terminal takes no argument")
    return k("(raw_is_terminal %s %s)" % (em.v["config_param"][0], rt), BOOL, env)


def m_raw_lock(em, e, rt, rty, env, k):
    if e.args:
        raise EmitError("lock takes no argument")
    return k("(raw_lock %s)" % rt, WRITER, env)


def m_as_locked_write(em, e, rt, rty, env, k):
    # the guard writes through to the writer it was taken from (vocabulary transparent_places)
    return k(rt, rty, env)


def f_choice(em, e, env, k):
    """the free function `choice(raw: &dyn RawStream)` of auto.rs: C09's subject, here what the raw stream answers"""
    if len(e.args) != 1:
        raise EmitError("choice takes one argument")
    return em.expr(e.args[0], env, lambda t, _ty, env1: k("(raw_choice %s %s)" % (em.v["config_param"][0], t), CHOICE, env1))


def f_enable_ansi_colors(em, e, env, k):
    if e.args:
        raise EmitError("enable_ansi_colors takes no argument")
    return k("raw_enable_ansi_colors", ("opt", BOOL), env)


def mac_debug_assert_ne(em, e, env, k):
    args = parse_macro_args(e.toks)
    if len(args) != 2:
        raise EmitError("debug_assert_ne! with a message")
    cond = N("binary", op="!=", l=args[0], r=args[1])
    return em.expr(cond, env, lambda c, _t, env1: "if %s then\n%s\nelse None" % (c, ind(k("tt", UNIT, env1))))


ENUM_CHOICE = {"coq": "cchoice", "eqb": "cchoice_eqb", "var": "c", "variants": {c: "C" + c for c in CHOICES}}
ENUM_INNER = {"coq": "sinner", "var": "i", "variants": {},
              "payload": {"PassThrough": ("SIPass", [WRITER]), "Strip": ("SIStrip", [SSTREAM])}}

STD_HANDLES = {n: WRITER for n in ("S", "Stdout", "Stderr", "StdoutLock", "StderrLock")}

# crates/anstream/src/strip.rs: constructors and accessors
V_STRIP = {
    "for_ret_state": True,     # a `return` inside an eager `for` carries the loop variables (the stream that was written to)
    "config_param": ("cf", "acfg"),
    "reserved": ["cf"],
    "result": {"err": "ekind"},
    "type_alias": dict(STD_HANDLES),
    "enums": {},
    "structs": {
        "StripBytes": {"coq": "sbytes", "var": "sb", "fields": {}, "check": False},
        "StripStream": {"coq": "sstream", "var": "ss", "ctor": ("mkSS", ["raw", "state"]), "fields": {
            "raw": ("ss_raw", "set_ss_raw", WRITER),
            "state": ("ss_state", "set_ss_state", SBYTES),
        }},
    },
    "defaults": {repr(SBYTES): "sb_new"},
    "consts": {},
    "fns": {},
    "methods": {("coq", "is_terminal"): m_raw_is_terminal, ("coq", "lock"): m_raw_lock},
    "opaque": {},
}


def ctor_shape(coq, pty):
    return {"coq": coq, "self": None, "params": [("in", pty)], "ret": INNER, "total": True, "cfg": False}


# crates/anstream/src/auto.rs
V_AUTO = {
    "for_ret_state": True,     # a `return` inside an eager `for` carries the loop variables (the stream that was written to)
    "config_param": ("cf", "acfg"),
    "reserved": ["cf"],
    "cfg_static": CFG,
    "match_writeback": True,
    "result": {"err": "ekind"},
    "type_alias": dict(STD_HANDLES, IoSlice=BYTES),
    "enums": {"ColorChoice": ENUM_CHOICE, "StreamInner": ENUM_INNER},
    "structs": {
        "StripBytes": {"coq": "sbytes", "var": "sb", "fields": {}, "check": False},
        "StripStream": {"coq": "sstream", "var": "ss", "fields": {}, "check": False},
        "AutoStream": {"coq": "astream", "var": "a", "ctor": ("mkAStream", ["inner"]), "fields": {
            "inner": ("as_inner", "set_as_inner", INNER),
        }},
    },
    "consts": {},
    "param_types": {"args": ("list", BYTES)},
    # `fn wincon(raw: S) -> Result<Self, S>`: not an io::Result -- the sum  AutoStream + S
    "ret_types": {"AutoStream::wincon": ("coq", "(astream + writer)")},
    "transparent_places": ["as_locked_write"],
    "fns": {
        "StreamInner::PassThrough": ctor_shape("SIPass", WRITER),
        "StreamInner::Strip": ctor_shape("SIStrip", SSTREAM),
        "choice": f_choice,
        "windows::enable_ansi_colors": f_enable_ansi_colors,
    },
    "macros": {"debug_assert_ne": mac_debug_assert_ne},
    "methods": {
        ("coq", "is_terminal"): m_raw_is_terminal,
        ("coq", "lock"): m_raw_lock,
        ("coq", "as_locked_write"): m_as_locked_write,
        ("coq", "write"): {"coq": "raw_write", "self": "inout", "params": [("in", BYTES)], "ret": res(USZ), "total": True, "cfg": False},
        ("coq", "write_vectored"): {"coq": "raw_write_vectored", "self": "inout", "params": [("in", ("list", BYTES))], "ret": res(USZ), "total": True, "cfg": True},
        ("coq", "flush"): {"coq": "raw_flush", "self": "inout", "params": [], "ret": res(UNIT), "total": True, "cfg": False},
        ("coq", "write_all"): {"coq": "raw_write_all", "self": "inout", "params": [("in", BYTES)], "ret": res(UNIT), "total": True, "cfg": False},
        ("coq", "write_fmt"): {"coq": "raw_write_fmt", "self": "inout", "params": [("in", ("list", BYTES))], "ret": res(UNIT), "total": True, "cfg": False},
    },
    "opaque": {},
}

HEADER = ("(* GENERATED by tools/gen_fn_auto.py (tools/rs2v) from crates/anstream/src/strip.rs, crates/anstream/src/auto.rs\n"
          "   (non-Windows target, default features) -- do not edit *)")
REQ = """From Coq Require Import NArith List Bool.
From AV Require Import Generated.Table Spec.Io Model.Base Model.Imp Model.Utf8parse Model.Parser Model.Strip Model.Stream
  Generated.StreamFn.
Import ListNotations.
Local Open Scope N_scope.
Local Open Scope bool_scope."""

# the functions of strip.rs translated by tools/gen_fn_stream.py (Generated/StreamFn.v), in its order
STREAM_TARGETS = [
    ("offset_to", None, "g_offset_to", {}),
    ("write", None, "g_write", {}),
    ("write_all", None, "g_write_all", {}),
    ("write_fmt", None, "g_write_fmt", {}),
    ("write", "StripStream", "g_ss_write", {"trait": "Write"}),
    ("flush", "StripStream", "g_ss_flush", {"trait": "Write"}),
    ("write_all", "StripStream", "g_ss_write_all", {"trait": "Write"}),
    ("write_fmt", "StripStream", "g_ss_write_fmt", {"trait": "Write"}),
    ("write_vectored", "StripStream", "g_ss_write_vectored", {"trait": "Write"}),
]



def check_enum(src, name, variants, cfg):
    """the Rust enum has exactly the variants the vocabulary names (those compiled in)"""
    ens = find_items(parse_file(src), "enum", name)
    if len(ens) != 1:
        raise TranslateError("enum %s: %d definitions" % (name, len(ens)))
    got = []
    for v in ens[0].variants:
        attrs = [a.replace(" ", "") for a in v[3]]
        cfgs = [a for a in attrs if a.startswith("#[cfg")]
        if cfgs:
            if cfgs != ['#[cfg(all(windows,feature="wincon"))]']:
                raise TranslateError("enum %s: variant %s under %s" % (name, v[0], " ".join(cfgs)))
            continue
        got.append((v[0], len(v[1]) if v[1] else 0))
    if got != variants:
        raise TranslateError("enum %s has variants %r, the vocabulary models %r" % (name, got, variants))


def stream_shapes(strip_src):
    """shapes of the functions Generated/StreamFn.v defines (the text is discarded: StreamFn writes it)"""
    shapes = {}
    v = dict(gen_fn_stream.VOCAB)
    translate(strip_src, v, STREAM_TARGETS, "", "", shapes)
    return {k: dict(s) for k, s in shapes.items() if k.startswith("StripStream::")}


# =====================================================================================================
# LOCK: the second translation (C19).  Same Rust text; the raw stream is `lraw` (Model/Stream.v): the scripted
# writer plus the log of lock events.  The free functions write / write_all / write_fmt of strip.rs receive the
# guard (`raw: &mut dyn Write`) and are the ones ALREADY translated over `writer` (g_write ..): the guard is the
# view `lr_w` of the locked stream (vocabulary `place_writers`: a new value of the view goes back with set_lr_w).
LRAW = ("struct", "LRaw")


def ml_as_locked_write(em, e, rt, rty, env, k):
    """`x.as_locked_write()`: take the lock NOW (lr_acquire on the place x), hand out the view lr_w of x, and register the
    guard's destructor (lr_release on x) for the end of the enclosing temporary scope (vocabulary `drops`)"""
    from rs2v.emit import NeedsBind
    if e.args:
        raise EmitError("as_locked_write takes no argument")
    if rty != LRAW:
        raise EmitError("as_locked_write on %r" % (rty,))
    if em.pure_mode:
        raise NeedsBind()
    if em.place_root(e.recv) is None:
        raise EmitError("as_locked_write on a value that is no place")

    def drop(envx, kx):
        return em.expr(e.recv, envx, lambda rt2, _ty, envy: em.write_place(e.recv, "(lr_release %s)" % rt2, envy, kx))

    def after(env1):
        def k1(rt1, _ty, env2):
            em.drops.append(drop)
            return k("(lr_w %s)" % rt1, WRITER, env2)
        return em.expr(e.recv, env1, k1)
    return em.write_place(e.recv, "(lr_acquire %s)" % rt, env, after)


ml_as_locked_write.mutates = True


def pw_as_locked_write(em, place, term, env, k):
    """a new value of the guard's view goes back into the locked stream"""
    return em.expr(place.recv, env, lambda rt, _ty, env1: em.write_place(place.recv, "(set_lr_w %s %s)" % (rt, term), env1, k))


def guard_method(coq, ptys, ret, cfg=False):
    """a method of the guard (`impl io::Write` of the inner writer), called on the ALREADY evaluated view: a callable, not
    a shape dict, because call_shape would evaluate the receiver `x.as_locked_write()` a second time (= lock twice)"""
    def m(em, e, rt, rty, env, k):
        from rs2v.emit import NeedsBind
        if rty != WRITER:
            raise EmitError("%s on %r" % (e.name, rty,))
        if len(e.args) != len(ptys):
            raise EmitError("%s takes %d argument(s)" % (e.name, len(ptys)))
        if em.pure_mode:
            raise NeedsBind()
        if em.place_root(e.recv) is None:
            raise EmitError("%s on a writer that is no place" % e.name)

        def k_args(ts, _tys, env1):
            o, r = em.fresh("o"), em.fresh("r")
            head = coq + ((" " + em.v["config_param"][0]) if cfg else "")
            call = " ".join([head, rt] + ts)
            return "let '(%s, %s) := %s in\n%s" % (o, r, call, em.write_place(e.recv, o, env1, lambda env2: k(r, ret, env2)))
        return em.exprs(list(e.args), env, k_args)
    m.mutates = True
    return m


GUARD_METHODS = {
    ("LRaw", "as_locked_write"): ml_as_locked_write,
    ("coq", "write"): guard_method("raw_write", [BYTES], res(USZ)),
    ("coq", "write_vectored"): guard_method("raw_write_vectored", [("list", BYTES)], res(USZ), cfg=True),
    ("coq", "flush"): guard_method("raw_flush", [], res(UNIT)),
    ("coq", "write_all"): guard_method("raw_write_all", [BYTES], res(UNIT)),
    ("coq", "write_fmt"): guard_method("raw_write_fmt", [("list", BYTES)], res(UNIT)),
}

STRUCT_LRAW = {"coq": "lraw", "var": "lr", "fields": {}, "check": False}
LOCK_ALIASES = {n: LRAW for n in ("S", "Stdout", "Stderr", "StdoutLock", "StderrLock")}

# strip.rs, <StripStream as io::Write>::{write, flush, write_all, write_fmt} over a locked raw stream
VL_STRIP = {
    "for_ret_state": True,     # a `return` inside an eager `for` carries the loop variables (the stream that was written to)
    "drops": True,
    "place_writers": {"as_locked_write": pw_as_locked_write},
    "result": {"err": "ekind"},
    "type_alias": dict(LOCK_ALIASES, IoSlice=BYTES),
    "enums": {},
    "structs": {
        "LRaw": STRUCT_LRAW,
        "StripBytes": {"coq": "sbytes", "var": "sb", "fields": {}, "check": False},
        "StripStream": {"coq": "lsstream", "var": "ss", "fields": {
            "raw": ("lss_raw", "set_lss_raw", LRAW),
            "state": ("lss_state", "set_lss_state", SBYTES),
        }},
    },
    "consts": {},
    "param_types": {"args": ("list", BYTES)},
    "fns": {},
    "methods": dict(GUARD_METHODS, **{}),
    "opaque": {},
}
VL_STRIP["methods"].update({("list", "find"): gen_fn_stream.m_list_find, ("opt", "map"): gen_fn_stream.m_opt_map})

ENUM_LINNER = {"coq": "lsinner", "var": "i", "variants": {},
               "payload": {"PassThrough": ("LSIPass", [LRAW]), "Strip": ("LSIStrip", [SSTREAM])}}

# auto.rs, <AutoStream as io::Write>::{write, write_vectored, flush, write_all, write_fmt} over a locked raw stream
VL_AUTO = {
    "for_ret_state": True,     # a `return` inside an eager `for` carries the loop variables (the stream that was written to)
    "config_param": ("cf", "acfg"),
    "reserved": ["cf"],
    "cfg_static": CFG,
    "match_writeback": True,
    "drops": True,
    "place_writers": {"as_locked_write": pw_as_locked_write},
    "result": {"err": "ekind"},
    "type_alias": dict(LOCK_ALIASES, IoSlice=BYTES),
    "enums": {"StreamInner": ENUM_LINNER},
    "structs": {
        "LRaw": STRUCT_LRAW,
        "StripStream": {"coq": "lsstream", "var": "ss", "fields": {}, "check": False},
        "AutoStream": {"coq": "lastream", "var": "a", "fields": {
            "inner": ("las_inner", "set_las_inner", INNER),
        }},
    },
    "consts": {},
    "param_types": {"args": ("list", BYTES)},
    "fns": {},
    "methods": dict(GUARD_METHODS),
    "opaque": {},
}



def lock_translation(strip, auto):
    shapes = {}
    v = dict(gen_fn_stream.VOCAB)
    translate(strip, v, STREAM_TARGETS, "", "", shapes)
    # the free functions only: the methods are translated again below, over the locked stream
    shapes = {k: dict(s) for k, s in shapes.items() if "::" not in k}
    wr = {"trait": "Write"}
    out = ["(* ---- LOCK (C19): the Write methods once more, over a raw stream that logs its lock events ---- *)"]
    out.append(translate(strip, VL_STRIP, [
        ("write", "StripStream", "gl_ss_write", wr),
        ("flush", "StripStream", "gl_ss_flush", wr),
        ("write_all", "StripStream", "gl_ss_write_all", wr),
        ("write_fmt", "StripStream", "gl_ss_write_fmt", wr),
        # takes no lock itself: picks the first non-empty buffer and delegates once to `self.write(buf)`
        ("write_vectored", "StripStream", "gl_ss_write_vectored", wr),
    ], "", "", shapes))
    out.append(translate(auto, VL_AUTO, [
        ("write", "AutoStream", "gl_as_write", wr),
        ("write_vectored", "AutoStream", "gl_as_write_vectored", wr),
        ("flush", "AutoStream", "gl_as_flush", wr),
        ("write_all", "AutoStream", "gl_as_write_all", wr),
        ("write_fmt", "AutoStream", "gl_as_write_fmt", wr),
    ], "", "", shapes))
    return "\n".join(out)


def register(generators, gm):
    def gen():
        try:
            strip = gm.read("crates/anstream/src/strip.rs")
            auto = gm.read("crates/anstream/src/auto.rs")
            cc = gm.read("crates/colorchoice/src/lib.rs")
            import gen_fn_choice
            gen_fn_choice.check_enum(cc, "ColorChoice", CHOICES, "colorchoice")
            check_enum(auto, "StreamInner", [("PassThrough", 1), ("Strip", 1)], CFG)
            shapes = stream_shapes(strip)
            out = [HEADER, REQ, ""]
            out.append(translate(strip, V_STRIP, [
                ("new", "StripStream", "g_ss_new", {}),
                ("into_inner", "StripStream", "g_ss_into_inner", {}),
                ("is_terminal", "StripStream", "g_ss_is_terminal", {}),
                ("lock", "StripStream", "g_ss_lock_stdout", {"target_arg": "Stdout", "key": "StripStream::lock_stdout"}),
                ("lock", "StripStream", "g_ss_lock_stderr", {"target_arg": "Stderr", "key": "StripStream::lock_stderr"}),
            ], "", "", shapes))
            wr = {"trait": "Write"}
            out.append(translate(auto, V_AUTO, [
                ("always_ansi_", "AutoStream", "g_as_always_ansi_", {}),
                ("always_ansi", "AutoStream", "g_as_always_ansi", {}),
                ("always", "AutoStream", "g_as_always", {}),
                ("never", "AutoStream", "g_as_never", {}),
                # the non-Windows block: no legacy console, the raw stream is handed back (`Err(raw)`)
                ("wincon", "AutoStream", "g_as_wincon", {}),
                ("choice", "AutoStream", "g_as_choice", {}),
                # `new` and `auto` call each other: `auto` is inlined into `new` (a local helper), `new` recurses
                # on fuel (Auto -> the decided choice -> a constructor: two levels), `auto` then calls `new`
                ("new", "AutoStream", "g_as_new", {"rec_fuel": "2%nat"}),
                ("auto", "AutoStream", "g_as_auto", {}),
                ("into_inner", "AutoStream", "g_as_into_inner", {}),
                ("is_terminal", "AutoStream", "g_as_is_terminal", {}),
                ("current_choice", "AutoStream", "g_as_current_choice", {}),
                ("write", "AutoStream", "g_as_write", wr),
                ("write_vectored", "AutoStream", "g_as_write_vectored", wr),
                ("flush", "AutoStream", "g_as_flush", wr),
                ("write_all", "AutoStream", "g_as_write_all", wr),
                ("write_fmt", "AutoStream", "g_as_write_fmt", wr),
            ], "", "", shapes))
            for which in ("Stdout", "Stderr"):
                shapes["StripStream::lock"] = shapes["StripStream::lock_" + which.lower()]
                out.append(translate(auto, V_AUTO, [
                    ("lock", "AutoStream", "g_as_lock_" + which.lower(), {"target_arg": which, "key": "AutoStream::lock_" + which.lower()}),
                ], "", "", shapes))
            out.append(lock_translation(strip, auto))
            return "\n".join(out) + "\n"
        except TranslateError as e:
            raise gm.GenError(str(e))
    generators["AutoFn"] = gen
