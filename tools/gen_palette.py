"""Translator, lossy-colour part (C10): crates/anstyle-lossy/src/{lib.rs,palette.rs}
and the from_ansi / into_ansi tables of anstyle  ->  coq/Generated/Palette.v.
Hooked into tools/gen_model.py through `register`; helpers come from that module."""
import re


def register(generators, gm):
    g = globals()
    for k in dir(gm):
        if not k.startswith("__") and k not in g:
            g[k] = getattr(gm, k)
    generators["Palette"] = gen_palette


# --------------------------------------------------------------------------
# anstyle-lossy: XTERM_COLORS, the shipped palettes, xterm_to_ansi's arms; the
# from_ansi / into_ansi tables of anstyle that the lossy code calls

ANSI_NAMES = ["Black", "Red", "Green", "Yellow", "Blue", "Magenta", "Cyan", "White",
              "BrightBlack", "BrightRed", "BrightGreen", "BrightYellow", "BrightBlue", "BrightMagenta", "BrightCyan", "BrightWhite"]


def _rgb_entries(body, what, count):
    """body of an array literal that must hold exactly `count` entries `Rgb(r, g, b)`"""
    ents = re.findall(r"\bRgb\(\s*(\w+)\s*,\s*(\w+)\s*,\s*(\w+)\s*\)", body)
    rest = re.sub(r"\bRgb\(\s*\w+\s*,\s*\w+\s*,\s*\w+\s*\)", "", body)
    if rest.replace(",", "").strip():
        raise GenError("%s: unexpected tokens %r" % (what, rest.replace(",", "").strip()[:60]))
    if len(ents) != count:
        raise GenError("%s: expected %d entries, found %d" % (what, count, len(ents)))
    out = []
    for e in ents:
        try:
            v = tuple(rust_int(t) for t in e)
        except ValueError:
            raise GenError("%s: non-literal component in %r" % (what, e))
        if any(x < 0 or x > 255 for x in v):
            raise GenError("%s: component out of u8 range in %r" % (what, e))
        out.append(v)
    return out


def _fn_body(src, header_re, what):
    """text between the braces of the first function whose header matches"""
    m = re.search(header_re, src, re.S)
    if not m:
        raise GenError("%s not found" % what)
    i = src.index("{", m.end() - 1)
    depth = 0
    for j in range(i, len(src)):
        if src[j] == "{":
            depth += 1
        elif src[j] == "}":
            depth -= 1
            if depth == 0:
                return src[i + 1:j]
    raise GenError("%s: unbalanced braces" % what)


def _ansi_no(name, what):
    if name not in ANSI_NAMES:
        raise GenError("%s: unknown AnsiColor::%s" % (what, name))
    return ANSI_NAMES.index(name)


def _coq_rgbs(ents, per_line=6):
    return coq_list(["(%d, %d, %d)" % e for e in ents], per_line)


def gen_palette():
    lib = strip_comments(read("crates/anstyle-lossy/src/lib.rs"))
    pal = strip_comments(read("crates/anstyle-lossy/src/palette.rs"))
    col = strip_comments(read("crates/anstyle/src/color.rs"))
    for src, what in ((lib, "lib.rs"), (pal, "palette.rs")):
        if not re.search(r"use anstyle::RgbColor as Rgb;", src):
            raise GenError("%s: `use anstyle::RgbColor as Rgb;` not found" % what)
    # the two scan loops the hand model transcribes: seeded with the first candidate's own distance,
    # strict `<`, candidates in index order
    norm = lambda t: re.sub(r"\s+", "", t)
    want_pal = norm("letmutbest_index=0;letmutbest_distance=crate::distance(color,self.0[best_index]);letmutindex=best_index+1;"
                    "whileindex<self.0.len(){letdistance=crate::distance(color,self.0[index]);ifdistance<best_distance{best_index=index;best_distance=distance;}index+=1;}")
    want_xt = norm("letmutbest_index=16;letmutbest_distance=distance(color,XTERM_COLORS[best_index]);letmutindex=best_index+1;"
                   "whileindex<XTERM_COLORS.len(){letdistance=distance(color,XTERM_COLORS[index]);ifdistance<best_distance{best_index=index;best_distance=distance;}index+=1;}best_index")
    # A text that differs is not an alarm by itself (a maintainer may extract the loop into a helper): the two
    # functions are also TRANSLATED (tools/gen_fn_lossy.py -> Generated/LossyFn.v) and proved equal to the hand
    # model's scans (Proofs/LossyGen.v, c10_translated_find_match_is_model / .._find_xterm_match_is_model), so the
    # text pin falls back on "the function translator still translates them"; what they mean is then the business
    # of those proofs (C10 names both generators in gen_deps).
    if want_pal not in norm(pal) or want_xt not in norm(lib):
        which = "palette.rs: the scan loop of find_match" if want_pal not in norm(pal) else "lib.rs: the scan loop of find_xterm_match"
        fn_gen = GENERATORS.get("LossyFn")
        try:
            if fn_gen is None:
                raise GenError("no function translator")
            fn_gen()
        except GenError as e:
            raise GenError("%s no longer has the shape the model transcribes (and the function translator does not take over: %s)" % (which, e))
    m = re.search(r"const XTERM_COLORS\s*:\s*\[anstyle::RgbColor;\s*256\]\s*=\s*\[(.*?)\];", lib, re.S)
    if not m:
        raise GenError("XTERM_COLORS not found")
    xterm = _rgb_entries(m.group(1), "XTERM_COLORS", 256)
    pals = {}
    for name in ("VGA", "WIN10_CONSOLE"):
        m = re.search(r"pub const %s\s*:\s*Palette\s*=\s*Palette\(\[(.*?)\]\);" % name, pal, re.S)
        if not m:
            raise GenError("palette %s not found" % name)
        pals[name] = _rgb_entries(m.group(1), name, 16)
    if not re.search(r"type RawPalette = \[Rgb; 16\];", pal) or not re.search(r"pub struct Palette\(pub RawPalette\);", pal):
        raise GenError("Palette: not a [Rgb; 16] newtype")
    # the AnsiColor enum: exactly the 16 standard names (a colour is modelled by its ANSI number)
    em = re.search(r"pub enum AnsiColor\s*\{(.*?)\n\}", col, re.S)
    if not em:
        raise GenError("enum AnsiColor not found")
    variants = [v.strip() for v in re.sub(r"#\[[^\]]*\]", "", em.group(1)).split(",") if v.strip()]
    if sorted(variants) != sorted(ANSI_NAMES):
        raise GenError("enum AnsiColor: variants are not the 16 standard colours: %r" % variants)
    # xterm_to_ansi: 16 literal arms and the find_match default arm
    body = _fn_body(lib, r"pub const fn xterm_to_ansi\s*\([^)]*\)\s*->\s*anstyle::AnsiColor\s*\{", "xterm_to_ansi")
    mm = re.fullmatch(r"\s*match color\.0\s*\{(.*)\}\s*", body, re.S)
    if not mm:
        raise GenError("xterm_to_ansi: body is not a single match on color.0")
    arms_src = mm.group(1)
    arms = re.findall(r"(\w+)\s*=>\s*anstyle::AnsiColor::(\w+)\s*,", arms_src)
    rest = re.sub(r"\w+\s*=>\s*anstyle::AnsiColor::\w+\s*,", "", arms_src)
    if not re.fullmatch(r"\s*_\s*=>\s*\{\s*let rgb = XTERM_COLORS\[color\.0 as usize\];\s*palette\.find_match\(rgb\)\s*\}\s*,?\s*", rest, re.S):
        raise GenError("xterm_to_ansi: unexpected default arm %r" % rest.strip()[:120])
    try:
        x2a = [(rust_int(k), _ansi_no(v, "xterm_to_ansi")) for k, v in arms]
    except ValueError:
        raise GenError("xterm_to_ansi: non-literal arm pattern")
    if len(x2a) != 16 or len(set(k for k, _ in x2a)) != 16 or any(k < 0 or k > 255 for k, _ in x2a):
        raise GenError("xterm_to_ansi: expected 16 distinct literal arms")
    # Ansi256Color::into_ansi / from_ansi (anstyle/src/color.rs)
    body = _fn_body(col, r"pub const fn into_ansi\s*\(self\)\s*->\s*Option<AnsiColor>\s*\{", "into_ansi")
    mm = re.fullmatch(r"\s*match self\.index\(\)\s*\{(.*)\}\s*", body, re.S)
    if not mm:
        raise GenError("into_ansi: body is not a single match on self.index()")
    arms = re.findall(r"(\w+)\s*=>\s*Some\(AnsiColor::(\w+)\)\s*,", mm.group(1))
    rest = re.sub(r"\w+\s*=>\s*Some\(AnsiColor::\w+\)\s*,", "", mm.group(1))
    if not re.fullmatch(r"\s*_\s*=>\s*None\s*,?\s*", rest):
        raise GenError("into_ansi: unexpected default arm %r" % rest.strip()[:120])
    try:
        into = [(rust_int(k), _ansi_no(v, "into_ansi")) for k, v in arms]
    except ValueError:
        raise GenError("into_ansi: non-literal arm pattern")
    if len(set(k for k, _ in into)) != len(into) or any(k < 0 or k > 255 for k, _ in into):
        raise GenError("into_ansi: duplicate or out-of-range arm")
    body = _fn_body(col, r"pub const fn from_ansi\s*\(color:\s*AnsiColor\)\s*->\s*Self\s*\{", "from_ansi")
    mm = re.fullmatch(r"\s*match color\s*\{(.*)\}\s*", body, re.S)
    if not mm:
        raise GenError("from_ansi: body is not a single match on color")
    arms = re.findall(r"AnsiColor::(\w+)\s*=>\s*Self\((\w+)\)\s*,", mm.group(1))
    rest = re.sub(r"AnsiColor::\w+\s*=>\s*Self\(\w+\)\s*,", "", mm.group(1))
    if rest.strip():
        raise GenError("from_ansi: unexpected arm %r" % rest.strip()[:120])
    try:
        frm = {_ansi_no(k, "from_ansi"): rust_int(v) for k, v in arms}
    except ValueError:
        raise GenError("from_ansi: non-literal arm value")
    if len(arms) != 16 or sorted(frm) != list(range(16)) or any(v < 0 or v > 255 for v in frm.values()):
        raise GenError("from_ansi: expected one arm per colour")
    if not re.search(r"pub const fn index\(self\)\s*->\s*u8\s*\{\s*self\.0\s*\}", col):
        raise GenError("Ansi256Color::index: unexpected shape")
    o = [HEADER % "crates/anstyle-lossy/src/{lib.rs,palette.rs}, crates/anstyle/src/color.rs"]
    o.append("(* A 16-colour value (AnsiColor) is represented by its ANSI number: %s. *)" % ", ".join("%s=%d" % (n, i) for i, n in enumerate(ANSI_NAMES)))
    o.append("From Coq Require Import NArith List.\nImport ListNotations.\nLocal Open Scope N_scope.\n")
    o.append("Definition xterm_colors : list (N * N * N) :=\n" + _coq_rgbs(xterm) + ".\n")
    o.append("Definition vga : list (N * N * N) :=\n" + _coq_rgbs(pals["VGA"], 4) + ".\n")
    o.append("Definition win10_console : list (N * N * N) :=\n" + _coq_rgbs(pals["WIN10_CONSOLE"], 4) + ".\n")
    o.append("(* literal arms of xterm_to_ansi: (256-colour index, AnsiColor number); every other index goes to find_match *)")
    o.append("Definition xterm_to_ansi_arms : list (N * N) :=\n" + coq_list(["(%d, %d)" % a for a in x2a], 8) + ".\n")
    o.append("(* literal arms of Ansi256Color::into_ansi: (index, AnsiColor number); every other index is None *)")
    o.append("Definition into_ansi_arms : list (N * N) :=\n" + coq_list(["(%d, %d)" % a for a in into], 8) + ".\n")
    o.append("(* Ansi256Color::from_ansi, indexed by AnsiColor number *)")
    o.append("Definition from_ansi_tbl : list N :=\n" + coq_list([str(frm[i]) for i in range(16)], 16) + ".\n")
    return "\n".join(o)


