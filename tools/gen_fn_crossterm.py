#!/usr/bin/env python3
"""Function translator, third-party crate crossterm (the version /repo/Cargo.lock pins, 0.28.1): the RENDERING of a
`ContentStyle` -> coq/Generated/CrosstermFn.v (C16).  Notes: HACKING.d/crossterm_render.md.

The source is located by tools/thirdparty.py (version from Cargo.lock = the one harness/h-adapters/Cargo.lock links, the
one registry directory `crossterm-<version>`, compared with `cargo metadata --offline` in harness/h-adapters;
$VERIF_REGISTRY=<dir> takes `<dir>/crossterm-<version>` instead -- mutation tests only).

What harness/h-adapters runs on a converted value is `s.apply("x").to_string()` after `force_color_output(true)`.
TRANSLATED (tools/rs2v), over the types of Model/Crossterm.v:
  style/types/attribute.rs   the invocation of the crate's macro `Attribute!` (variant names, SGR numbers: DATA written by the
                             plug-in, the macro definition is pinned), Attribute::{bytes, sgr}
  style/attributes.rs        Attributes::{set, has, is_empty}
  style/types/colored.rs     <Colored as Display>::fmt
  style.rs                   <X as Command>::write_ansi for SetForegroundColor, SetBackgroundColor, SetUnderlineColor,
                             SetAttribute, SetAttributes, ResetColor, PrintStyledContent
  command.rs                 execute_fmt (for the non-Windows target)
  style/content_style.rs     ContentStyle::apply
  style/styled_content.rs    StyledContent::{new, content, style}, <StyledContent as Display>::fmt
and the plug-in writes `g_crossterm_render` (= `.to_string()`: Display::fmt into a fresh String, an Err is a panic).
OPAQUE (token-pinned): macros.rs `csi!` (expanded by the vocabulary), the macro definition `Attribute!`, and
Colored::{ansi_color_disabled, ansi_color_disabled_memoized, set_ansi_color_disabled} + `force_color_output` (a
parking_lot::Once and an AtomicBool): what `ansi_color_disabled_memoized()` answers is the configuration parameter `cd`
of every translated function; after the harness's `force_color_output(true)` it is `false`."""
import os
import re
import sys

sys.path.insert(0, os.path.dirname(os.path.abspath(__file__)))
from rs2v.driver import translate, TranslateError, token_hash, fn_source   # noqa: E402
from rs2v.emit import EmitError, NeedsBind                        # noqa: E402
from rs2v.rparser import parse_file, find_items, ParseError, type_name, parse_macro_args, N   # noqa: E402
from rs2v.lexer import LexError   # noqa: E402
import thirdparty   # noqa: E402

HARNESS = "h-adapters"
U8, U16, U32, USZ, BOOL, UNIT = ("int", "u8"), ("int", "u16"), ("int", "u32"), ("int", "usize"), ("bool",), ("unit",)
BYTES = ("list", U8)
COLOR, COLORED, ATTR = ("enum", "Color"), ("enum", "Colored"), ("enum", "Attribute")
ATTRS, CSTYLE, STYLED = ("struct", "Attributes"), ("struct", "ContentStyle"), ("struct", "StyledContent")
FMTRES = ("res", UNIT)
CMDS = {"SetForegroundColor": COLOR, "SetBackgroundColor": COLOR, "SetUnderlineColor": COLOR,
        "SetAttribute": ATTR, "SetAttributes": ATTRS, "PrintStyledContent": STYLED}

COLOR_VARIANTS = ["Reset", "Black", "DarkGrey", "Red", "DarkRed", "Green", "DarkGreen", "Yellow", "DarkYellow", "Blue", "DarkBlue",
                  "Magenta", "DarkMagenta", "Cyan", "DarkCyan", "White", "Grey", "Rgb", "AnsiValue"]

# hand-modelled, pinned by token hash
PINS = {
    ("src/style/types/colored.rs", "Colored", "ansi_color_disabled"): "ee6e6ddd9a02b6ad",
    ("src/style/types/colored.rs", "Colored", "ansi_color_disabled_memoized"): "d4217d06f22eb765",
    ("src/style/types/colored.rs", "Colored", "set_ansi_color_disabled"): "8e5884b9c8ef8198",
    ("src/style.rs", None, "force_color_output"): "195a2e42ddbdbc14",
}
CSI_PIN = "439ae03c5dc87b7c"
ATTR_MACRO_PIN = "4ebeb4b676d979ae"


def shape(coq, self_mode, params, ret, total=True):
    return {"coq": coq, "self": self_mode, "params": params, "ret": ret, "total": total, "cfg": False}


def squash(s):
    return re.sub(r"\s+", "", s)


# ---------------------------------------------------------------------------
# vocabulary callables

def expand_csi(a):
    """macros.rs: csi!(a, b, ..) = concat!("\\x1B[", a, b, ..) on string literals (the definition is pinned)"""
    if a.kind == "str":
        return list(a.val)
    if a.kind == "macro" and a.name.split("::")[-1] == "csi":
        out = [27, 91]
        for x in parse_macro_args(a.toks):
            if x.kind != "str":
                raise EmitError("csi!: argument is not a string literal")
            out.extend(x.val)
        return out
    raise EmitError("the format string is neither a string literal nor csi!(..)")


def m_csi(em, e, env, k):
    return k(coq_bytes(expand_csi(e)), BYTES, env)


def coq_bytes(bs):
    return "[" + "; ".join(str(b) for b in bs) + "]"


def split_format(fmt):
    """format string -> [("lit", bytes) | ("pos",) | ("name", ident)]; only `{}` and `{ident}` (no format spec)"""
    if any(b >= 128 for b in fmt):
        raise EmitError("write!: non-ASCII format string")
    out, lit, i = [], [], 0
    while i < len(fmt):
        c = fmt[i]
        if c in (123, 125) and i + 1 < len(fmt) and fmt[i + 1] == c:
            lit.append(c)
            i += 2
            continue
        if c == 125:
            raise EmitError("write!: unmatched `}`")
        if c != 123:
            lit.append(c)
            i += 1
            continue
        if 125 not in fmt[i:]:
            raise EmitError("write!: unmatched `{`")
        j = fmt.index(125, i)
        inner = bytes(fmt[i + 1:j]).decode()
        if lit:
            out.append(("lit", lit))
            lit = []
        if inner == "":
            out.append(("pos",))
        elif re.fullmatch(r"[A-Za-z_]\w*", inner):
            out.append(("name", inner))
        else:
            raise EmitError("write!: placeholder {%s} (format specs are outside the vocabulary)" % inner)
        i = j + 1
    if lit:
        out.append(("lit", lit))
    return out


def write_dest(x):
    toks = list(x.toks)
    if len(toks) < 3 or toks[0].kind != "ident" or toks[1].text != ",":
        raise EmitError("%s!: the destination is not a variable" % x.name)
    return toks[0].text


def m_write(em, e, env, k):
    """write!(f, <format string | csi!(..)>, args..) = core::fmt::write: the pieces of the format string in order, a literal
    piece is appended, `{}` of a str / String appends its bytes, of a u8 its decimal digits (ct_dec), of a value with a
    TRANSLATED Display impl (Colored) calls that `fmt` on the formatter; the first Err stops and is the value
    (Model/Crossterm.v ct_write_fmt).  `f` is the text written so far."""
    dest = write_dest(e)
    v = env.get(dest)
    if v is None or v.ty != BYTES:
        raise EmitError("write!: %s is not a formatter (text written so far)" % dest)
    args = parse_macro_args(e.toks)
    if len(args) < 2:
        raise EmitError("write! without a format string")
    pieces = split_format(expand_csi(args[1]))
    rest = list(args[2:])
    exprs = []
    for p in pieces:
        if p[0] == "pos":
            if not rest:
                raise EmitError("write!: more placeholders than arguments")
            exprs.append(rest.pop(0))
        elif p[0] == "name":
            exprs.append(N("path", segs=[p[1]]))
    if rest:
        raise EmitError("write!: more arguments than placeholders")
    place = N("path", segs=[dest])

    def k1(ts, tys, env1):
        it = iter(zip(ts, tys))
        out = []
        for p in pieces:
            if p[0] == "lit":
                out.append("ct_lit %s" % coq_bytes(p[1]))
                continue
            t, ty = next(it)
            if ty == BYTES:
                out.append("ct_lit %s" % t)
            elif ty == U8:
                out.append("ct_lit (ct_dec %s)" % t)
            elif ty[0] in ("enum", "struct") and ("%s::fmt" % ty[1]) in em.fn_shapes:
                sh = em.fn_shapes["%s::fmt" % ty[1]]
                head = sh["coq"] + ((" " + em.v["config_param"][0]) if sh.get("cfg") and em.v.get("config_param") else "")
                out.append("(fun f0 => %s %s f0)" % (head, t))
            else:
                raise EmitError("write!: `{}` of a value of type %r (no Display in the vocabulary)" % (ty,))
        if em.pure_mode:
            raise NeedsBind()
        o, r = em.fresh("o"), em.fresh("r")
        cur = env1.get(dest).coq
        return "'(%s, %s) <- ct_write_fmt [%s] %s ;;\n%s" % (
            o, r, "; ".join(out), cur, em.write_place(place, o, env1, lambda env2: k(r, FMTRES, env2)))
    return em.exprs(exprs, env, k1)


def macro_writes(em, x):
    if x.name.split("::")[-1] == "write":
        return [write_dest(x)]
    return []


def m_map_err(em, e, rt, rty, env, k):
    """`.map_err(|_| fmt::Error)` on a fmt::Result: fmt::Error is a unit struct, so the result is unchanged"""
    a = e.args[0] if len(e.args) == 1 else None
    if rty != FMTRES or a is None or a.kind != "closure":
        raise EmitError("map_err outside `fmt::Result.map_err(|_| fmt::Error)`")
    body = a.body
    while body.kind in ("paren", "block") and getattr(body, "e", None) is not None:
        body = body.e
    if not (body.kind == "path" and body.segs[-1] == "Error"):
        raise EmitError("map_err: the closure does not answer fmt::Error")
    return k(rt, rty, env)


def f_disabled(em, e, env, k):
    """Colored::ansi_color_disabled_memoized(): the configuration parameter"""
    if e.args:
        raise EmitError("ansi_color_disabled_memoized takes no argument")
    return k(em.v["config_param"][0], BOOL, env)


def m_to_string(em, e, rt, rty, env, k):
    if e.args:
        raise EmitError("to_string takes no argument")
    if rty == BYTES:
        return k(rt, BYTES, env)
    if rty in (U8, U16):
        return k("(ct_dec %s)" % rt, BYTES, env)
    raise EmitError("to_string on %r" % (rty,))


def m_same(em, e, rt, rty, env, k):
    if e.args:
        raise EmitError("%s takes no argument" % e.name)
    return k(rt, rty, env)


def arith_hook(em, op, a, b, ty, env, k):
    """String + &str"""
    if op == "+" and ty == BYTES:
        return k("(%s ++ %s)" % (a, b), BYTES, env)
    return None


def f_cmd(name):
    """the command structs `SetX(pub T)` are their field"""
    def h(em, e, env, k):
        if len(e.args) != 1:
            raise EmitError("%s(..) takes one argument" % name)

        def k1(t, ty, env1):
            if ty != CMDS[name]:
                raise EmitError("%s(%r)" % (name, ty))
            return k(t, ("struct", name), env1)
        return em.expr(e.args[0], env, k1)
    return h


def f_colored(coq):
    return shape(coq, None, [("in", COLOR)], COLORED)


# ---------------------------------------------------------------------------

def vocab(attr_names, cfg):
    v = {
        "reserved": ["k", "next", "f0", "a", "c", "s", "cd", "sc", "set", "names", "l", "acc", "t", "r", "g", "b", "n"],
        "result": {"err": "unit"},
        "for_ret_state": True,
        "cfg_static": {"windows": False},
        "checked_shl": "ct_cshl",
        "arith_hook": arith_hook,
        "no_transparent": ("into",),
        "type_alias": {"str": BYTES, "String": BYTES, "Formatter": BYTES, "Result": FMTRES, "D": BYTES, "T": BYTES},
        "opaque_types": {"fmt::Write": BYTES},
        # `let color;` in Colored::fmt is assigned in every arm that does not return: the placeholder is never read
        "deferred_init": {"Colored::fmt": {"color": (COLOR, "CtReset")}},
        "enums": {
            "Color": {"coq": "ct_color", "var": "c", "eqb": "ct_color_eqb",
                      "variants": {n: "Ct" + n for n in COLOR_VARIANTS},
                      "payload": {"AnsiValue": [U8]},
                      "struct_variants": {"Rgb": (["r", "g", "b"], [U8, U8, U8])}},
            "Colored": {"coq": "ct_colored", "var": "cl",
                        "variants": {"ForegroundColor": "CtForeground", "BackgroundColor": "CtBackground", "UnderlineColor": "CtUnderline"},
                        "payload": {"ForegroundColor": [COLOR], "BackgroundColor": [COLOR], "UnderlineColor": [COLOR]}},
            "Attribute": {"coq": "N", "var": "a", "eqb": "N.eqb", "native": False, "disc": "ct_attr_disc",
                          "variants": {n: str(i) for i, n in enumerate(attr_names)}},
        },
        "structs": {
            "Attributes": {"coq": "N", "var": "a", "fields": {"0": ("ct_attrs_f0", "ct_attrs_set_f0", U32)}},
            "ContentStyle": {"coq": "ct_style", "var": "s", "ctor": ("mkCtStyle", ["foreground_color", "background_color", "underline_color", "attributes"]), "fields": {
                "foreground_color": ("ct_fg", None, ("opt", COLOR)), "background_color": ("ct_bg", None, ("opt", COLOR)),
                "underline_color": ("ct_ul", None, ("opt", COLOR)), "attributes": ("ct_attrs", None, ATTRS)}},
            "StyledContent": {"coq": "ct_styled", "var": "sc", "ctor": ("mkCtStyled", ["style", "content"]), "fields": {
                "style": ("ct_sc_style", None, CSTYLE), "content": ("ct_sc_content", None, BYTES)}},
            "SetForegroundColor": {"coq": "ct_color", "var": "c", "fields": {"0": ("ct_cmd_f0", None, COLOR)}},
            "SetBackgroundColor": {"coq": "ct_color", "var": "c", "fields": {"0": ("ct_cmd_f0", None, COLOR)}},
            "SetUnderlineColor": {"coq": "ct_color", "var": "c", "fields": {"0": ("ct_cmd_f0", None, COLOR)}},
            "SetAttribute": {"coq": "N", "var": "a", "fields": {"0": ("ct_cmd_f0", None, ATTR)}},
            "SetAttributes": {"coq": "N", "var": "a", "fields": {"0": ("ct_cmd_f0", None, ATTRS)}},
            "PrintStyledContent": {"coq": "ct_styled", "var": "sc", "fields": {"0": ("ct_cmd_f0", None, STYLED)}},
            "ResetColor": {"coq": "unit", "var": "rc", "fields": {}},
        },
        "consts": {"SGR": ("g_ct_SGR", ("list", U16)), "ResetColor": ("tt", ("struct", "ResetColor"))},
        "fns": {
            "Colored::ForegroundColor": f_colored("CtForeground"),
            "Colored::BackgroundColor": f_colored("CtBackground"),
            "Colored::UnderlineColor": f_colored("CtUnderline"),
            "Attribute::iterator": shape("g_ct_attr_iterator", None, [], ("list", ATTR)),
            "Self::ansi_color_disabled_memoized": f_disabled,
            "Colored::ansi_color_disabled_memoized": f_disabled,
        },
        "methods": {
            ("list", "write_str"): shape("ct_write_str", "inout", [("in", BYTES)], FMTRES),
            ("res", "map_err"): m_map_err,
            ("list", "to_string"): m_to_string,
            ("int", "to_string"): m_to_string,
            ("list", "as_str"): m_same,
        },
        "macros": {"write": m_write, "csi": m_csi},
        "macro_writes": macro_writes,
        "opaque": {},
    }
    for name in CMDS:
        v["fns"][name] = f_cmd(name)
    if cfg:
        v["config_param"] = ("cd", "bool")
    return v


HEADER = ("(* GENERATED by tools/gen_fn_crossterm.py (tools/rs2v) from the cargo registry source of the third-party crate\n"
          "   crossterm %s (src/{style.rs,command.rs,style/*.rs,style/types/*.rs}; version pinned by Cargo.lock) -- do not edit *)")
REQ = """From Coq Require Import NArith List Bool.
From AV Require Import Spec.Sgr Spec.Targets Model.Base Model.Imp Model.Crossterm.
Import ListNotations.
Local Open Scope N_scope.
Local Open Scope bool_scope."""


def check_enum(items, name, expected):
    ens = find_items(items, "enum", name)
    if len(ens) != 1:
        raise TranslateError("enum %s: %d definitions" % (name, len(ens)))
    got = []
    for vname, payload, disc, _attrs in ens[0].variants:
        if disc is not None:
            raise TranslateError("enum %s::%s: explicit discriminant" % (name, vname))
        got.append((vname, payload if payload == "struct" else ([squash(type_name(t) or "?") for t in payload] if payload else [])))
    if got != expected:
        raise TranslateError("enum %s: variants %r, the vocabulary models %r" % (name, got, expected))


def macro_def(src, name, what):
    """text of `macro_rules! <name> { .. }`"""
    m = re.search(r"macro_rules!\s*%s\s*\{" % re.escape(name), src)
    if not m:
        raise TranslateError("%s: macro_rules! %s not found" % (what, name))
    i = m.end() - 1
    depth = 0
    for j in range(i, len(src)):
        if src[j] == "{":
            depth += 1
        elif src[j] == "}":
            depth -= 1
            if depth == 0:
                return src[m.start():j + 1]
    raise TranslateError("%s: macro_rules! %s: unbalanced" % (what, name))


def attribute_table(gm, src):
    """the invocation `Attribute! { Name = sgr, .. }` of attribute.rs (after the macro definition): [(name, sgr)]"""
    text = gm.strip_comments(src)
    d = macro_def(text, "Attribute", "attribute.rs")
    rest = text[text.index(d) + len(d):]
    m = re.search(r"\bAttribute!\s*\{([^{}]*)\}", rest)
    if not m or len(re.findall(r"\bAttribute!\s*\{", rest)) != 1:
        raise TranslateError("attribute.rs: not exactly one invocation `Attribute! { .. }`")
    out = []
    for ent in m.group(1).split(","):
        ent = ent.strip()
        if not ent:
            continue
        mm = re.fullmatch(r"([A-Z]\w*)\s*=\s*(\d+)", ent)
        if not mm:
            raise TranslateError("attribute.rs: entry `%s` of Attribute! is not `Name = <non-negative literal>`" % ent)
        out.append((mm.group(1), int(mm.group(2))))
    if not out or len(set(n for n, _ in out)) != len(out):
        raise TranslateError("attribute.rs: empty / repeated names in Attribute!")
    return d, out


def register(generators, gm):
    def gen():
        try:
            version, _dir = thirdparty.crate_dir(gm, "crossterm", HARNESS)

            def rd(rel):
                return thirdparty.read_crate(gm, "crossterm", rel, HARNESS)
            attr_rs = rd("src/style/types/attribute.rs")
            attrs_rs = rd("src/style/attributes.rs")
            colored_rs = rd("src/style/types/colored.rs")
            color_rs = rd("src/style/types/color.rs")
            style_rs = rd("src/style.rs")
            command_rs = rd("src/command.rs")
            cstyle_rs = rd("src/style/content_style.rs")
            styled_rs = rd("src/style/styled_content.rs")
            macros_rs = rd("src/macros.rs")
            srcs = {"src/style/types/colored.rs": colored_rs, "src/style.rs": style_rs}
            # ---- pins
            for (f, impl, fn), want in PINS.items():
                h = token_hash(fn_source(srcs[f], fn, impl))
                if h != want:
                    raise TranslateError("%s %s%s changed (token hash %s, pinned %s): it is modelled by hand (the configuration parameter cd) and must be re-read"
                                         % (f, (impl + "::") if impl else "", fn, h, want))
            h = token_hash(macro_def(gm.strip_comments(macros_rs), "csi", "macros.rs"))
            if h != CSI_PIN:
                raise TranslateError("macros.rs: macro_rules! csi changed (token hash %s, pinned %s): the vocabulary expands it by hand" % (h, CSI_PIN))
            mdef, table = attribute_table(gm, attr_rs)
            h = token_hash(mdef)
            if h != ATTR_MACRO_PIN:
                raise TranslateError("attribute.rs: macro_rules! Attribute changed (token hash %s, pinned %s): the plug-in expands it by hand" % (h, ATTR_MACRO_PIN))
            # ---- the data types the vocabulary models
            try:
                check_enum(parse_file(color_rs), "Color",
                           [(n, "struct" if n == "Rgb" else (["u8"] if n == "AnsiValue" else [])) for n in COLOR_VARIANTS])
                check_enum(parse_file(colored_rs), "Colored", [("ForegroundColor", ["Color"]), ("BackgroundColor", ["Color"]), ("UnderlineColor", ["Color"])])
            except (ParseError, LexError) as e:
                raise TranslateError("parse error: %s" % e)
            sq = squash(gm.strip_comments(color_rs))
            if "Rgb{r:u8,g:u8,b:u8}," not in sq:
                raise TranslateError("color.rs: `Rgb { r: u8, g: u8, b: u8 }` not found")
            if "#[derive(Copy,Clone,Debug,PartialEq,Eq,Ord,PartialOrd,Hash)]pubenumColor{" not in sq or re.search(r"impl(<[^>]*>)?PartialEq(<[^>]*>)?forColor", sq):
                raise TranslateError("color.rs: `==` on Color is not the derived one")
            sq = squash(gm.strip_comments(style_rs))
            for name in CMDS:
                want = "pubstruct%s%s(pub%s);" % (name, "<D:Display>" if name == "PrintStyledContent" else "",
                                               {"PrintStyledContent": "StyledContent<D>"}.get(name, CMDS[name][1]))
                if want not in sq:
                    raise TranslateError("style.rs: `%s` not found" % want)
            if "pubstructResetColor;" not in sq:
                raise TranslateError("style.rs: `pub struct ResetColor;` not found")
            names = [n for n, _ in table]
            out = []
            out.append("(* the invocation `Attribute! { Name = sgr, .. }` of style/types/attribute.rs: the variants of `enum Attribute` in\n"
                       "   declaration order (an Attribute is its position in this list), `static SGR`, `Attribute::iterator()` *)")
            out.append("Definition g_ct_attr_names : list (list N) := [\n%s\n]." % ";\n".join(
                "  %s (* %d %s = %d *)" % (coq_bytes(list(n.encode())), i, n, s) for i, (n, s) in enumerate(table)))
            out.append("Definition g_ct_SGR : list N := %s." % coq_bytes([s for _, s in table]))
            out.append("Definition g_ct_attr_iterator : list N := %s.\n" % coq_bytes(list(range(len(table)))))
            shapes = {}
            check_none = {n: dict(st, check=False) for n, st in vocab(names, False)["structs"].items()}

            def voc(cfg, checked):
                v = vocab(names, cfg)
                v["structs"] = {n: dict(st, check=(n in checked)) for n, st in check_none.items()}
                return v
            text = [translate(attr_rs, voc(False, []), [
                ("bytes", "Attribute", "g_ct_attr_bytes", {}),
                ("sgr", "Attribute", "g_ct_attr_sgr", {}),
            ], HEADER % version, REQ + "\n\n" + "\n".join(out), shapes)]
            text.append(translate(attrs_rs, voc(False, ["Attributes"]), [
                ("set", "Attributes", "g_ct_attrs_set", {}),
                ("has", "Attributes", "g_ct_attrs_has", {}),
                ("is_empty", "Attributes", "g_ct_attrs_is_empty", {}),
            ], "", "", shapes))
            text.append(translate(colored_rs, voc(True, []), [
                ("fmt", "Colored", "g_ct_colored_fmt", {"trait": "Display"}),
            ], "", "", shapes))
            text.append(translate(styled_rs, voc(True, ["StyledContent"]), [
                ("new", "StyledContent", "g_ct_styled_new", {}),
                ("content", "StyledContent", "g_ct_styled_content", {}),
                ("style", "StyledContent", "g_ct_styled_style", {}),
            ], "", "", shapes))
            text.append(translate(cstyle_rs, voc(True, ["ContentStyle"]), [
                ("apply", "ContentStyle", "g_ct_apply", {}),
            ], "", "", shapes))
            v = voc(True, [])
            v["inline_sources"] = [command_rs]
            cmd_targets = [("write_ansi", n, "g_ct_%s_write_ansi" % c, {"trait": "Command"}) for n, c in (
                ("SetForegroundColor", "set_fg"), ("SetBackgroundColor", "set_bg"), ("SetUnderlineColor", "set_ul"),
                ("SetAttribute", "set_attr"), ("SetAttributes", "set_attrs"), ("ResetColor", "reset_color"))]
            text.append(translate(style_rs, v, cmd_targets, "", "", shapes))
            text.append(translate(style_rs, v, [
                ("write_ansi", "PrintStyledContent", "g_ct_print_styled_write_ansi", {"trait": "Command"}),
            ], "", "", shapes))
            v2 = voc(True, [])
            v2["inline_sources"] = [command_rs]
            text.append(translate(styled_rs, v2, [
                ("fmt", "StyledContent", "g_ct_styled_fmt", {"trait": "Display"}),
            ], "", "", shapes))
            text.append(
                "(* harness/h-adapters: `s.apply(\"x\").to_string()` -- ToString: Display::fmt into a fresh String, an Err is a panic *)\n"
                "Definition g_crossterm_render_str (cd : bool) (s : ct_style) (content : list N) : option (list N) :=\n"
                "  %s\n"
                "  '(f, r) <- g_ct_styled_fmt cd sc [] ;;\n"
                "  match r with inl _ => Some f | inr _ => None end.\n\n"
                "(* ... after `force_color_output(true)`, of the one-character text \"x\" *)\n"
                "Definition g_crossterm_render (s : ct_style) : option (list N) := g_crossterm_render_str false s [120].\n\n"
                "(* the abstract target style (constructors / attributes by name) as a crossterm value: every name through the\n"
                "   TRANSLATED `Attributes::set` from `Attributes::default()` *)\n"
                "Definition g_ct_of_tstyle (t : ad_tstyle) : option ct_style := ct_of_tstyle g_ct_attrs_set g_ct_attr_names t.\n"
                % ("let sc := g_ct_apply cd s content in" if shapes["ContentStyle::apply"].get("total") else "sc <- g_ct_apply cd s content ;;"))
            return "\n".join(text) + "\n"
        except TranslateError as e:
            raise gm.GenError(str(e))
        except KeyError as e:
            raise gm.GenError("function not found: %s" % e)
    generators["CrosstermFn"] = gen
