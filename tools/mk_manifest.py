#!/usr/bin/env python3
"""Writes MANIFEST.json from the per-property table below (kept in one place so
that the manifest is always valid)."""
import json
import os

HERE = os.path.dirname(os.path.dirname(os.path.abspath(__file__)))

CLAIMED = {
    "C01": {
        "text": "Coq theorems about a hand model of the two-phase strip scanners (next_str / next_bytes, as repaired) against an independent byte-level "
                "specification built on the by-range VT model (Spec/Strip.v); the state table is translated on every run and proved equal to the by-range spec by "
                "complete enumeration. Tie: differential execution of strip_bytes / strip_str (pieces with offsets and concatenations) vs extracted model and spec.",
        "design_ref": "DESIGN.md section 6, C01",
        "note": "Trusted: Coq kernel, translator, extraction, OCaml driver, Rust harness; utf8parse transcribed and tied by correspondence.",
        "technique": "Coq proof (model = spec for all byte strings, finite table facts by kernel enumeration) + translator + differential correspondence",
    },
    "C03": {
        "text": "Coq theorems that the strip machines are folds and that each incremental iterator leaves exactly the fold state behind, hence chunked = one-shot for "
                "every partition; tie by differential execution of StripBytes / StripStr over all 2^(n-1) partitions of short inputs and random partitions of long ones.",
        "design_ref": "DESIGN.md section 6, C03",
        "note": "Trusted: Coq kernel, translator, extraction, OCaml driver, Rust harness; text API chunks are valid UTF-8 by type.",
        "technique": "Coq proof (fold law + iterator-leaves-fold-state, all chunkings) + translator + differential correspondence",
    },
    "C02": {
        "text": "Machine-checked Coq theorems about a hand model of Parser::advance (bounds-checked arrays, saturating arithmetic, early returns) "
                "against an independent by-range specification of Williams' parser with the four documented deviations; the 16x256 table is "
                "translated from table.rs on every run and proved equal to the by-range spec by complete enumeration in the kernel. The model is tied "
                "to the code by differential execution (extracted model and spec vs the real crate).",
        "design_ref": "DESIGN.md section 6, C02",
        "note": "Trusted: Coq kernel (vm_compute), translator for the table/discriminants/limits, extraction (ExtrOcamlBasic), OCaml driver, Rust harness; "
                "utf8parse is transcribed and tied by correspondence only.",
        "technique": "Coq proof (table = by-range spec by kernel enumeration; parser refinement) + translator + differential correspondence",
    },
    "C11": {
        "text": "Coq theorems about a hand model of anstyle_git::parse / parse_color (split_whitespace, lower-casing, keyword arms, colour names, '#' words with byte "
                "length, ASCII-hex check, byte slicing that can panic, u8::from_str_radix / parse::<u8> as std defines them) against an independent grammar and denotation "
                "(Spec/GitSyntax.v): model = spec for every input string wherever the statement decides (accept with the denoted style, or the error naming the first "
                "offending word), grammar acceptance in generative form (any letter case, any White_Space layout), unknown-word / extra-colour / bad '#' word rejection, "
                "no panic for all inputs, print-parse round trip for every expressible style. The keyword and colour-name arms are translated from lib.rs on every run. "
                "Tie: differential execution of the real crate vs the extracted model and spec (exhaustive vocabulary combinations and '#' words, grammar, mutants, "
                "near-miss numbers, Unicode), plus a scan of all of char for std's White_Space set and lower-case exceptions.",
        "design_ref": "DESIGN.md section 6, C11",
        "note": "Left open by the statement and excluded by an explicit hypothesis / from the generators: '+'-prefixed numbers (accepted by Rust), words spelt with U+212A or U+0130 "
                "(Unicode lower case holds an ASCII letter; the model lower-cases ASCII only). Trusted: Coq kernel, translator (tools/gen_text.py), extraction, OCaml driver "
                "(incl. UTF-8 decoding of case inputs), Rust harness; the Rust std operations are transcribed in Model/Text.v and tied by correspondence.",
        "technique": "Coq proof (model = spec for all strings; finite table facts by kernel enumeration) + translator + differential correspondence",
    },
    "C12": {
        "text": "Coq theorems about a hand model of anstyle_ls::parse (early return on \"\", \"0\", \"00\"; split(';') with all-or-nothing parse::<u8>; the VecDeque loop "
                "with pop_front look-ahead for 38/48/58 and break on truncation) against an independent left-to-right SGR semantics written from ECMA-48 / xterm "
                "(Spec/SgrCodes.v): for every well-formed code list of any length, printed with any number of leading zeros, parse = fold of the SGR codes over the default "
                "style (None exactly for \"0\"/\"00\"); rejection of every list with an empty field, a non-digit or a value above 255; no panic; and model = spec for every "
                "input string wherever the statement decides. The ~60 match arms are translated from lib.rs on every run and checked against the spec code by code by kernel "
                "enumeration. Tie: differential execution of the real crate vs extracted model and spec (all lists of <= 2 (quick) / 3 (thorough) atoms over 0..=110 plus "
                "extended forms, random well-formed lists, malformed inputs).",
        "design_ref": "DESIGN.md section 6, C12",
        "note": "Left open by the statement: '+'-prefixed fields (accepted by Rust's parse::<u8>) and 38/48/58 not followed by a complete ;5;n / ;2;r;g;b form (the crate "
                "stops there and keeps the style so far); both are outside the theorems' domain by explicit hypotheses, the spec side answers N/A, model = code is still "
                "compared. Trusted: Coq kernel (vm_compute), translator (tools/gen_text.py), extraction, OCaml driver, Rust harness; str::split / parse::<u8> transcribed in "
                "Model/Text.v and tied by correspondence.",
        "technique": "Coq proof (parse = left fold for all code lists; per-code table facts by kernel enumeration) + translator + differential correspondence",
    },
}

NOT_YET = {
}

ALL = ["C%02d" % i for i in range(1, 21)]


def main():
    checks = []
    for pid in ALL:
        if pid not in CLAIMED:
            continue
        c = CLAIMED[pid]
        checks.append({
            "property_id": pid,
            "quick_cmd": "./check %s --tier quick" % pid,
            "thorough_cmd": "./check %s --tier thorough" % pid,
            "evidence_file": "/verif/evidence/%s.json" % pid,
            "replay_cmd_template": "./check %s --replay {path}" % pid,
            "engine": "coq-correspondence",
            "level_claimed": {"category": "proof", "text": c["text"], "design_ref": c["design_ref"]},
            "level_note": c["note"],
            "technique": c["technique"],
        })
    na = []
    for pid in ALL:
        if pid not in CLAIMED:
            na.append({"property_id": pid, "reason": NOT_YET.get(pid, "check not built yet in this revision (planned, see DESIGN.md section 6); nothing is claimed for it")})
    m = {
        "version": 1,
        "setup_cmd": "./check --setup",
        "hooks": {
            "guard": "rust_cli_anstyle_verif",
            "enable": "none needed: no hook commits exist in /repo; private/sealed anstream code is reached by the harness including the working-tree sources (DESIGN.md section 4)",
            "baseline_off_cmd": "cd /repo && cargo test --workspace --no-fail-fast --offline",
            "source_commits": [],
            "add_only": True,
        },
        "engines": [{
            "name": "coq-correspondence",
            "path": "/verif/check",
            "serves_properties": sorted(CLAIMED),
            "kind_free_text": "Coq 8.16 theorems over hand models + translated tables (coq/), tied to /repo by tools/gen_model.py and by differential execution of the extracted models (ocaml/) against Rust harnesses (harness/)",
        }],
        "checks": checks,
        "not_applicable": na,
        "notes": "See DESIGN.md. known_findings.txt lists recorded findings and fixed defects.",
    }
    with open(os.path.join(HERE, "MANIFEST.json"), "w") as f:
        json.dump(m, f, indent=1)
        f.write("\n")


if __name__ == "__main__":
    main()
