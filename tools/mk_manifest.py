#!/usr/bin/env python3
"""Writes MANIFEST.json from the per-property table below (kept in one place so
that the manifest is always valid)."""
import json
import os

HERE = os.path.dirname(os.path.dirname(os.path.abspath(__file__)))

CLAIMED = {
    "C01": {
        "text": "Coq theorems about a hand model of the two-phase strip scanners (next_str / next_bytes, as repaired) against an independent byte-level "
                "specification built on the by-range VT model (Spec/Strip.v); the state table is translated on every run and proved equal to the by-range spec by "
                "complete enumeration. Tie: differential execution of strip_bytes / strip_str (pieces with offsets and concatenations) vs extracted model and spec.",
        "design_ref": "DESIGN.md section 6, C01",
        "note": "Trusted: Coq kernel, translator, extraction, OCaml driver, Rust harness; utf8parse transcribed and tied by correspondence.",
        "technique": "Coq proof (model = spec for all byte strings, finite table facts by kernel enumeration) + translator + differential correspondence",
    },
    "C03": {
        "text": "Coq theorems that the strip machines are folds and that each incremental iterator leaves exactly the fold state behind, hence chunked = one-shot for "
                "every partition; tie by differential execution of StripBytes / StripStr over all 2^(n-1) partitions of short inputs and random partitions of long ones.",
        "design_ref": "DESIGN.md section 6, C03",
        "note": "Trusted: Coq kernel, translator, extraction, OCaml driver, Rust harness; text API chunks are valid UTF-8 by type.",
        "technique": "Coq proof (fold law + iterator-leaves-fold-state, all chunkings) + translator + differential correspondence",
    },
    "C02": {
        "text": "Machine-checked Coq theorems about a hand model of Parser::advance (bounds-checked arrays, saturating arithmetic, early returns) "
                "against an independent by-range specification of Williams' parser with the four documented deviations; the 16x256 table is "
                "translated from table.rs on every run and proved equal to the by-range spec by complete enumeration in the kernel. The model is tied "
                "to the code by differential execution (extracted model and spec vs the real crate).",
        "design_ref": "DESIGN.md section 6, C02",
        "note": "Trusted: Coq kernel (vm_compute), translator for the table/discriminants/limits, extraction (ExtrOcamlBasic), OCaml driver, Rust harness; "
                "utf8parse is transcribed and tied by correspondence only.",
        "technique": "Coq proof (table = by-range spec by kernel enumeration; parser refinement) + translator + differential correspondence",
    },
    "C10": {
        "text": "Machine-checked Coq theorems about a hand model of anstyle-lossy (distance with every i32 intermediate range-checked, the find_match / find_xterm_match "
                "scan loops carrying (best_index, best_distance), the eight public conversions, Palette::get / Index / rgb_from_index): for every RGB colour and EVERY "
                "16-entry palette the distance never overflows, lies in [0, 2^31) and is 0 exactly on equal colours; rgb_to_ansi / rgb_to_xterm / xterm_to_ansi return the "
                "lowest index of minimal red-mean distance (candidates 16..255 for the 256 target, proved equal to the standard xterm cube and grey ramp); an exact entry maps "
                "to the lowest index holding it; same-kind conversions are identities; indices 0-15 are the user palette; no conversion panics; model = executable spec. "
                "XTERM_COLORS, VGA, WIN10_CONSOLE and the arms of xterm_to_ansi / into_ansi / from_ansi are translated on every run. Tie: differential execution of the real "
                "crate vs extracted model and an independent minimum-search spec (quick: 2*10^5 colours x 10 palettes; thorough: all 2^24 colours x both shipped palettes, "
                "2^20 colours for the 256 target).",
        "design_ref": "DESIGN.md section 6, C10",
        "note": "Trusted: Coq kernel (vm_compute for the shipped-table facts), translator, extraction (ExtrOcamlBasic), OCaml driver, Rust harness h-lossy. The distance is specified "
                "on the crate's own integer scale; relative to the cited compuphase formula the crate halves the green weight (recorded in Spec/Lossy.v and Proofs/Lossy.v "
                "green_weight_deviation_witness); the property text does not fix the weights. The private `distance` function is tied only through the results it induces.",
        "technique": "Coq proof (generic first-minimum fold lemma, nia/lia range arithmetic, kernel enumeration for table facts) + translator + differential correspondence",
    },
}

NOT_YET = {
}

ALL = ["C%02d" % i for i in range(1, 21)]


def main():
    checks = []
    for pid in ALL:
        if pid not in CLAIMED:
            continue
        c = CLAIMED[pid]
        checks.append({
            "property_id": pid,
            "quick_cmd": "./check %s --tier quick" % pid,
            "thorough_cmd": "./check %s --tier thorough" % pid,
            "evidence_file": "/verif/evidence/%s.json" % pid,
            "replay_cmd_template": "./check %s --replay {path}" % pid,
            "engine": "coq-correspondence",
            "level_claimed": {"category": "proof", "text": c["text"], "design_ref": c["design_ref"]},
            "level_note": c["note"],
            "technique": c["technique"],
        })
    na = []
    for pid in ALL:
        if pid not in CLAIMED:
            na.append({"property_id": pid, "reason": NOT_YET.get(pid, "check not built yet in this revision (planned, see DESIGN.md section 6); nothing is claimed for it")})
    m = {
        "version": 1,
        "setup_cmd": "./check --setup",
        "hooks": {
            "guard": "rust_cli_anstyle_verif",
            "enable": "none needed: no hook commits exist in /repo; private/sealed anstream code is reached by the harness including the working-tree sources (DESIGN.md section 4)",
            "baseline_off_cmd": "cd /repo && cargo test --workspace --no-fail-fast --offline",
            "source_commits": [],
            "add_only": True,
        },
        "engines": [{
            "name": "coq-correspondence",
            "path": "/verif/check",
            "serves_properties": sorted(CLAIMED),
            "kind_free_text": "Coq 8.16 theorems over hand models + translated tables (coq/), tied to /repo by tools/gen_model.py and by differential execution of the extracted models (ocaml/) against Rust harnesses (harness/)",
        }],
        "checks": checks,
        "not_applicable": na,
        "notes": "See DESIGN.md. known_findings.txt lists recorded findings and fixed defects.",
    }
    with open(os.path.join(HERE, "MANIFEST.json"), "w") as f:
        json.dump(m, f, indent=1)
        f.write("\n")


if __name__ == "__main__":
    main()
