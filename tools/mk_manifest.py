#!/usr/bin/env python3
"""Writes MANIFEST.json from the per-property fragments manifest.d/Cxx.json."""
import json
import os

HERE = os.path.dirname(os.path.dirname(os.path.abspath(__file__)))

def load_claimed():
    """one JSON fragment per claimed property in manifest.d/ (text, design_ref, note, technique)"""
    d = os.path.join(HERE, "manifest.d")
    out = {}
    for fn in sorted(os.listdir(d)):
        if fn.endswith(".json"):
            out[fn[:-5]] = json.load(open(os.path.join(d, fn)))
    return out


CLAIMED = load_claimed()

NOT_YET = {
}

ALL = ["C%02d" % i for i in range(1, 21)]


def main():
    checks = []
    for pid in ALL:
        if pid not in CLAIMED:
            continue
        c = CLAIMED[pid]
        checks.append({
            "property_id": pid,
            "quick_cmd": "./check %s --tier quick" % pid,
            "thorough_cmd": "./check %s --tier thorough" % pid,
            "evidence_file": "/verif/evidence/%s.json" % pid,
            "replay_cmd_template": "./check %s --replay {path}" % pid,
            "engine": "coq-correspondence",
            "level_claimed": {"category": "proof", "text": c["text"], "design_ref": c["design_ref"]},
            "level_note": c["note"],
            "technique": c["technique"],
        })
    na = []
    for pid in ALL:
        if pid not in CLAIMED:
            na.append({"property_id": pid, "reason": NOT_YET.get(pid, "check not built yet in this revision (planned, see DESIGN.md section 6); nothing is claimed for it")})
    m = {
        "version": 1,
        "setup_cmd": "./check --setup",
        "hooks": {
            "guard": "rust_cli_anstyle_verif",
            "enable": "none needed: no hook commits exist in /repo; private/sealed anstream code is reached by the harness including the working-tree sources (DESIGN.md section 4)",
            "baseline_off_cmd": "cd /repo && cargo test --workspace --no-fail-fast --offline",
            "source_commits": [],
            "add_only": True,
        },
        "engines": [{
            "name": "coq-correspondence",
            "path": "/verif/check",
            "serves_properties": sorted(CLAIMED),
            "kind_free_text": "Coq 8.16 theorems over hand models + translated tables (coq/), tied to /repo by tools/gen_model.py and by differential execution of the extracted models (ocaml/) against Rust harnesses (harness/)",
        }],
        "checks": checks,
        "not_applicable": na,
        "notes": "See DESIGN.md. known_findings.txt lists recorded findings and fixed defects.",
    }
    with open(os.path.join(HERE, "MANIFEST.json"), "w") as f:
        json.dump(m, f, indent=1)
        f.write("\n")


if __name__ == "__main__":
    main()
