#!/usr/bin/env python3
"""Writes MANIFEST.json from the per-property table below (kept in one place so
that the manifest is always valid)."""
import json
import os

HERE = os.path.dirname(os.path.dirname(os.path.abspath(__file__)))

CLAIMED = {
    "C01": {
        "text": "Coq theorems about a hand model of the two-phase strip scanners (next_str / next_bytes, as repaired) against an independent byte-level "
                "specification built on the by-range VT model (Spec/Strip.v); the state table is translated on every run and proved equal to the by-range spec by "
                "complete enumeration. Tie: differential execution of strip_bytes / strip_str (pieces with offsets and concatenations) vs extracted model and spec.",
        "design_ref": "DESIGN.md section 6, C01",
        "note": "Trusted: Coq kernel, translator, extraction, OCaml driver, Rust harness; utf8parse transcribed and tied by correspondence.",
        "technique": "Coq proof (model = spec for all byte strings, finite table facts by kernel enumeration) + translator + differential correspondence",
    },
    "C03": {
        "text": "Coq theorems that the strip machines are folds and that each incremental iterator leaves exactly the fold state behind, hence chunked = one-shot for "
                "every partition; tie by differential execution of StripBytes / StripStr over all 2^(n-1) partitions of short inputs and random partitions of long ones.",
        "design_ref": "DESIGN.md section 6, C03",
        "note": "Trusted: Coq kernel, translator, extraction, OCaml driver, Rust harness; text API chunks are valid UTF-8 by type.",
        "technique": "Coq proof (fold law + iterator-leaves-fold-state, all chunkings) + translator + differential correspondence",
    },
    "C02": {
        "text": "Machine-checked Coq theorems about a hand model of Parser::advance (bounds-checked arrays, saturating arithmetic, early returns) "
                "against an independent by-range specification of Williams' parser with the four documented deviations; the 16x256 table is "
                "translated from table.rs on every run and proved equal to the by-range spec by complete enumeration in the kernel. The model is tied "
                "to the code by differential execution (extracted model and spec vs the real crate).",
        "design_ref": "DESIGN.md section 6, C02",
        "note": "Trusted: Coq kernel (vm_compute), translator for the table/discriminants/limits, extraction (ExtrOcamlBasic), OCaml driver, Rust harness; "
                "utf8parse is transcribed and tied by correspondence only.",
        "technique": "Coq proof (table = by-range spec by kernel enumeration; parser refinement) + translator + differential correspondence",
    },
    "C13": {
        "text": "Machine-checked Coq theorems about a hand model of Effects (u16 bit set: insert/remove/contains/set/clear/is_plain, both index-loop iterators, Debug), "
                "Style (setters, getters, convenience methods, |, -, |=, -= and == with Effects, From<Effects>, is_plain) and the AnsiColor/Ansi256Color conversions. "
                "The set laws are proved for every set by bitwise reasoning (no enumeration of sets); iteration = the members in declaration order, sorted, duplicate-free, "
                "union = the set; Debug = the names of exactly the members; the model equals an independent executable set-theoretic specification on characteristic vectors; "
                "the 16-colour and 256-index facts by complete enumeration in the kernel. The effect bit constants, METADATA, the 16-arm match tables, the convenience-method "
                "table and the shape of both iterator loops are translated from effect.rs/color.rs/style.rs on every run. The hand model is tied to the code by differential "
                "execution: all 4096 sets, 4096x12 singletons, 10^5 seeded pairs (quick), all 4096x4096 pairs (thorough, digests), all 16 colours, all 256 indices, seeded styles.",
        "design_ref": "DESIGN.md section 6, C13",
        "note": "Trusted: Coq kernel (vm_compute), translator, extraction (ExtrOcamlBasic), OCaml driver, Rust harness (reads the raw u16 through the derived Hash; "
                "names a set by its mask over the twelve public constants, proved to be the identity for the translated constants).",
        "technique": "Coq proof (bitwise set laws for all sets, finite colour tables by kernel enumeration, model = set-theoretic spec) + translator + differential correspondence",
    },
}

NOT_YET = {
}

ALL = ["C%02d" % i for i in range(1, 21)]


def main():
    checks = []
    for pid in ALL:
        if pid not in CLAIMED:
            continue
        c = CLAIMED[pid]
        checks.append({
            "property_id": pid,
            "quick_cmd": "./check %s --tier quick" % pid,
            "thorough_cmd": "./check %s --tier thorough" % pid,
            "evidence_file": "/verif/evidence/%s.json" % pid,
            "replay_cmd_template": "./check %s --replay {path}" % pid,
            "engine": "coq-correspondence",
            "level_claimed": {"category": "proof", "text": c["text"], "design_ref": c["design_ref"]},
            "level_note": c["note"],
            "technique": c["technique"],
        })
    na = []
    for pid in ALL:
        if pid not in CLAIMED:
            na.append({"property_id": pid, "reason": NOT_YET.get(pid, "check not built yet in this revision (planned, see DESIGN.md section 6); nothing is claimed for it")})
    m = {
        "version": 1,
        "setup_cmd": "./check --setup",
        "hooks": {
            "guard": "rust_cli_anstyle_verif",
            "enable": "none needed: no hook commits exist in /repo; private/sealed anstream code is reached by the harness including the working-tree sources (DESIGN.md section 4)",
            "baseline_off_cmd": "cd /repo && cargo test --workspace --no-fail-fast --offline",
            "source_commits": [],
            "add_only": True,
        },
        "engines": [{
            "name": "coq-correspondence",
            "path": "/verif/check",
            "serves_properties": sorted(CLAIMED),
            "kind_free_text": "Coq 8.16 theorems over hand models + translated tables (coq/), tied to /repo by tools/gen_model.py and by differential execution of the extracted models (ocaml/) against Rust harnesses (harness/)",
        }],
        "checks": checks,
        "not_applicable": na,
        "notes": "See DESIGN.md. known_findings.txt lists recorded findings and fixed defects.",
    }
    with open(os.path.join(HERE, "MANIFEST.json"), "w") as f:
        json.dump(m, f, indent=1)
        f.write("\n")


if __name__ == "__main__":
    main()
