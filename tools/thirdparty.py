#!/usr/bin/env python3
"""Locating the source of a THIRD-PARTY crate (outside /repo) for the function translators
(tools/gen_fn_cansi.py, tools/gen_fn_roffcrate.py).

The version is the one /repo/Cargo.lock pins (read through gm.read, so $VERIF_REPO applies); the
source is the directory `<name>-<version>` of the local cargo registry (~/.cargo/registry/src/*/).
It must exist exactly once (GEN-ERROR otherwise), the lock file of the harness that links the crate
(harness/h-roff/Cargo.lock) must name the same version, and `cargo metadata --offline` run in that
harness must resolve the package to that very directory: what is translated is what is linked into
the differential runs.

$VERIF_REGISTRY=<dir> (mutation tests only): take `<dir>/<name>-<version>` instead of the cargo
registry; the cargo-metadata comparison is skipped then (the edited copy is not what cargo links).

READS collects (crate, version, relative path, absolute path) of every file handed out, for
tools/inventory.py."""
import glob
import json
import os
import re
import subprocess

HERE = os.path.dirname(os.path.abspath(__file__))
HARNESS = os.path.join(HERE, "..", "harness", "h-roff")
READS = []
_meta = {}


def _hdir(harness):
    """directory of the harness crate that links the third-party crate (default h-roff; optional argument
    `harness="h-adapters"` of crate_dir / read_crate / crate_features for the libraries of C16)"""
    return os.path.join(HERE, "..", "harness", harness)


def lock_version(text, name, what):
    vs = re.findall(r'\[\[package\]\]\s*\nname = "%s"\s*\nversion = "([^"]+)"' % re.escape(name), text)
    if len(vs) != 1:
        raise ValueError("%s: %d entries for package %s" % (what, len(vs), name))
    return vs[0]


def _metadata(harness, all_features=False):
    """all_features (optional; tools/gen_fn_arrayvec.py): `--all-features`, for a crate the harness links only under one of
    ITS features (h-parsecfg links arrayvec under `core`); cached apart from the default-feature answer"""
    key = "packages" if harness == "h-roff" else "packages:" + harness
    if all_features:
        key += ":all-features"
    if key not in _meta:
        try:
            out = subprocess.run(["cargo", "metadata", "--offline", "--format-version", "1"] + (["--all-features"] if all_features else []),
                                 cwd=_hdir(harness), check=True,
                                 stdout=subprocess.PIPE, stderr=subprocess.PIPE, timeout=120,
                                 env=dict(os.environ, CARGO_NET_OFFLINE="true")).stdout
            doc = json.loads(out)
            _meta[key] = doc["packages"]
            if not all_features:      # crate_features reads the resolve graph of the harness's OWN feature set
                _meta["resolve:" + harness] = doc.get("resolve") or {}
        except (OSError, subprocess.SubprocessError, ValueError, KeyError) as e:
            raise ValueError("cargo metadata --offline in harness/%s failed: %s" % (harness, e))
    return _meta[key]


def metadata_dir(name, version, harness="h-roff", all_features=False):
    hits = [p for p in _metadata(harness, all_features) if p["name"] == name]
    if len(hits) != 1 or hits[0]["version"] != version:
        raise ValueError("cargo metadata (harness/%s): package %s resolves to %r, Cargo.lock pins %s"
                         % (harness, name, [p["version"] for p in hits], version))
    return os.path.dirname(hits[0]["manifest_path"])


def crate_features(gm, name, harness="h-roff"):
    """sorted list of the cargo features the harness build enables for the pinned version of `name`
    (cargo metadata's resolve graph); raises gm.GenError"""
    try:
        version = lock_version(gm.read("Cargo.lock"), name, "Cargo.lock")
        hits = [p for p in _metadata(harness) if p["name"] == name and p["version"] == version]
        if len(hits) != 1:
            raise ValueError("cargo metadata (harness/%s): %d packages %s %s" % (harness, len(hits), name, version))
        nodes = [n for n in _meta["resolve:" + harness].get("nodes", []) if n["id"] == hits[0]["id"]]
        if len(nodes) != 1:
            raise ValueError("cargo metadata (harness/%s): %s %s is not in the resolve graph" % (harness, name, version))
        return sorted(nodes[0]["features"])
    except (ValueError, KeyError) as e:
        raise gm.GenError(str(e))


def crate_dir(gm, name, harness="h-roff", all_features=False):
    """(version, directory) of the third-party crate `name`; raises gm.GenError"""
    try:
        version = lock_version(gm.read("Cargo.lock"), name, "Cargo.lock")
        with open(os.path.join(_hdir(harness), "Cargo.lock"), encoding="utf-8") as f:
            hv = lock_version(f.read(), name, "harness/%s/Cargo.lock" % harness)
        if hv != version:
            raise ValueError("harness/%s/Cargo.lock links %s %s, /repo/Cargo.lock pins %s" % (harness, name, hv, version))
        override = os.environ.get("VERIF_REGISTRY")
        roots = [override] if override else sorted(glob.glob(os.path.expanduser("~/.cargo/registry/src/*")))
        dirs = [d for d in (os.path.join(r, "%s-%s" % (name, version)) for r in roots) if os.path.isdir(d)]
        if len(dirs) != 1:
            raise ValueError("source of %s %s: %d directories `%s-%s` under %s" % (name, version, len(dirs), name, version, roots))
        if not override:
            md = metadata_dir(name, version, harness, all_features)
            if os.path.realpath(md) != os.path.realpath(dirs[0]):
                raise ValueError("cargo links %s from %s, the translator reads %s" % (name, md, dirs[0]))
        return version, dirs[0]
    except (ValueError, OSError) as e:
        raise gm.GenError(str(e))


def read_crate(gm, name, rel, harness="h-roff", all_features=False):
    """text of `rel` (e.g. src/lib.rs) of the pinned version of crate `name`"""
    version, d = crate_dir(gm, name, harness, all_features)
    p = os.path.join(d, rel)
    try:
        with open(p, encoding="utf-8") as f:
            text = f.read()
    except OSError as e:
        raise gm.GenError("cannot read %s of %s %s: %s" % (rel, name, version, e))
    READS.append((name, version, rel, p))
    return text
