"""Translator, adapter-crate part (C16): crates/anstyle-{ansi-term,crossterm,owo-colors,
termcolor,yansi,syntect}/src/lib.rs  ->  coq/Generated/Adapters.v.

Per adapter: the 16-arm colour table (AnsiColor variant -> target constructor name, plus the
`bool` of ansi_term's tuple), the names of the constructors used for indexed / RGB colours,
and the effect list (`Effects::X` guards which target call / attribute), in source order; for
syntect the FontStyle flag list.  Everything else of each conversion function is compared, token
for token, with the skeleton written down here (the hand model Model/Adapters.v is a model of
exactly that skeleton).  A body that differs is handed to the function translator
(tools/gen_fn_adapters.py, see _fn_takes_over): if it still translates the crates, the tables are
read off tolerantly and Proofs/AdaptersGen.v decides whether the hand model over them is what the
functions do; otherwise it is a GenError = broken tie.
Target names are emitted as byte strings (list N).  Hooked into tools/gen_model.py through
`register`; helpers come from that module."""
import re


def register(generators, gm):
    g = globals()
    for k in dir(gm):
        if not k.startswith("__") and k not in g:
            g[k] = getattr(gm, k)
    generators["Adapters"] = gen_adapters


ANSI_NAMES = ["Black", "Red", "Green", "Yellow", "Blue", "Magenta", "Cyan", "White",
              "BrightBlack", "BrightRed", "BrightGreen", "BrightYellow", "BrightBlue", "BrightMagenta", "BrightCyan", "BrightWhite"]


def _squash(s):
    return re.sub(r"\s+", "", s)


def _skeleton_re(text):
    """regex for the whitespace-free form of `text`; <<name>> is an identifier capture,
    @EFFECTS@ stands for itself"""
    out = []
    for i, part in enumerate(re.split(r"<<(\w+)>>", text)):
        out.append("(?P<%s>\\w+)" % part if i % 2 else re.escape(_squash(part)))
    return "".join(out)


def _effect_bits():
    eff = strip_comments(read("crates/anstyle/src/effect.rs"))
    bits = {}
    for mm in re.finditer(r"pub const (\w+)\s*:\s*Self\s*=\s*Effects\(([^;]*)\);", eff):
        sh = re.fullmatch(r"1\s*<<\s*(\d+)", mm.group(2).strip())
        if not sh:
            raise GenError("effect constant %s: expected `1 << k`" % mm.group(1))
        if mm.group(1) in bits:
            raise GenError("effect constant %s declared twice" % mm.group(1))
        bits[mm.group(1)] = int(sh.group(1))
    if not bits:
        raise GenError("no effect constants found in effect.rs")
    return bits


def _check_ansi_enum():
    col = strip_comments(read("crates/anstyle/src/color.rs"))
    em = re.search(r"pub enum AnsiColor\s*\{(.*?)\n\}", col, re.S)
    if not em:
        raise GenError("enum AnsiColor not found")
    variants = [v.strip() for v in re.sub(r"#\[[^\]]*\]", "", em.group(1)).split(",") if v.strip()]
    if sorted(variants) != sorted(ANSI_NAMES):
        raise GenError("enum AnsiColor: variants are not the 16 standard colours: %r" % variants)


def _colour_table(src, fn, ret, arm_re, what):
    """16 arms `anstyle::AnsiColor::V => <arm_re>,` of `fn <fn>(color: anstyle::AnsiColor) -> <ret>`"""
    sq = _squash(src)
    head = "fn%s(color:anstyle::AnsiColor)->%s{matchcolor{" % (fn, _squash(ret))
    i = sq.find(head)
    if i < 0:
        return _colour_table_eval(src, fn, arm_re, what,
                                  "%s: `fn %s(color: anstyle::AnsiColor) -> %s { match color {` not found" % (what, fn, ret))
    j = sq.find("}}", i)
    if j < 0:
        raise GenError("%s: %s: unterminated match" % (what, fn))
    arms_src = sq[i + len(head):j]
    arm = r"anstyle::AnsiColor::(\w+)=>" + arm_re + ","
    arms = re.findall(arm, arms_src)
    rest = re.sub(arm, "", arms_src)
    if rest:
        return _colour_table_eval(src, fn, arm_re, what, "%s: %s: unrecognised arm near %r" % (what, fn, rest[:80]))
    tab = {}
    for a in arms:
        v = a[0]
        if v not in ANSI_NAMES:
            raise GenError("%s: %s: unknown AnsiColor::%s" % (what, fn, v))
        if v in tab:
            raise GenError("%s: %s: duplicate arm AnsiColor::%s" % (what, fn, v))
        tab[v] = a[1:]
    if len(tab) != 16:
        raise GenError("%s: %s: expected 16 arms, found %d" % (what, fn, len(tab)))
    return [(ANSI_NAMES.index(v), tab[v]) for v in ANSI_NAMES]


def _colour_table_eval(src, fn, arm_re, what, why):
    """The 16 arms are DATA, but the function need not be spelled as one 16-arm `match` of full paths: or-patterns
    (`Red | BrightRed => ..`), a `use anstyle::AnsiColor;`, a private helper for the hue, the bold flag from
    `color.is_bright()` give the same table.  When the text shape is gone and the function translator still translates
    the crates (_fn_takes_over), the table is the GRAPH of the function over the 16 constants, computed by evaluating it
    (tools/rs_eval.py: the function, its callees in the file, methods of AnsiColor from crates/anstyle/src/color.rs); every
    value must still have the form of an arm (`arm_re`).  Sound whatever the evaluator computes: Proofs/AdaptersGen.v proves
    the translated function equal to the hand model over this table, Proofs/Adapters.v proves the hand model over it."""
    _fn_takes_over(why)
    import rs_eval
    try:
        rows = rs_eval.graph(src, fn, "anstyle::AnsiColor", read("crates/anstyle/src/color.rs"), ANSI_NAMES, what)
    except rs_eval.EvalError as e:
        raise GenError("%s (and the table cannot be computed from the function: %s)" % (why, e))
    out = []
    for v, text in rows:
        m = re.fullmatch(arm_re, text)
        if not m:
            raise GenError("%s: %s(AnsiColor::%s) = `%s`: not of the form of an arm" % (what, fn, v, text))
        out.append((ANSI_NAMES.index(v), m.groups()))
    return out


def _fn_takes_over(why):
    """A body that is not, token for token, the skeleton written down here is not an alarm by itself (a maintainer may
    rename a local or move a `let`): every function of the six crates is also TRANSLATED (tools/gen_fn_adapters.py ->
    Generated/AdaptersFn.v) and proved equal to the hand model over the tables extracted here (Proofs/AdaptersGen.v,
    c16_translated_*; C16 names both generators in gen_deps).  So the text pin falls back on "the function translator
    still translates the crates"; what the functions do is then the business of those proofs -- tables that were read
    off wrongly make them fail, they cannot make them pass."""
    fn_gen = GENERATORS.get("AdaptersFn")
    try:
        if fn_gen is None:
            raise GenError("no function translator")
        fn_gen()
    except GenError as e:
        raise GenError("%s (and the function translator does not take over: %s)" % (why, e))


def _loose(src, loose, what):
    """captures read off tolerantly: {name: (regex over the whitespace-free text, occurrence)}"""
    out = {}
    for name, (rx, k) in (loose or {}).items():
        hits = re.findall(rx, src)
        if len(hits) <= k:
            raise GenError("%s: `%s` not found" % (what, name))
        out[name] = hits[k]
    return out


def _need(src, text, what, loose=None):
    """the skeleton `text` must occur in the whitespace-free source; returns its captures.  Otherwise the function
    translator must take over (_fn_takes_over) and the captures are read off tolerantly (`loose`)"""
    m = re.search(_skeleton_re(text), _squash(src))
    if not m:
        _fn_takes_over("%s: unexpected shape (expected `%s`)" % (what, " ".join(text.split())[:160]))
        return _loose(_squash(src), loose, what)
    return m.groupdict()


def _conversion(src, fn, sig, stmt_re, skeleton, bits, what, swap=False, loose=None):
    """body of the conversion function = skeleton with one run of effect statements (groups:
    effect constant, target name -- the other way round with `swap`);
    returns (effect list [(bit, constant, target name)], skeleton captures)"""
    taken_over = False
    if _squash("fn %s%s{" % (fn, sig)) not in _squash(src):
        _fn_takes_over("%s: signature `fn %s%s` not found" % (what, fn, sig))
        taken_over = True
    body = _squash(fn_body(src, fn))
    found = []

    def repl(m):
        found.append((m.group(2), m.group(1)) if swap else (m.group(1), m.group(2)))
        return "@E@"
    marked = re.sub(stmt_re, repl, body)
    if not found:
        # no effect STATEMENT: the (effect, target) pairs may be the entries of a private module-level table
        # `const NAME: [(anstyle::Effects, <fn pointer>); n] = [(anstyle::Effects::X, <path>::<target>), ..];` that the body
        # names (the function translator reads the same entries: tools/rs2v/emit.py source_table / fn_value, and what the
        # body does with them is its translation, proved against this very list in Proofs/AdaptersGen.v)
        for tm in re.finditer(r"(?<![\w(])const(\w+):\[[^;]*;\d+\]=\[(.*?)\];", _squash(src)):
            if not re.search(r"\b%s\b" % re.escape(tm.group(1)), body):
                continue
            ents = re.findall(r"\(anstyle::Effects::(\w+),(?:\w+::)+(\w+),?\)", tm.group(2))
            if not ents or len(ents) != tm.group(2).count("anstyle::Effects::") or found:
                raise GenError("%s: the entries of the table %s are not (anstyle::Effects::X, <path>::<target>) pairs" % (what, tm.group(1)))
            found.extend(ents)
        if found and not taken_over:
            _fn_takes_over("%s: the effects of %s are applied from a table" % (what, fn))
            taken_over = True
    if not found:
        raise GenError("%s: no effect statement recognised" % what)
    marked = re.sub(r"(?:@E@)+", "@EFFECTS@", marked)
    m = re.fullmatch(_skeleton_re(skeleton), marked) if marked.count("@EFFECTS@") == 1 else None
    if not m:
        if not taken_over:
            _fn_takes_over("%s: body of %s is not the expected skeleton: %r" % (what, fn, marked[:300]))
        caps = _loose(body, loose, what)
    else:
        caps = m.groupdict()
    effs = []
    for const, name in found:
        if const not in bits:
            raise GenError("%s: unknown effect constant Effects::%s" % (what, const))
        effs.append((bits[const], const, name))
    return effs, caps


def _coq_str(s):
    return "[" + "; ".join(str(b) for b in s.encode("ascii")) + "]"


def _if_effect(action):
    # local names are not pinned here (the skeleton pins them; when the function translator takes over they are free)
    return r"if\w+\.contains\(anstyle::Effects::(\w+)\)\{" + action + r"\}"


def gen_adapters():
    _check_ansi_enum()
    bits = _effect_bits()
    out = {}

    # ---- ansi_term ---------------------------------------------------------
    what = "anstyle-ansi-term"
    src = strip_comments(read("crates/anstyle-ansi-term/src/lib.rs"))
    cols = _colour_table(src, "ansi_to_ansi_color", "(ansi_term::Color, bool)", r"\(ansi_term::Color::(\w+),(true|false)\)", what)
    effs, cap = _conversion(
        src, "to_ansi_term", "(astyle: anstyle::Style) -> ansi_term::Style",
        _if_effect(r"\w+=\w+\.(\w+)\(\);"),
        """let mut style = ansi_term::Style::new();
           if let Some((fg, fg_bold)) = astyle.get_fg_color().map(to_ansi_color) {
               style = style.fg(fg);
               if fg_bold { style = style.<<fgbold>>(); }
           }
           if let Some((bg, _)) = astyle.get_bg_color().map(to_ansi_color) { style = style.on(bg); }
           let effects = astyle.get_effects();
           @EFFECTS@
           style""", bits, what, loose={"fgbold": (r"if\w+\{style=style\.(\w+)\(\);\}", 0)})
    _need(src, """fn to_ansi_color(color: anstyle::Color) -> (ansi_term::Color, bool) { match color {
                  anstyle::Color::Ansi(ansi) => ansi_to_ansi_color(ansi),
                  anstyle::Color::Ansi256(xterm) => (xterm_to_ansi_color(xterm), false),
                  anstyle::Color::Rgb(rgb) => (rgb_to_ansi_color(rgb), false), } }""", what + ": to_ansi_color")
    fx = _need(src, "fn xterm_to_ansi_color(color: anstyle::Ansi256Color) -> ansi_term::Color { ansi_term::Color::<<fixed>>(color.0) }", what + ": xterm_to_ansi_color",
               loose={"fixed": (r"ansi_term::Color::(\w+)\(\w+\.0\)", 0)})
    rg = _need(src, "fn rgb_to_ansi_color(color: anstyle::RgbColor) -> ansi_term::Color { ansi_term::Color::<<rgb>>(color.0, color.1, color.2) }", what + ": rgb_to_ansi_color",
               loose={"rgb": (r"ansi_term::Color::(\w+)\(\w+\.0,\w+\.1,\w+\.2\)", 0)})
    out["ansi_term"] = dict(cols=[(i, c[0], c[1]) for i, c in cols], effs=effs, fixed=fx["fixed"], rgb=rg["rgb"], fgbold=cap["fgbold"])

    # ---- crossterm ---------------------------------------------------------
    what = "anstyle-crossterm"
    src = strip_comments(read("crates/anstyle-crossterm/src/lib.rs"))
    cols = _colour_table(src, "ansi_to_ansi_color", "crossterm::style::Color", r"crossterm::style::Color::(\w+)", what)
    effs, _ = _conversion(
        src, "to_crossterm", "(astyle: anstyle::Style) -> crossterm::style::ContentStyle",
        _if_effect(r"\w+\.set\(crossterm::style::Attribute::(\w+)\);"),
        """let foreground_color = astyle.get_fg_color().map(to_ansi_color);
           let background_color = astyle.get_bg_color().map(to_ansi_color);
           let underline_color = astyle.get_underline_color().map(to_ansi_color);
           let mut attributes = crossterm::style::Attributes::default();
           let effects = astyle.get_effects();
           @EFFECTS@
           crossterm::style::ContentStyle { foreground_color, background_color, underline_color, attributes, }""", bits, what)
    _need(src, """fn to_ansi_color(color: anstyle::Color) -> crossterm::style::Color { match color {
                  anstyle::Color::Ansi(ansi) => ansi_to_ansi_color(ansi),
                  anstyle::Color::Ansi256(xterm) => xterm_to_ansi_color(xterm),
                  anstyle::Color::Rgb(rgb) => rgb_to_ansi_color(rgb), } }""", what + ": to_ansi_color")
    fx = _need(src, "fn xterm_to_ansi_color(color: anstyle::Ansi256Color) -> crossterm::style::Color { crossterm::style::Color::<<fixed>>(color.0) }", what + ": xterm_to_ansi_color",
               loose={"fixed": (r"crossterm::style::Color::(\w+)\(\w+\.0\)", 0)})
    rg = _need(src, """fn rgb_to_ansi_color(color: anstyle::RgbColor) -> crossterm::style::Color {
                       crossterm::style::Color::<<rgb>> { r: color.0, g: color.1, b: color.2, } }""", what + ": rgb_to_ansi_color",
               loose={"rgb": (r"crossterm::style::Color::(\w+)\{r:\w+\.0,g:\w+\.1,b:\w+\.2,?\}", 0)})
    out["crossterm"] = dict(cols=[(i, c[0]) for i, c in cols], effs=effs, fixed=fx["fixed"], rgb=rg["rgb"])

    # ---- owo-colors --------------------------------------------------------
    what = "anstyle-owo-colors"
    src = strip_comments(read("crates/anstyle-owo-colors/src/lib.rs"))
    cols = _colour_table(src, "ansi_to_owo_colors_color", "owo_colors::colored::Color", r"owo_colors::colored::Color::(\w+)", what)
    effs, _ = _conversion(
        src, "to_owo_style", "(style: anstyle::Style) -> owo_colors::Style",
        _if_effect(r"\w+=\w+\.(\w+)\(\);"),
        """let fg = style.get_fg_color().map(to_owo_colors);
           let bg = style.get_bg_color().map(to_owo_colors);
           let effects = style.get_effects();
           let mut style = owo_colors::Style::new();
           if let Some(fg) = fg { style = style.color(fg); }
           if let Some(bg) = bg { style = style.on_color(bg); }
           @EFFECTS@
           style""", bits, what)
    cap = _need(src, """fn to_owo_colors(color: anstyle::Color) -> owo_colors::DynColors { match color {
                  anstyle::Color::Ansi(ansi) => owo_colors::DynColors::Ansi(ansi_to_owo_colors_color(ansi)),
                  anstyle::Color::Ansi256(xterm) => { owo_colors::DynColors::<<fixed>>(xterm_to_owo_colors_color(xterm)) }
                  anstyle::Color::Rgb(rgb) => { let (r, g, b) = rgb_to_owo_colors_color(rgb); owo_colors::DynColors::<<rgb>>(r, g, b) } } }""",
                what + ": to_owo_colors",
                loose={"fixed": (r"owo_colors::DynColors::(\w+)\(xterm_to_owo_colors_color\(\w+\)\)", 0),
                       "rgb": (r"owo_colors::DynColors::(\w+)\(\w+,\w+,\w+\)", 0)})
    _need(src, "fn xterm_to_owo_colors_color(color: anstyle::Ansi256Color) -> owo_colors::XtermColors { owo_colors::XtermColors::from(color.0) }", what + ": xterm_to_owo_colors_color")
    _need(src, "fn rgb_to_owo_colors_color(color: anstyle::RgbColor) -> (u8, u8, u8) { (color.0, color.1, color.2) }", what + ": rgb_to_owo_colors_color")
    out["owo"] = dict(cols=[(i, c[0]) for i, c in cols], effs=effs, fixed=cap["fixed"], rgb=cap["rgb"])

    # ---- termcolor ---------------------------------------------------------
    what = "anstyle-termcolor"
    src = strip_comments(read("crates/anstyle-termcolor/src/lib.rs"))
    cols = _colour_table(src, "ansi_to_termcolor_color", "termcolor::Color", r"termcolor::Color::(\w+)", what)
    effs, _ = _conversion(
        src, "to_termcolor_spec", "(style: anstyle::Style) -> termcolor::ColorSpec",
        r"\w+\.(\w+)\(\w+\.contains\(anstyle::Effects::(\w+)\)\);",
        """let fg = style.get_fg_color().map(to_termcolor_color);
           let bg = style.get_bg_color().map(to_termcolor_color);
           let effects = style.get_effects();
           let mut style = termcolor::ColorSpec::new();
           style.set_fg(fg);
           style.set_bg(bg);
           @EFFECTS@
           style""", bits, what, swap=True)
    _need(src, """fn to_termcolor_color(color: anstyle::Color) -> termcolor::Color { match color {
                  anstyle::Color::Ansi(ansi) => ansi_to_termcolor_color(ansi),
                  anstyle::Color::Ansi256(xterm) => xterm_to_termcolor_color(xterm),
                  anstyle::Color::Rgb(rgb) => rgb_to_termcolor_color(rgb), } }""", what + ": to_termcolor_color")
    fx = _need(src, "fn xterm_to_termcolor_color(color: anstyle::Ansi256Color) -> termcolor::Color { termcolor::Color::<<fixed>>(color.0) }", what + ": xterm_to_termcolor_color",
               loose={"fixed": (r"termcolor::Color::(\w+)\(\w+\.0\)", 0)})
    rg = _need(src, "fn rgb_to_termcolor_color(color: anstyle::RgbColor) -> termcolor::Color { termcolor::Color::<<rgb>>(color.0, color.1, color.2) }", what + ": rgb_to_termcolor_color",
               loose={"rgb": (r"termcolor::Color::(\w+)\(\w+\.0,\w+\.1,\w+\.2\)", 0)})
    out["termcolor"] = dict(cols=[(i, c[0]) for i, c in cols], effs=effs, fixed=fx["fixed"], rgb=rg["rgb"])

    # ---- yansi -------------------------------------------------------------
    what = "anstyle-yansi"
    src = strip_comments(read("crates/anstyle-yansi/src/lib.rs"))
    cols = _colour_table(src, "ansi_to_yansi_color", "yansi::Color", r"yansi::Color::(\w+)", what)
    effs, cap = _conversion(
        src, "to_yansi_style", "(style: anstyle::Style) -> yansi::Style",
        _if_effect(r"\w+=\w+\.(\w+)\(\);"),
        """let fg = style.get_fg_color().map(to_yansi_color).unwrap_or(yansi::Color::<<deffg>>);
           let bg = style.get_bg_color().map(to_yansi_color).unwrap_or(yansi::Color::<<defbg>>);
           let effects = style.get_effects();
           let mut style = yansi::Style::new().fg(fg).bg(bg);
           @EFFECTS@
           style""", bits, what, loose={"deffg": (r"\.unwrap_or\(yansi::Color::(\w+)\)", 0), "defbg": (r"\.unwrap_or\(yansi::Color::(\w+)\)", 1)})
    _need(src, """fn to_yansi_color(color: anstyle::Color) -> yansi::Color { match color {
                  anstyle::Color::Ansi(ansi) => ansi_to_yansi_color(ansi),
                  anstyle::Color::Ansi256(xterm) => xterm_to_yansi_color(xterm),
                  anstyle::Color::Rgb(rgb) => rgb_to_yansi_color(rgb), } }""", what + ": to_yansi_color")
    fx = _need(src, "fn xterm_to_yansi_color(color: anstyle::Ansi256Color) -> yansi::Color { yansi::Color::<<fixed>>(color.0) }", what + ": xterm_to_yansi_color",
               loose={"fixed": (r"yansi::Color::(\w+)\(\w+\.0\)", 0)})
    rg = _need(src, "fn rgb_to_yansi_color(color: anstyle::RgbColor) -> yansi::Color { yansi::Color::<<rgb>>(color.0, color.1, color.2) }", what + ": rgb_to_yansi_color",
               loose={"rgb": (r"yansi::Color::(\w+)\(\w+\.0,\w+\.1,\w+\.2\)", 0)})
    out["yansi"] = dict(cols=[(i, c[0]) for i, c in cols], effs=effs, fixed=fx["fixed"], rgb=rg["rgb"], deffg=cap["deffg"], defbg=cap["defbg"])

    # ---- syntect -----------------------------------------------------------
    what = "anstyle-syntect"
    src = strip_comments(read("crates/anstyle-syntect/src/lib.rs"))
    _need(src, """fn to_anstyle(style: syntect::highlighting::Style) -> anstyle::Style {
                  anstyle::Style::new()
                      .fg_color(Some(to_anstyle_color(style.foreground)))
                      .bg_color(Some(to_anstyle_color(style.background)))
                      .effects(to_anstyle_effects(style.font_style)) }""", what + ": to_anstyle")
    _need(src, "fn to_anstyle_color(color: syntect::highlighting::Color) -> anstyle::Color { anstyle::RgbColor(color.r, color.g, color.b).into() }", what + ": to_anstyle_color")
    taken_over = False
    if _squash("fn to_anstyle_effects(style: syntect::highlighting::FontStyle) -> anstyle::Effects {") not in _squash(src):
        _fn_takes_over(what + ": signature of to_anstyle_effects not found")
        taken_over = True
    body = _squash(fn_body(src, "to_anstyle_effects"))
    flags = []

    def frepl(m):
        flags.append((m.group(1), m.group(2)))
        return "@E@"
    marked = re.sub(r"if\w+\.contains\(syntect::highlighting::FontStyle::(\w+)\)\{\w+\|=anstyle::Effects::(\w+);\}", frepl, body)
    marked = re.sub(r"(?:@E@)+", "@EFFECTS@", marked)
    if marked != _squash("let mut effects = anstyle::Effects::new(); @EFFECTS@ effects") and not taken_over:
        _fn_takes_over(what + ": body of to_anstyle_effects is not the expected skeleton: %r" % marked[:300])
    for _f, e in flags:
        if e not in bits:
            raise GenError(what + ": unknown effect constant Effects::%s" % e)

    # ---- output ------------------------------------------------------------
    o = [HEADER % "crates/anstyle-{ansi-term,crossterm,owo-colors,termcolor,yansi,syntect}/src/lib.rs, crates/anstyle/src/{effect.rs,color.rs}"]
    o.append("(* A 16-colour value (AnsiColor) is represented by its ANSI number: %s.\n   An effect is represented by its bit position in anstyle::Effects.  Names of the target\n   libraries' constructors / methods are ASCII byte strings. *)" % ", ".join("%s=%d" % (n, i) for i, n in enumerate(ANSI_NAMES)))
    o.append("From Coq Require Import NArith List.\nImport ListNotations.\nLocal Open Scope N_scope.\n")
    for lib in ("ansi_term", "crossterm", "owo", "termcolor", "yansi"):
        d = out[lib]
        o.append("(* ---- %s ---- *)" % lib)
        if lib == "ansi_term":
            o.append("(* arms of ansi_to_ansi_color: (AnsiColor number, (constructor, bold flag)) *)")
            o.append("Definition ad_gen_ansi_term_colors : list (N * (list N * bool)) := [\n" + ";\n".join(
                "  (%d, (%s, %s)) (* %s => (%s, %s) *)" % (i, _coq_str(c), b, ANSI_NAMES[i], c, b) for i, c, b in d["cols"]) + "\n  ].\n")
            o.append("(* the call made when the bold flag of the foreground is set *)")
            o.append("Definition ad_gen_ansi_term_fg_bold : list N := %s. (* %s *)\n" % (_coq_str(d["fgbold"]), d["fgbold"]))
        else:
            o.append("(* arms of the 16-way colour match: (AnsiColor number, constructor) *)")
            o.append("Definition ad_gen_%s_colors : list (N * list N) := [\n" % lib + ";\n".join(
                "  (%d, %s) (* %s => %s *)" % (i, _coq_str(c), ANSI_NAMES[i], c) for i, c in d["cols"]) + "\n  ].\n")
        o.append("Definition ad_gen_%s_fixed : list N := %s. (* Ansi256Color -> %s *)" % (lib, _coq_str(d["fixed"]), d["fixed"]))
        o.append("Definition ad_gen_%s_rgb : list N := %s. (* RgbColor -> %s *)\n" % (lib, _coq_str(d["rgb"]), d["rgb"]))
        if lib == "yansi":
            o.append("(* the colour used when the anstyle slot is None *)")
            o.append("Definition ad_gen_yansi_default_fg : list N := %s. (* %s *)" % (_coq_str(d["deffg"]), d["deffg"]))
            o.append("Definition ad_gen_yansi_default_bg : list N := %s. (* %s *)\n" % (_coq_str(d["defbg"]), d["defbg"]))
        o.append("(* effect statements in source order: (effect bit, target method / attribute) *)")
        effs = d["effs"]
        o.append("Definition ad_gen_%s_effects : list (N * list N) := [\n" % lib + ";\n".join(
            "  (%d, %s) (* Effects::%s -> %s *)" % (b, _coq_str(n), c, n) for b, c, n in effs) + "\n  ].\n")
    o.append("(* ---- syntect ---- *)")
    o.append("(* to_anstyle_effects, in source order: (FontStyle flag, effect bit) *)")
    o.append("Definition ad_gen_syntect_flags : list (list N * N) := [\n" + ";\n".join(
        "  (%s, %d) (* FontStyle::%s -> Effects::%s *)" % (_coq_str(f), bits[e], f, e) for f, e in flags) + "\n  ].\n")
    return "\n".join(o)
