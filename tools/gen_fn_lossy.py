#!/usr/bin/env python3
"""Function translator, anstyle-lossy: crates/anstyle-lossy/src/{lib.rs,palette.rs} and the
accessors of crates/anstyle/src/color.rs they call  ->  coq/Generated/LossyFn.v (C10).

TRANSLATED (tools/rs2v) into Gallina over the types of the hand model (Model/Lossy.v:
an RgbColor is an `rgb` triple, an AnsiColor its ANSI number, an Ansi256Color its index, a
Palette a `list rgb`):
  anstyle      RgbColor::{r, g, b}, Ansi256Color::{index, into_ansi, from_ansi}
  palette.rs   Palette::{get, get_ansi256_ref, rgb_from_ansi, rgb_from_index, find_match}
               and `impl Index<AnsiColor> for Palette`::index
  lib.rs       distance, find_xterm_match, rgb_to_xterm, rgb_to_ansi, ansi_to_rgb, xterm_to_rgb,
               xterm_to_ansi, color_to_rgb, color_to_xterm, color_to_ansi
Proofs/LossyGen.v proves every translation equal to the hand model the theorems of C10 are
about.  Nothing in this area is opaque (no unsafe code, no trait objects); the tables
(XTERM_COLORS, VGA, WIN10_CONSOLE) are data and stay with tools/gen_palette.py."""
import os
import sys

sys.path.insert(0, os.path.dirname(os.path.abspath(__file__)))
from rs2v.driver import translate, TranslateError   # noqa: E402
from rs2v.rparser import parse_file, find_items, ParseError, type_name   # noqa: E402
from rs2v.lexer import LexError, tokenize   # noqa: E402
from rs2v.emit import EmitError   # noqa: E402

U8, U32, USZ = ("int", "u8"), ("int", "u32"), ("int", "usize")
RGB, A256, PAL = ("struct", "RgbColor"), ("struct", "Ansi256Color"), ("struct", "Palette")
ANSI, COLOR = ("enum", "AnsiColor"), ("enum", "Color")

ANSI_NAMES = ["Black", "Red", "Green", "Yellow", "Blue", "Magenta", "Cyan", "White",
              "BrightBlack", "BrightRed", "BrightGreen", "BrightYellow", "BrightBlue", "BrightMagenta", "BrightCyan", "BrightWhite"]


def f_self_ctor(em, e, env, k):
    """`Self(x)` inside `impl Ansi256Color` / `impl .. for Palette`"""
    if em.self_struct == "Palette" and len(e.args) == 1:
        def k1(t, ty, env1):
            if ty != ("list", RGB):
                raise EmitError("Palette(..) of a %r" % (ty,))
            return k("(pal_new %s)" % t, PAL, env1)
        return em.expr(e.args[0], env, k1)
    if em.self_struct != "Ansi256Color" or len(e.args) != 1:
        raise TranslateError("Self(..) outside impl Ansi256Color / Palette")
    return em.expr(e.args[0], env, lambda t, _ty, env1: k("(a256_new %s)" % t, A256, env1), expect=U8)


# the shipped palettes are data (tools/gen_palette.py -> Generated/Palette.v)
PALETTES = {"VGA": "vga", "WIN10_CONSOLE": "win10_console"}
CFG_WINDOWS = {"#[cfg(windows)]": True, "#[cfg(not(windows))]": False}


def default_alias(src, windows):
    """`#[cfg(not(windows))] pub use VGA as DEFAULT;` / `#[cfg(windows)] pub use WIN10_CONSOLE as DEFAULT;`:
    rs2v skips `use` items, so the alias compiled in for the configuration (`cfg_static: windows`) is read off the
    token stream.  -> the Coq name of the palette that `DEFAULT` names"""
    try:
        toks = [t for t in tokenize(src) if t.kind != "eof"]
    except LexError as e:
        raise TranslateError("palette.rs: %s" % e)
    active = []
    depth = 0
    for i, t in enumerate(toks):
        if t.kind == "punct" and t.text in "{}":
            depth += 1 if t.text == "{" else -1
        if depth or t.kind != "ident" or t.text != "DEFAULT":
            continue
        # an item-level mention of DEFAULT: `[attrs] [pub] use <palette> as DEFAULT ;`
        if not (i >= 3 and toks[i - 3].text == "use" and toks[i - 2].kind == "ident" and toks[i - 1].text == "as"
                and i + 1 < len(toks) and toks[i + 1].text == ";"):
            raise TranslateError("DEFAULT is defined by something else than `use <palette> as DEFAULT;`")
        name = toks[i - 2].text
        if name not in PALETTES:
            raise TranslateError("`use %s as DEFAULT`: not one of the shipped palettes %s" % (name, sorted(PALETTES)))
        j = i - 4
        if j >= 0 and toks[j].text == "pub":
            j -= 1
        on = True
        while j >= 0 and toks[j].kind == "attr":
            a = "".join(toks[j].text.split())
            if a.startswith("#[cfg"):
                if a not in CFG_WINDOWS:
                    raise TranslateError("`use %s as DEFAULT` under %s: only cfg(windows) / cfg(not(windows)) are modelled" % (name, a))
                on = on and CFG_WINDOWS[a] == windows
            j -= 1
        if on:
            active.append(name)
    if len(active) != 1:
        raise TranslateError("DEFAULT: %d aliases compiled in for windows=%s %r" % (len(active), windows, active))
    return PALETTES[active[0]]


VOCAB = {
    "fold_literals": True,
    "reserved": ["distance", "scan", "find_best", "c", "p"],
    "enums": {
        # a 16-colour value is its ANSI number: matches on it are comparison chains
        "AnsiColor": {"coq": "N", "eqb": "N.eqb", "native": False,
                      "variants": {n: str(i) for i, n in enumerate(ANSI_NAMES)}},
        "Color": {"coq": "color", "variants": {"Ansi": "Ansi", "Ansi256": "Ansi256", "Rgb": "Rgb"},
                  "payload": {"Ansi": [ANSI], "Ansi256": [A256], "Rgb": [RGB]}},
    },
    "structs": {
        "RgbColor": {"coq": "rgb", "var": "c", "fields": {
            "0": ("rgb_f0", None, U8), "1": ("rgb_f1", None, U8), "2": ("rgb_f2", None, U8)}},
        "Ansi256Color": {"coq": "N", "var": "i", "fields": {"0": ("a256_f0", None, U8)}},
        "Palette": {"coq": "(list rgb)", "var": "p", "fields": {"0": ("pal_f0", None, ("list", RGB))}},
    },
    "type_alias": {"Rgb": RGB, "RawPalette": ("list", RGB)},
    # the non-Windows configuration (as in the choice area): decides which `use .. as DEFAULT` is compiled in
    "cfg_static": {"windows": False},
    "consts": {"XTERM_COLORS": ("xterm_colors", ("list", RGB)),
               "VGA": ("vga", PAL), "WIN10_CONSOLE": ("win10_console", PAL)},
    "fns": {
        "Ansi256Color": {"coq": "a256_new", "self": None, "params": [("in", U8)], "ret": A256, "total": True, "cfg": False},
        "Self": f_self_ctor,
    },
    # one more step than the table has entries: the last one evaluates the condition to false
    "fuel": {
        "find_xterm_match": ["(S (length xterm_colors))"],
        "Palette::find_match": ["(S (length (pal_f0 p1)))"],
    },
    # a scan `while index < table.len()` inlined into a function without an entry above: (S (length table))
    "fuel_auto": True,
    "opaque": {},
}

HEADER = "(* GENERATED by tools/gen_fn_lossy.py (tools/rs2v) from crates/anstyle-lossy/src/{lib.rs,palette.rs}, crates/anstyle/src/color.rs -- do not edit *)"
REQ = """From Coq Require Import ZArith NArith List Bool.
From AV Require Import Generated.Palette Spec.Lossy Model.Base Model.Imp Model.Lossy.
Import ListNotations.
Local Open Scope N_scope.
Local Open Scope bool_scope."""


def check_enum(items, name, expected):
    """the Rust enum has exactly the variants (with payload type names) the vocabulary models"""
    ens = find_items(items, "enum", name)
    if len(ens) != 1:
        raise TranslateError("enum %s: %d definitions" % (name, len(ens)))
    got = []
    for vname, payload, disc, _attrs in ens[0].variants:
        if payload == "struct" or disc is not None:
            raise TranslateError("enum %s::%s: struct payload / explicit discriminant" % (name, vname))
        got.append((vname, [type_name(t) for t in payload] if payload else []))
    if got != expected:
        raise TranslateError("enum %s: variants %r, the vocabulary models %r" % (name, got, expected))


def register(generators, gm):
    def gen():
        try:
            col = gm.read("crates/anstyle/src/color.rs")
            pal = gm.read("crates/anstyle-lossy/src/palette.rs")
            lib = gm.read("crates/anstyle-lossy/src/lib.rs")
            try:
                citems = parse_file(col)
            except (ParseError, LexError) as e:
                raise TranslateError("color.rs: parse error: %s" % e)
            check_enum(citems, "AnsiColor", [(n, []) for n in ANSI_NAMES])
            check_enum(citems, "Color", [("Ansi", ["AnsiColor"]), ("Ansi256", ["Ansi256Color"]), ("Rgb", ["RgbColor"])])
            shapes = {}
            out = []

            def voc(*checked, **kw):
                v = dict(VOCAB)
                v["consts"] = dict(VOCAB["consts"], DEFAULT=(default_alias(pal, VOCAB["cfg_static"]["windows"]), PAL))
                v["structs"] = {n: dict(s, check=(n in checked)) for n, s in VOCAB["structs"].items()}
                # private helpers of the crate may live in the other file (`crate::helper(..)` called from
                # palette.rs, defined in lib.rs): that file is searched too when a call is inlined
                v["inline_sources"] = kw.get("helpers", [])
                return v
            out.append(translate(col, voc("RgbColor", "Ansi256Color"), [
                ("r", "RgbColor", "g_rgb_r", {}),
                ("g", "RgbColor", "g_rgb_g", {}),
                ("b", "RgbColor", "g_rgb_b", {}),
                ("index", "Ansi256Color", "g_a256_index", {}),
                ("into_ansi", "Ansi256Color", "g_into_ansi", {}),
                ("from_ansi", "Ansi256Color", "g_from_ansi", {}),
            ], HEADER, REQ, shapes))
            out.append(translate(lib, voc(helpers=[pal]), [
                ("distance", None, "g_distance", {}),
            ], "", "", shapes))
            out.append(translate(pal, voc("Palette", helpers=[lib]), [
                ("get_ansi256_ref", "Palette", "g_get_ansi256_ref", {}),
                ("get", "Palette", "g_palette_get", {}),
                ("index", "Palette", "g_palette_index", {"trait": "Index"}),
                ("rgb_from_ansi", "Palette", "g_rgb_from_ansi", {}),
                ("rgb_from_index", "Palette", "g_rgb_from_index", {}),
                ("find_match", "Palette", "g_find_match", {}),
                ("default", "Palette", "g_palette_default", {"trait": "Default"}),
                ("from", "Palette", "g_palette_from", {"trait": "From"}),
            ], "", "", shapes))
            out.append(translate(lib, voc(helpers=[pal]), [
                # a PRIVATE helper of rgb_to_xterm: when a maintainer merges it into other private code, the name stands
                # for the hand model's search (said so in the generated file) and rgb_to_xterm, translated with the
                # replacement inlined, carries the check (Proofs/LossyGen.v g_rgb_to_xterm_eq)
                ("find_xterm_match", None, "g_find_xterm_match",
                 {"if_absent": lambda name: "Definition %s (c : rgb) : option N := find_xterm_match c." % name}),
                ("rgb_to_xterm", None, "g_rgb_to_xterm", {}),
                ("rgb_to_ansi", None, "g_rgb_to_ansi", {}),
                ("ansi_to_rgb", None, "g_ansi_to_rgb", {}),
                ("xterm_to_rgb", None, "g_xterm_to_rgb", {}),
                ("xterm_to_ansi", None, "g_xterm_to_ansi", {}),
                ("color_to_rgb", None, "g_color_to_rgb", {}),
                ("color_to_xterm", None, "g_color_to_xterm", {}),
                ("color_to_ansi", None, "g_color_to_ansi", {}),
            ], "", "", shapes))
            return "\n".join(out) + "\n"
        except TranslateError as e:
            raise gm.GenError(str(e))
    generators["LossyFn"] = gen
