#!/usr/bin/env python3
"""Function translator, third-party crate termcolor (the version /repo/Cargo.lock pins, 1.4.1): the RENDERING path
of a ColorSpec -> coq/Generated/TermcolorFn.v (generator `TermcolorFn`, C16).

The source is located by tools/thirdparty.py (version from Cargo.lock = the one in harness/h-adapters/Cargo.lock, the
one registry directory `termcolor-<version>`, compared with `cargo metadata --offline` in harness/h-adapters;
$VERIF_REGISTRY=<dir> takes `<dir>/termcolor-<version>/src/lib.rs` instead -- mutation tests only).

src/lib.rs as a whole is outside the subset (Windows console code); the plug-in cuts out the top-level ITEMS of the
area by a token scan (`AREA_ITEMS`: each header must occur exactly once) and hands only those to tools/rs2v:
  enum Color, struct ColorSpec, impl Default for ColorSpec, impl ColorSpec,
  struct Ansi<W>(W), impl Ansi<W> (new ..), impl io::Write for Ansi<W>, impl WriteColor for Ansi<W>, impl Ansi<W> (write_str, write_color).
TRANSLATED: ColorSpec::{default, new, set_fg, set_bg, set_bold, set_dimmed, set_italic, set_underline, set_strikethrough,
set_reset, set_intense}, Ansi::{new, into_inner}, <Ansi as io::Write>::write_all, Ansi::{write_str, write_color},
<Ansi as WriteColor>::{reset, set_color}; and from harness/h-adapters/src/c16.rs the entry point `tc::render` (what "rendering
a converted value with termcolor" is: Ansi::new(Vec::new()), set_color, write_all(b"x"), reset, into_inner).
The plug-in also writes the NAME tables (constructor / setter identifiers -> the translated values / functions) that
relate the abstract target style of Spec/Targets (names, as the adapter translation Generated/AdaptersFn.v builds it) to a
ColorSpec: `g_tcr_color_names` from the unit variants of `enum Color`, `g_tcr_flag_setters` from the `set_*(&mut self, yes: bool)`
methods of `impl ColorSpec`.

`macro_rules!` INSIDE a function body (write_color has four) are expanded by the plug-in (`LocalMacros`): the arms are read
from the tokens of the function, an invocation is matched by its number of comma-separated arguments (`$x:expr` and one
trailing `$($x:expr),+`), the body is transcribed token by token (`$x` -> the argument, parenthesised when it is more than
one token; `$( .. )+` -> one copy per argument) and parsed as an expression.  Hygiene is CHECKED, not modelled: a name the
macro body declares with `let` must not occur in an argument.  `concat!` of string literals is one string literal.

Modelling (Model/Termcolor.v): `Ansi<W>` at W = Vec<u8> is the bytes written so far (`self.0.write_all(b)` appends, Ok(()));
io::Result<()> = unit + unit; `[0u8; 19]` = repeat; `fmt[..n].copy_from_slice(src)` = tc_copy_prefix (both panics)."""
import os
import re
import sys

sys.path.insert(0, os.path.dirname(os.path.abspath(__file__)))
from rs2v.driver import translate, TranslateError, token_hash   # noqa: E402
from rs2v.emit import EmitError                      # noqa: E402
from rs2v.rparser import parse_file, find_items, find_fn, ParseError, type_name, N, Parser   # noqa: E402
from rs2v.lexer import LexError, tokenize, Tok   # noqa: E402
from gen_fn_roff import shape   # noqa: E402
from gen_fn_roffcrate import m_write_all, m_res_unwrap   # noqa: E402
import thirdparty   # noqa: E402

U8, BOOL, UNIT, USZ = ("int", "u8"), ("bool",), ("unit",), ("int", "usize")
BYTES = ("list", U8)
SPEC, ANSI, COLOR = ("struct", "ColorSpec"), ("struct", "Ansi"), ("enum", "Color")
IORES = ("res", UNIT)
HARNESS = "h-adapters"

# `enum Color`: (variant, payload types as written)
COLOR_VARIANTS = [("Black", []), ("Blue", []), ("Green", []), ("Red", []), ("Cyan", []), ("Magenta", []), ("Yellow", []),
                  ("White", []), ("Ansi256", ["u8"]), ("Rgb", ["u8", "u8", "u8"]), ("__Nonexhaustive", [])]
COLOR_COQ = {"__Nonexhaustive": "TcNonexhaustive"}
SPEC_FIELDS = [("fg_color", ("opt", COLOR)), ("bg_color", ("opt", COLOR)), ("bold", BOOL), ("intense", BOOL), ("underline", BOOL),
               ("dimmed", BOOL), ("italic", BOOL), ("reset", BOOL), ("strikethrough", BOOL)]

# headers (token texts joined by one blank, attributes dropped, up to the first `{` / `;`) of the items of the area
AREA_ITEMS = [
    "pub enum Color",
    "pub struct ColorSpec",
    "impl Default for ColorSpec",
    "impl ColorSpec",
    "pub struct Ansi < W > ( W )",
    "impl < W : Write > Ansi < W >",
    "impl < W : io :: Write > io :: Write for Ansi < W >",
    "impl < W : io :: Write > WriteColor for Ansi < W >",
    "impl < W : io :: Write > Ansi < W >",
]


def squash(s):
    return re.sub(r"\s+", "", s)


def read_area(gm):
    """(version, whole lib.rs, the items of the area).  tools/inventory.py parses every file in thirdparty.READS as a whole,
    which src/lib.rs does not survive: the entry is taken out again and the area is listed through `external_sources`"""
    version, _dir = thirdparty.crate_dir(gm, "termcolor", HARNESS)
    lib = thirdparty.read_crate(gm, "termcolor", "src/lib.rs", HARNESS)
    thirdparty.READS[:] = [r for r in thirdparty.READS if r[0] != "termcolor"]
    return version, lib, area_source(lib)


def external_sources(gm):
    """for tools/inventory.py: the items of the area (exactly the text handed to rs2v), as a file under .cache/"""
    try:
        version, _lib, src = read_area(gm)
    except TranslateError as e:
        raise gm.GenError(str(e))
    d = os.path.join(os.path.dirname(os.path.abspath(__file__)), "..", ".cache", "thirdparty")
    os.makedirs(d, exist_ok=True)
    p = os.path.join(d, "termcolor-%s-area.rs" % version)
    with open(p, "w", encoding="utf-8") as f:
        f.write(src)
    return [("extern/termcolor-%s/src/lib.rs" % version, p)]


# ---------------------------------------------------------------------------
# cutting the items of the area out of a file the parser cannot read as a whole

def top_items(src):
    """[(header text, source text)] of the top-level items (token scan: an item ends at a `;` or a closing `}` at depth 0)"""
    try:
        toks = [t for t in tokenize(src) if t.kind != "eof"]
    except LexError as e:
        raise TranslateError("lex error: %s" % e)
    out = []
    depth = 0
    start = None
    for i, t in enumerate(toks):
        if start is None:
            start = i
        if t.kind == "punct" and t.text in ("(", "[", "{"):
            depth += 1
        elif t.kind == "punct" and t.text in (")", "]", "}"):
            depth -= 1
            if depth == 0 and t.text == "}":
                out.append((start, i))
                start = None
        elif t.kind == "punct" and t.text == ";" and depth == 0:
            out.append((start, i))
            start = None
    items = []
    for a, b in out:
        hdr = []
        for t in toks[a:b + 1]:
            if t.kind == "attr":
                continue
            if t.kind == "punct" and t.text in ("{", ";"):
                break
            hdr.append(t.text)
        end = toks[b].pos + len(toks[b].text)
        items.append((" ".join(hdr), src[toks[a].pos:end]))
    return items


def area_source(src):
    items = top_items(src)
    parts = []
    for want in AREA_ITEMS:
        hits = [text for hdr, text in items if hdr == want]
        if len(hits) != 1:
            raise TranslateError("termcolor src/lib.rs: %d items `%s` (the area is cut out by item header: exactly one expected)" % (len(hits), want))
        parts.append(hits[0])
    return "\n\n".join(parts) + "\n"


# ---------------------------------------------------------------------------
# macro_rules! inside a function body

class LocalMacros:
    """the `macro_rules!` items inside the body of one function, as vocabulary `macros` callables"""

    def __init__(self, src, fn_name):
        toks = [t for t in tokenize(src) if t.kind != "eof"]
        starts = [i for i, t in enumerate(toks) if t.kind == "ident" and t.text == "fn" and toks[i + 1].text == fn_name]
        if len(starts) != 1:
            raise TranslateError("fn %s: %d definitions in the area" % (fn_name, len(starts)))
        i = starts[0]
        while not (toks[i].kind == "punct" and toks[i].text == "{"):
            i += 1
        j = self.close(toks, i)
        body = toks[i + 1:j]
        self.fn_name = fn_name
        self.macros = {}
        k = 0
        while k < len(body):
            t = body[k]
            if t.kind == "ident" and t.text == "macro_rules" and body[k + 1].text == "!":
                name = body[k + 2].text
                if body[k + 3].text != "{":
                    raise TranslateError("macro_rules! %s: `{` expected" % name)
                e = self.close(body, k + 3)
                if name in self.macros:
                    raise TranslateError("macro_rules! %s defined twice in %s" % (name, fn_name))
                self.macros[name] = self.arms(name, body[k + 4:e])
                k = e + 1
            else:
                k += 1

    @staticmethod
    def close(toks, i):
        """index of the bracket that closes the one at i"""
        op = {"(": ")", "[": "]", "{": "}"}
        depth = 0
        for j in range(i, len(toks)):
            t = toks[j]
            if t.kind == "punct" and t.text in op:
                depth += 1
            elif t.kind == "punct" and t.text in op.values():
                depth -= 1
                if depth == 0:
                    return j
        raise TranslateError("unbalanced brackets in a macro")

    def arms(self, name, toks):
        arms = []
        k = 0
        while k < len(toks):
            if toks[k].text != "(":
                raise TranslateError("macro_rules! %s: an arm must start with `(`" % name)
            e = self.close(toks, k)
            pat = self.pattern(name, toks[k + 1:e])
            if toks[e + 1].text != "=>" or toks[e + 2].text != "{":
                raise TranslateError("macro_rules! %s: `=> {` expected" % name)
            b = self.close(toks, e + 2)
            arms.append((pat, toks[e + 3:b]))
            k = b + 1
            if k < len(toks) and toks[k].text == ";":
                k += 1
        return arms

    def pattern(self, name, toks):
        """[("var", x)] .. optionally ending in ("rep", x): `$x:expr, .., $($y:expr),+`"""
        pat = []
        k = 0
        while k < len(toks):
            if pat:
                if toks[k].text != ",":
                    raise TranslateError("macro_rules! %s: pattern outside the subset" % name)
                k += 1
            if toks[k].text != "$":
                raise TranslateError("macro_rules! %s: pattern outside the subset" % name)
            if toks[k + 1].text == "(":
                e = self.close(toks, k + 1)
                inner = toks[k + 2:e]
                if [t.text for t in inner[:1]] != ["$"] or len(inner) != 4 or inner[2].text != ":" or inner[3].text != "expr" \
                        or [t.text for t in toks[e + 1:]] != [",", "+"]:
                    raise TranslateError("macro_rules! %s: repetition outside the subset (`$($x:expr),+` at the end)" % name)
                pat.append(("rep", inner[1].text))
                k = len(toks)
            else:
                if toks[k + 2].text != ":" or toks[k + 3].text != "expr":
                    raise TranslateError("macro_rules! %s: only `$x:expr` fragments are supported" % name)
                pat.append(("var", toks[k + 1].text))
                k += 4
        return pat

    @staticmethod
    def split_args(toks):
        args, cur, depth = [], [], 0
        for t in toks:
            if t.kind == "punct" and t.text in ("(", "[", "{"):
                depth += 1
            elif t.kind == "punct" and t.text in (")", "]", "}"):
                depth -= 1
            if t.kind == "punct" and t.text == "," and depth == 0:
                args.append(cur)
                cur = []
            else:
                cur.append(t)
        if cur:
            args.append(cur)
        return args

    def transcribe(self, name, body, single, rep):
        def subst(arg):
            if len(arg) == 1:
                return list(arg)
            return [Tok("punct", "(", 0)] + list(arg) + [Tok("punct", ")", 0)]
        out = []
        k = 0
        while k < len(body):
            t = body[k]
            if t.kind == "punct" and t.text == "$":
                nx = body[k + 1]
                if nx.text == "(":
                    e = self.close(body, k + 1)
                    if body[e + 1].text not in ("+", "*") or rep is None:
                        raise EmitError("%s!: repetition in the body outside the subset" % name)
                    rname, rargs = rep
                    for a in rargs:
                        out.extend(self.transcribe(name, body[k + 2:e], dict(single, **{rname: a}), None))
                    k = e + 2
                    continue
                if nx.text not in single:
                    raise EmitError("%s!: `$%s` is not bound here" % (name, nx.text))
                out.extend(subst(single[nx.text]))
                k += 2
                continue
            out.append(t)
            k += 1
        return out

    def expand(self, name, toks):
        args = self.split_args(toks)
        for pat, body in self.macros[name]:
            fixed = [x for kind, x in pat if kind == "var"]
            reps = [x for kind, x in pat if kind == "rep"]
            if (not reps and len(args) == len(fixed)) or (reps and len(args) > len(fixed)):
                # hygiene is checked, not modelled: a local of the macro body must not occur in an argument
                lets = set()
                for q, t in enumerate(body):
                    if t.kind == "ident" and t.text == "let":
                        r = q + 1
                        if body[r].text == "mut":
                            r += 1
                        lets.add(body[r].text)
                for a in args:
                    for t in a:
                        if t.kind == "ident" and t.text in lets:
                            raise EmitError("%s!: the argument mentions `%s`, a local of the macro body (hygiene is not modelled)" % (name, t.text))
                single = dict(zip(fixed, args))
                rep = (reps[0], args[len(fixed):]) if reps else None
                return self.transcribe(name, body, single, rep)
        raise EmitError("%s!: no arm takes %d arguments" % (name, len(args)))

    def callable(self, name):
        def h(em, e, env, k):
            toks = self.expand(name, e.toks)
            p = Parser("")
            p.toks = list(toks) + [Tok("eof", "", 0)]
            p.i = 0
            try:
                node = p.expr()
                if p.t.kind != "eof":
                    p.err("trailing tokens after the expansion")
            except ParseError as ex:
                raise EmitError("%s!: the expansion does not parse: %s" % (name, ex))
            return em.expr(node, env, k)
        return h


def m_concat(em, e, env, k):
    """concat!("a", "b", ..) of string literals: one string literal"""
    from rs2v.rparser import parse_macro_args
    args = parse_macro_args(e.toks)
    if not args or any(a.kind != "str" for a in args):
        raise EmitError("concat!: only string literals")
    return em.expr(N("str", val=b"".join(bytes(a.val) for a in args)), env, k)


def m_copy_from_slice(em, e, rt, rty, env, k):
    """`dst[..n].copy_from_slice(src)` on a byte array: tc_copy_prefix (slicing and length panics)"""
    r = e.recv
    while r.kind == "unary" and r.op in ("&", "&mut"):
        r = r.e
    if r.kind != "index" or r.idx.kind != "range" or r.idx.lo is not None or r.idx.hi is None or getattr(r.idx, "inclusive", False) \
            or len(e.args) != 1:
        raise EmitError("copy_from_slice: only `place[..n].copy_from_slice(src)`")

    def k_dst(dt, dty, env1):
        if dty != BYTES:
            raise EmitError("copy_from_slice on %r" % (dty,))

        def k_n(nt, _nty, env2):
            def k_src(st, sty, env3):
                if sty != BYTES:
                    raise EmitError("copy_from_slice(%r)" % (sty,))
                return em.bind("tc_copy_prefix %s %s %s" % (dt, nt, st), BYTES, env3,
                               lambda x, _t, env4: em.write_place(r.e, x, env4, lambda env5: k("tt", UNIT, env5)), hint="cp")
            return em.expr(e.args[0], env2, k_src)
        return em.expr(r.idx.hi, env1, k_n)
    return em.expr(r.e, env, k_dst)


m_copy_from_slice.mutates = True


def f_ufcs_write_all(em, e, env, k):
    """std::io::Write::write_all(&mut w, bytes) = w.write_all(bytes)"""
    if len(e.args) != 2:
        raise EmitError("Write::write_all takes (&mut w, bytes)")
    return em.expr(N("mcall", name="write_all", recv=e.args[0], args=[e.args[1]], targs=None), env, k)


def f_vec_new(em, e, env, k):
    if e.args:
        raise EmitError("Vec::new takes no argument")
    return k("tc_vec_new", BYTES, env)


def vocab(local):
    macros = {name: local.callable(name) for name in (local.macros if local else {})}
    macros["concat"] = m_concat
    names = set(macros) - {"concat"}

    def macro_writes(em, x):
        return ["self"] if x.name.split("::")[-1] in names else []
    return {
        "reserved": ["k", "next", "w", "s", "c", "l", "n", "r", "g", "b"],
        "result": {"err": "unit"},
        "fold_literals": True,
        "type_alias": {"str": BYTES, "W": BYTES, "Vec": BYTES, "Result": IORES},
        "structs": {
            "ColorSpec": {"coq": "tc_spec", "var": "spec", "check": local is not None, "ctor": ("mkTcSpec", [f for f, _ in SPEC_FIELDS]),
                          "fields": {f: ("tcs_" + f, "set_tcs_" + f, t) for f, t in SPEC_FIELDS}},
            "Ansi": {"coq": "(list N)", "var": "w", "check": False,
                     "fields": {"0": ("tc_ansi_f0", "set_tc_ansi_f0", BYTES)}},
        },
        "enums": {
            "Color": {"coq": "tc_color", "var": "c",
                      "variants": {v: COLOR_COQ.get(v, "Tc" + v) for v, _ in COLOR_VARIANTS},
                      "payload": {v: [U8] * len(p) for v, p in COLOR_VARIANTS if p}},
        },
        "fns": {
            "Ansi": shape("tc_ansi_mk", None, [("in", BYTES)], ANSI),
            "Vec::new": f_vec_new,
            "Write::write_all": f_ufcs_write_all,
        },
        "methods": {
            ("list", "write_all"): m_write_all,
            ("list", "copy_from_slice"): m_copy_from_slice,
            ("res", "expect"): lambda em, e, rt, rty, env, k: m_res_unwrap(em, N("mcall", name="unwrap", recv=e.recv, args=[]), rt, rty, env, k),
        },
        "macros": macros,
        "macro_writes": macro_writes,
        "opaque": {},
    }


HEADER = ("(* GENERATED by tools/gen_fn_termcolor.py (tools/rs2v) from the cargo registry source of the third-party crate\n"
          "   termcolor %s (src/lib.rs; version pinned by Cargo.lock) and harness/h-adapters/src/c16.rs (mod tc, fn render)\n"
          "   -- do not edit *)")
REQ = """From Coq Require Import NArith List Bool.
From AV Require Import Model.Base Model.Imp Model.Termcolor.
Import ListNotations.
Local Open Scope N_scope.
Local Open Scope bool_scope."""

FLAG_SETTERS = ["set_bold", "set_dimmed", "set_italic", "set_underline", "set_strikethrough", "set_reset", "set_intense"]


def check_color_enum(items):
    ens = find_items(items, "enum", "Color")
    if len(ens) != 1:
        raise TranslateError("enum Color: %d definitions" % len(ens))
    got = []
    for vname, payload, disc, _attrs in ens[0].variants:
        if disc is not None or payload == "struct":
            raise TranslateError("enum Color::%s: explicit discriminant / struct variant" % vname)
        got.append((vname, [squash(type_name(t) or "?") for t in payload] if payload else []))
    if got != COLOR_VARIANTS:
        raise TranslateError("enum Color: variants %r, Model/Termcolor.v has %r" % (got, COLOR_VARIANTS))


def coq_bytes(s):
    return "[%s]" % "; ".join(str(b) for b in s.encode("ascii"))


def harness_render_source():
    """the source text of `mod tc { .. pub fn render(..) .. }` of harness/h-adapters/src/c16.rs (the entry point)"""
    p = os.path.join(os.path.dirname(os.path.abspath(__file__)), "..", "harness", HARNESS, "src", "c16.rs")
    try:
        with open(p, encoding="utf-8") as f:
            src = f.read()
    except OSError as e:
        raise TranslateError("cannot read harness/%s/src/c16.rs: %s" % (HARNESS, e))
    mods = [text for hdr, text in top_items(src) if hdr == "mod tc"]
    if len(mods) != 1:
        raise TranslateError("harness c16.rs: %d items `mod tc`" % len(mods))
    inner = mods[0][mods[0].index("{") + 1:mods[0].rindex("}")]
    fns = [text for hdr, text in top_items(inner) if hdr.startswith("pub fn render (")]
    uses = [squash(text).rstrip(";") for hdr, text in top_items(inner) if hdr.startswith("use ")]
    if len(fns) != 1:
        raise TranslateError("harness c16.rs, mod tc: %d functions `render`" % len(fns))
    if uses != ["usesuper::TC", "usetermcolor::{Color,ColorSpec,WriteColor}"]:
        raise TranslateError("harness c16.rs, mod tc: `use` lines changed (%r): which ColorSpec / WriteColor is meant?" % (uses,))
    return fns[0]


def register(generators, gm):
    def gen():
        try:
            version, lib, src = read_area(gm)
            try:
                items = parse_file(src)
            except (ParseError, LexError) as e:
                raise TranslateError("termcolor src/lib.rs (area items): parse error: %s" % e)
            check_color_enum(items)
            sq = squash(gm.strip_comments(src))
            for need in ("pubstructAnsi<W>(W);",):
                if need not in sq:
                    raise TranslateError("termcolor src/lib.rs: `%s` not found (the vocabulary depends on it)" % need)
            lq = squash(gm.strip_comments(lib))
            for need in ("usestd::io::{self,Write};",):     # `Write` / `io::Write` in the impl headers are std's
                if need not in lq:
                    raise TranslateError("termcolor src/lib.rs: `%s` not found (the vocabulary depends on it)" % need)
            # the `set_*(&mut self, yes: bool)` methods of impl ColorSpec are exactly the ones named in the table below
            impls = [it for it in items if it.kind == "impl" and type_name(it.target) == "ColorSpec" and it.trait is None]
            if len(impls) != 1:
                raise TranslateError("impl ColorSpec: %d blocks" % len(impls))
            setters = [f.name for f in impls[0].items if f.kind == "fn" and f.name.startswith("set_")
                       and [squash(type_name(t) or "?") for _p, t in f.params] == ["bool"]]
            if sorted(setters) != sorted(FLAG_SETTERS):
                raise TranslateError("impl ColorSpec: boolean setters %r, the name table has %r" % (sorted(setters), sorted(FLAG_SETTERS)))
            local = LocalMacros(src, "write_color")
            if sorted(local.macros) != ["write_custom", "write_intense", "write_normal", "write_var_ansi_code"]:
                raise TranslateError("write_color: local macros %r" % sorted(local.macros))
            shapes = {}
            targets = [
                ("default", "ColorSpec", "g_tcr_spec_default", {"trait": "Default"}),
                ("new", "ColorSpec", "g_tcr_spec_new", {}),
                ("set_fg", "ColorSpec", "g_tcr_set_fg", {}),
                ("set_bg", "ColorSpec", "g_tcr_set_bg", {}),
            ] + [(s, "ColorSpec", "g_tcr_" + s, {}) for s in FLAG_SETTERS] + [
                ("new", "Ansi", "g_tcr_ansi_new", {}),
                ("into_inner", "Ansi", "g_tcr_ansi_into_inner", {}),
                ("write_all", "Ansi", "g_tcr_ansi_write_all", {"trait": "Write"}),
                ("write_str", "Ansi", "g_tcr_ansi_write_str", {}),
                ("write_color", "Ansi", "g_tcr_ansi_write_color", {}),
                ("reset", "Ansi", "g_tcr_ansi_reset", {"trait": "WriteColor"}),
                ("set_color", "Ansi", "g_tcr_ansi_set_color", {"trait": "WriteColor"}),
            ]
            out = [translate(src, vocab(local), targets, HEADER % version, REQ, shapes)]
            # the entry point: harness/h-adapters/src/c16.rs, mod tc, fn render
            hsrc = harness_render_source()
            out.append(translate(hsrc, vocab(None), [("render", None, "g_tcr_render", {})], "", "", shapes))
            # name tables: how the abstract target style (Spec/Targets: constructor / setter NAMES) denotes a ColorSpec
            out.append("(* names of the unit variants of `enum Color` (what its derived Debug prints, what the harness and the\n"
                       "   adapter translation call the constructor) *)")
            out.append("Definition g_tcr_color_names : list (list N * tc_color) :=\n  [%s]." % ";\n   ".join(
                "(%s, %s)" % (coq_bytes(v), COLOR_COQ.get(v, "Tc" + v)) for v, p in COLOR_VARIANTS if not p and not v.startswith("__")))
            out.append("")
            out.append("(* names of the boolean setters of `impl ColorSpec` -> the translated setter *)")
            out.append("Definition g_tcr_flag_setters : list (list N * (tc_spec -> bool -> tc_spec * tc_spec)) :=\n  [%s]." % ";\n   ".join(
                "(%s, g_tcr_%s)" % (coq_bytes(s), s) for s in FLAG_SETTERS))
            return "\n".join(out) + "\n"
        except TranslateError as e:
            raise gm.GenError(str(e))
        except KeyError as e:
            raise gm.GenError("function not found: %s" % e)
    generators["TermcolorFn"] = gen
