#!/usr/bin/env python3
"""tools/seeding/mut_prompt.py <property id> <worktree suffix> [<focus text>]

Writes the brief of an independent seeding sub-agent to stdout: the text of ONE
property (from properties.jsonl) and the path of its own scratch worktree of
/repo -- nothing else from /verif.  See DESIGN.md section 11.4."""
import json
import os
import sys

VERIF = os.path.dirname(os.path.dirname(os.path.dirname(os.path.abspath(__file__))))
pid = sys.argv[1]
sfx = sys.argv[2] if len(sys.argv) > 2 else ""
focus = sys.argv[3] if len(sys.argv) > 3 else ""
p = [json.loads(l) for l in open(os.path.join(VERIF, "properties.jsonl")) if l.strip()]
p = [x for x in p if x["id"] == pid][0]
wt = "/tmp/mut_%s%s" % (pid, sfx)
print(f"""You are a software tester. You have a scratch git worktree of the Rust workspace rust-cli/anstyle at {wt} (detached HEAD). Work ONLY inside {wt} and {wt}_out. Do NOT read or touch /repo or /verif or any other /tmp directory. There is no network; `cargo` works offline (`cargo test --offline ...`). Do NOT use `git stash` (the stash is shared between worktrees and other testers work in parallel): to switch your change off and on use `git diff -- ':(glob)crates/*/src/**' > {wt}_out/patch.diff`, `git apply -R {wt}_out/patch.diff`, `git apply {wt}_out/patch.diff`.

Here is a semantic property the code is supposed to satisfy:

  Title: {p['title']}
  Statement: {p['statement']}
  Quantified over: {p['quantifier']['text']}
  Relevant files: {', '.join(p['anchors']['files'])}

YOUR TASK: produce ONE realistic change to the source code (a plausible bug, such as a maintainer could introduce in a refactoring or "optimisation") that BREAKS this property while the crates still COMPILE and the EXISTING test suite still PASSES. The breakage must need something specific to manifest -- an unusual input, a particular chunk boundary, a multi-step sequence of operations, a particular short write / error from the inner writer, a boundary value, two sites that each look fine alone -- not something ordinary use would expose at once. Do not touch tests, benches, examples or Cargo files; change only library source under crates/*/src. Keep the change small (a few lines).

Assume the defenders already run: a differential fuzzer of the main entry points against a reference model on random and grammar-generated inputs up to a few MiB with random chunkings and scripted short writes / errors of the inner writer; entry-by-entry checks of every constant table; exhaustive sweeps of small domains (every byte, every single colour, every effect set); consistency checks of iterators; checks that integer field widths and simple arithmetic expressions keep their shape. Aim at what all of that misses. {focus}

Steps:
1. Read the relevant source files and the existing tests so that you know what the suite covers.
2. Make the change. Run the relevant existing tests (`cargo test --offline -p <crate>`; finally `cargo test --offline --workspace` once) and make sure they all still pass.
3. Write a demonstration: a new Rust test file (e.g. crates/<crate>/tests/demo_{pid.lower()}.rs) or a small example program that FAILS with your change and PASSES on the original code (verify both by switching the change off and on as described above).
4. Save into {wt}_out/: `patch.diff` (ONLY the source change, not the demo; it must not be empty), the demo file(s) copied there, and `meta.json` with keys "property" ("{pid}"), "what" (one paragraph: what the change is and why it breaks the property), "needs" (what is needed for it to manifest), "demo_cmd" (ONE plain shell command, no commentary, that runs the demo from the worktree root), "ran" (what you ran and observed).
5. Leave the worktree with the source change applied and the demo present.

Finish with a 5-line summary. Be economical: do not explore unrelated crates.""")
