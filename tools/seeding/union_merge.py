import sys,re
for p in sys.argv[1:]:
    s=open(p).read()
    out=[];mode=0
    for line in s.split("\n"):
        if line.startswith("<<<<<<< "): mode=1; continue
        if line.startswith("=======") and mode==1: mode=2; continue
        if line.startswith(">>>>>>> ") and mode==2: mode=0; continue
        out.append(line)
    res="\n".join(out)
    if p.endswith("_CoqProject"):
        lines=[l for l in res.split("\n") if l.strip()]
        seen=[];
        for l in lines:
            if l not in seen and l!="Extract.v": seen.append(l)
        res="\n".join(seen+["Extract.v"])+"\n"
    open(p,"w").write(res)
