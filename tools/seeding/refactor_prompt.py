#!/usr/bin/env python3
"""tools/seeding/refactor_prompt.py <property id> <worktree suffix>

Brief of an independent sub-agent that makes a BEHAVIOUR-PRESERVING rewrite of the
code a property is anchored in (to measure how often the checks raise an alarm on
code where the property still holds).  It is given the text of ONE property and its
own scratch worktree of /repo -- nothing else from /verif."""
import json
import os
import sys

VERIF = os.path.dirname(os.path.dirname(os.path.dirname(os.path.abspath(__file__))))
pid = sys.argv[1]
sfx = sys.argv[2] if len(sys.argv) > 2 else ""
p = [json.loads(l) for l in open(os.path.join(VERIF, "properties.jsonl")) if l.strip()]
p = [x for x in p if x["id"] == pid][0]
wt = "/tmp/ref_%s%s" % (pid, sfx)
print(f"""You are a maintainer of the Rust workspace rust-cli/anstyle. You have a scratch git worktree at {wt} (detached HEAD). Work ONLY inside {wt} and {wt}_out. Do NOT read or touch /repo or /verif or any other /tmp directory. There is no network; `cargo` works offline (`cargo test --offline ...`). Do NOT use `git stash`.

Here is a semantic property the code satisfies and must KEEP satisfying:

  Title: {p['title']}
  Statement: {p['statement']}
  Quantified over: {p['quantifier']['text']}
  Relevant files: {', '.join(p['anchors']['files'])}

YOUR TASK: make ONE realistic, strictly BEHAVIOUR-PRESERVING rewrite of the code this property is about -- the kind of clean-up, refactoring or micro-optimisation a maintainer merges without a second thought -- touching between 10 and 60 lines of library source under crates/*/src in the relevant files. Examples of what is welcome: renaming locals or private items, extracting or inlining a private helper, turning a loop into an iterator chain or back, reordering independent statements or match arms, replacing a `match` by `if let`/`matches!`, changing how a constant table is laid out in the source (same values), widening an integer type, adding `#[inline]`, rewriting comments, splitting a function. For EVERY input the observable behaviour (return values, bytes written, calls made to inner writers and their order, errors, panics or their absence) must be exactly what it was; public API signatures must not change. Do not touch tests, benches, examples or Cargo files.

Steps:
1. Read the relevant source and tests.
2. Make the rewrite. Convince yourself it is behaviour-preserving (argue it in meta.json), run `cargo test --offline --workspace` and make sure everything passes. If you can cheaply do so, also write a small differential test comparing old and new behaviour on many inputs (optional, do not save it).
3. Save into {wt}_out/: `patch.diff` (`git diff -- ':(glob)crates/*/src/**'`, must not be empty) and `meta.json` with keys "property" ("{pid}"), "what" (what was rewritten), "why_preserving" (the argument), "ran" (what you ran).
4. Leave the worktree with the change applied.

Finish with a 3-line summary. Be economical: do not explore unrelated crates.""")
