#!/usr/bin/env python3
"""Function translator, third-party crate roff (the version /repo/Cargo.lock pins, 0.2.1): src/lib.rs of the
cargo registry copy -> coq/Generated/RoffCrateFn.v (C15).

The source is located by tools/thirdparty.py (version from Cargo.lock, the one registry directory
`roff-<version>`, compared with `cargo metadata --offline` in harness/h-roff; $VERIF_REGISTRY=<dir> takes
`<dir>/roff-<version>/src/lib.rs` instead -- mutation tests only).

TRANSLATED (tools/rs2v) over the types of the hand model Model/Roff.v section (d):
  consts   APOSTROPHE, APOSTROPHE_PREABMLE (byte strings written from the `const` items)
  free fns starts_with_cc, escape_spaces, escape_leading_cc, escape_inline, escape_apostrophes,
           roman, bold, italic, line_break
  Line     control, text, render (both values of `handle_apostrophes`)
  Roff     new, control, text, to_writer, render, to_roff
Proofs/RoffCrateGen.v proves each equal to the hand model (rf_escape_inline, rf_render_line, rf_render, ..).

Modelling: a &str / String is the list of its UTF-8 bytes (so `String::from_utf8(buf).expect(..)` is the
identity: the model has no str / [u8] distinction); `Roff` = `list rf_line` (one field `lines`, identity getter /
setter), `Line` = rf_line (`Control { name, args }` is a struct variant), `Inline` = rf_inline, `Apostrophes` =
rf_apostrophes; `out: &mut dyn Write` = the bytes written so far (threaded like every `&mut`; the writer is the
Vec<u8> of to_roff / render, whose Write impl never fails), `Result<(), io::Error>` = `unit + unit`;
`write!` / `writeln!` append the literal pieces of the format string and the `{}` of a str and answer Ok(()).
Std string functions are vocabulary: str::replace(<1 char>, to) -> rf_replace1, str::replace(<2 different
chars>, to) -> rf_replace2, starts_with(char) -> rf_starts_with_char, contains(char) -> rf_contains_char,
to_string / into / as_str / as_bytes / into_iter / iter / collect identities, Iterator::map(pure closure) -> map.
Nothing is opaque."""
import os
import re
import sys

sys.path.insert(0, os.path.dirname(os.path.abspath(__file__)))
from rs2v.driver import translate, TranslateError   # noqa: E402
from rs2v.emit import EmitError                      # noqa: E402
from rs2v.rparser import parse_file, find_items, ParseError, type_name, N   # noqa: E402
from rs2v.lexer import LexError   # noqa: E402
from gen_fn_roff import m_format, m_same, m_list_map, shape, const_fn   # noqa: E402
import thirdparty   # noqa: E402

U8, BOOL, UNIT = ("int", "u8"), ("bool",), ("unit",)
BYTES = ("list", U8)
ROFF = ("struct", "Roff")
LINE, INLINE, APOS = ("enum", "Line"), ("enum", "Inline"), ("enum", "Apostrophes")
IORES = ("res", UNIT)


# ---------------------------------------------------------------------------
# vocabulary callables

def ascii_char(a, what):
    """the byte of an ASCII char literal / one-character string literal argument"""
    if a.kind == "charlit" and a.val < 128:
        return a.val
    if a.kind == "str" and len(a.val) == 1 and a.val[0] < 128:
        return a.val[0]
    raise EmitError("%s: the pattern is not one ASCII character" % what)


def m_replace(em, e, rt, rty, env, k):
    """str::replace(pattern, to): pattern = one ASCII char (char or str literal) -> rf_replace1;
    a str literal of two DIFFERENT ASCII chars -> rf_replace2 (leftmost non-overlapping matches; with two equal
    chars the matches could overlap and rf_replace2 would not be str::replace)"""
    if len(e.args) != 2 or rty != BYTES:
        raise EmitError("str::replace takes (pattern, to) on a str")
    pat = e.args[0]
    if pat.kind == "str" and len(pat.val) == 2:
        a, b = pat.val
        if a >= 128 or b >= 128 or a == b:
            raise EmitError("str::replace: a two-character pattern must be two different ASCII characters")
        head = "rf_replace2 %d %d" % (a, b)
    else:
        head = "rf_replace1 %d" % ascii_char(pat, "str::replace")

    def k1(t, ty, env1):
        if ty != BYTES:
            raise EmitError("str::replace: the replacement is no str (%r)" % (ty,))
        return k("(%s %s %s)" % (head, t, rt), BYTES, env1)
    return em.expr(e.args[1], env, k1)


def m_char_test(coq):
    def h(em, e, rt, rty, env, k):
        if len(e.args) != 1 or rty != BYTES:
            raise EmitError("str::%s takes one argument on a str" % e.name)
        return k("(%s %d %s)" % (coq, ascii_char(e.args[0], "str::" + e.name), rt), BOOL, env)
    return h


def m_res_unwrap(em, e, rt, rty, env, k):
    """Result::unwrap / expect on the sum `T + unit`: Err = panic"""
    if em.pure_mode:
        from rs2v.emit import NeedsBind
        raise NeedsBind()
    x = em.fresh("q")
    body = k(x, rty[1], env)
    return "match (%s : %s) with\n| inl %s =>\n%s\n| inr _ => None\nend" % (rt, em.coq_ty(rty), x, "\n".join("    " + l for l in body.split("\n")))


def f_from_utf8(em, e, env, k):
    """String::from_utf8(bytes): Ok(the same bytes) -- the model has no str / [u8] distinction (the bytes are UTF-8
    whenever every text handed to the API was: the crate only inserts ASCII)"""
    if len(e.args) != 1:
        raise EmitError("String::from_utf8 takes one argument")

    def k1(t, ty, env1):
        if ty != BYTES:
            raise EmitError("String::from_utf8(%r)" % (ty,))
        return k("(inl %s)" % t, ("res", BYTES), env1)
    return em.expr(e.args[0], env, k1)


def m_write_all(em, e, rt, rty, env, k):
    """<dyn Write>::write_all(bytes) on the bytes written so far: append, Ok(())"""
    if len(e.args) != 1:
        raise EmitError("write_all takes one argument")

    def k1(t, ty, env1):
        if ty != BYTES:
            raise EmitError("write_all(%r)" % (ty,))
        return em.write_place(e.recv, "(%s ++ %s)" % (rt, t), env1, lambda env2: k("(inl tt)", IORES, env2))
    return em.expr(e.args[0], env, k1)


m_write_all.mutates = True


def write_dest(x):
    toks = [t for t in x.toks]
    if not toks or toks[0].kind != "ident" or (len(toks) > 1 and toks[1].text != ","):
        raise EmitError("%s!: the destination is not a variable" % x.name)
    return toks[0].text, toks[2:]


def m_write_macro(newline):
    def h(em, e, env, k):
        """write!(out, "lit{}lit", x) / writeln!(out[, ..]): `out` is the bytes written so far; the formatted text
        (format! of gen_fn_roff.py: literal pieces and `{}` of a str) is appended, the value is Ok(())"""
        dest, rest = write_dest(e)
        v = env.get(dest)
        if v is None or v.ty != BYTES:
            raise EmitError("%s!: %s is not the writer (bytes written so far)" % (e.name, dest))
        place = N("path", segs=[dest])

        def k1(t, ty, env1):
            cur = env1.get(dest).coq
            parts = [cur] + ([t] if t else []) + (["[10]"] if newline else [])
            return em.write_place(place, "(%s)" % " ++ ".join(parts), env1, lambda env2: k("(inl tt)", IORES, env2))
        if not rest:
            if not newline:
                raise EmitError("write! without a format string")
            return k1("", BYTES, env)
        return m_format(em, N("macro", name="format", toks=rest), env, k1)
    return h


def macro_writes(em, x):
    if x.name.split("::")[-1] in ("write", "writeln"):
        return [write_dest(x)[0]]
    return []


def m_vec(em, e, env, k):
    """vec![]: the empty list (the element type comes from `local_types`)"""
    if e.toks:
        raise EmitError("vec![..] with elements")
    return k("[]", ("list", ("unknown",)), env)


# ---------------------------------------------------------------------------
# vocabulary

def vocab(consts):
    return {
        "reserved": ["k", "next", "d", "l", "s", "t", "c", "a", "b"],
        "result": {"err": "unit"},
        "for_ret_state": True,
        "type_alias": {"str": BYTES, "String": BYTES},
        "opaque_types": {"Write": BYTES, "Into<String>": BYTES, "IntoIterator<Item=&'astr>": ("list", BYTES),
                         "Into<Vec<Inline>>": ("list", INLINE)},
        "local_types": {"Roff::to_roff": {"buf": BYTES}, "Roff::render": {"buf": BYTES}},
        "structs": {
            "Roff": {"coq": "(list rf_line)", "var": "d", "fields": {"lines": ("rf_roff_lines", "rf_roff_set_lines", ("list", LINE))}},
        },
        "enums": {
            "Line": {"coq": "rf_line", "var": "l", "variants": {"Control": "RfControl", "Text": "RfText"},
                     "payload": {"Text": [("list", INLINE)]},
                     "struct_variants": {"Control": (["name", "args"], [BYTES, ("list", BYTES)])}},
            "Inline": {"coq": "rf_inline", "var": "i",
                       "variants": {"Roman": "RfInRoman", "Italic": "RfInItalic", "Bold": "RfInBold", "LineBreak": "RfInLineBreak"},
                       "payload": {"Roman": [BYTES], "Italic": [BYTES], "Bold": [BYTES]}},
            "Apostrophes": {"coq": "rf_apostrophes", "var": "ap", "eqb": "rf_apostrophes_eqb",
                            "variants": {"Handle": "RfHandle", "DontHandle": "RfDontHandle"}},
        },
        "consts": consts,
        "fns": {
            "Default::default": const_fn("rf_roff_new", ROFF, "Default::default"),     # only in Roff::new (-> Self)
            "Inline::Roman": shape("RfInRoman", None, [("in", BYTES)], INLINE),
            "Inline::Italic": shape("RfInItalic", None, [("in", BYTES)], INLINE),
            "Inline::Bold": shape("RfInBold", None, [("in", BYTES)], INLINE),
            "Line::Text": shape("RfText", None, [("in", ("list", INLINE))], LINE),
            "String::from_utf8": f_from_utf8,
        },
        "methods": {
            ("list", "replace"): m_replace,
            ("list", "starts_with"): m_char_test("rf_starts_with_char"),
            ("list", "contains"): m_char_test("rf_contains_char"),
            ("list", "to_string"): m_same,
            ("list", "as_str"): m_same,
            ("list", "into_iter"): m_same,
            ("list", "collect"): m_same,
            ("list", "map"): m_list_map,
            ("list", "write_all"): m_write_all,
            ("res", "unwrap"): m_res_unwrap,
            ("res", "expect"): lambda em, e, rt, rty, env, k: m_res_unwrap(em, N("mcall", name="unwrap", recv=e.recv, args=[]), rt, rty, env, k),
        },
        "macros": {"write": m_write_macro(False), "writeln": m_write_macro(True), "format": m_format, "vec": m_vec},
        "macro_writes": macro_writes,
        "opaque": {},
    }


HEADER = ("(* GENERATED by tools/gen_fn_roffcrate.py (tools/rs2v) from the cargo registry source of the third-party crate\n"
          "   roff %s (src/lib.rs; version pinned by Cargo.lock) -- do not edit *)")
REQ = """From Coq Require Import NArith List Bool.
From AV Require Import Model.Base Model.Imp Model.Roff.
Import ListNotations.
Local Open Scope N_scope.
Local Open Scope bool_scope."""

INLINE_VARIANTS = [("Roman", ["String"]), ("Italic", ["String"]), ("Bold", ["String"]), ("LineBreak", [])]


def squash(s):
    return re.sub(r"\s+", "", s)


def check_enum(items, name, expected):
    ens = find_items(items, "enum", name)
    if len(ens) != 1:
        raise TranslateError("enum %s: %d definitions" % (name, len(ens)))
    got = []
    for vname, payload, disc, _attrs in ens[0].variants:
        if disc is not None:
            raise TranslateError("enum %s::%s: explicit discriminant" % (name, vname))
        got.append((vname, payload if payload == "struct" else ([squash(type_name(t) or "?") for t in payload] if payload else [])))
    if got != expected:
        raise TranslateError("enum %s: variants %r, the vocabulary models %r" % (name, got, expected))


def register(generators, gm):
    def gen():
        try:
            version, _dir = thirdparty.crate_dir(gm, "roff")
            src = thirdparty.read_crate(gm, "roff", "src/lib.rs")
            try:
                items = parse_file(src)
            except (ParseError, LexError) as e:
                raise TranslateError("roff src/lib.rs: parse error: %s" % e)
            # the data types the vocabulary models
            check_enum(items, "Inline", INLINE_VARIANTS)
            check_enum(items, "Line", [("Control", "struct"), ("Text", ["Vec"])])
            check_enum(items, "Apostrophes", [("Handle", []), ("DontHandle", [])])
            sq = squash(gm.strip_comments(src))
            for need in ("enumLine{Control{name:String,args:Vec<String>,},Text(Vec<Inline>),}",     # the parser keeps no field list of a struct variant
                         "#[derive(Eq,PartialEq)]enumApostrophes{",                                # `==` on Apostrophes is the derived one
                         "usestd::io::Write;"):
                if need not in sq:
                    raise TranslateError("roff src/lib.rs: `%s` not found (the vocabulary depends on it)" % need)
            for tr in ("PartialEq", "Write"):
                if re.search(r"impl(<[^>]*>)?%sfor" % tr, sq):
                    raise TranslateError("roff src/lib.rs: a hand-written impl of %s (the vocabulary assumes the derived / std one)" % tr)
            # the two &str constants, as byte strings
            consts = {}
            out = []
            for cname in ("APOSTROPHE", "APOSTROPHE_PREABMLE"):
                cs = find_items(items, "const", cname)
                if len(cs) != 1 or cs[0].val.kind != "str" or squash(type_name(cs[0].ty) or "") != "str":
                    raise TranslateError("const %s: not exactly one `const %s: &str = \"..\"`" % (cname, cname))
                if any(b >= 128 for b in cs[0].val.val):
                    raise TranslateError("const %s: non-ASCII literal" % cname)
                consts[cname] = ("g_rc_%s" % cname, BYTES)
                out.append("(* const %s *)\nDefinition g_rc_%s : list N := [%s].\n" % (cname, cname, "; ".join(str(b) for b in cs[0].val.val)))
            shapes = {}
            head = translate(src, vocab(consts), [
                ("starts_with_cc", None, "g_rc_starts_with_cc", {}),
                ("escape_spaces", None, "g_rc_escape_spaces", {}),
                ("escape_leading_cc", None, "g_rc_escape_leading_cc", {}),
                ("escape_inline", None, "g_rc_escape_inline", {}),
            ], HEADER % version, REQ, shapes)
            # the constants are used from escape_apostrophes on: they are written between the two groups
            rest = translate(src, vocab(consts), [
                ("escape_apostrophes", None, "g_rc_escape_apostrophes", {}),
                ("roman", None, "g_rc_roman", {}),
                ("bold", None, "g_rc_bold", {}),
                ("italic", None, "g_rc_italic", {}),
                ("line_break", None, "g_rc_line_break", {}),
                ("control", "Line", "g_rc_line_control", {}),
                ("text", "Line", "g_rc_line_text", {}),
                ("render", "Line", "g_rc_line_render", {}),
                ("new", "Roff", "g_rc_new", {}),
                ("control", "Roff", "g_rc_control", {}),
                ("text", "Roff", "g_rc_text", {}),
                ("to_writer", "Roff", "g_rc_to_writer", {}),
                ("render", "Roff", "g_rc_render", {}),
                ("to_roff", "Roff", "g_rc_to_roff", {}),
            ], "", "", shapes)
            return head + "\n" + "\n".join(out) + rest + "\n"
        except TranslateError as e:
            raise gm.GenError(str(e))
        except KeyError as e:
            raise gm.GenError("function not found: %s" % e)
    generators["RoffCrateFn"] = gen
