#!/usr/bin/env python3
"""Function translator, anstyle-svg: crates/anstyle-svg/src/lib.rs -> coq/Generated/SvgFn.v (C14).

TRANSLATED (tools/rs2v) into Gallina over the types of the hand model (Model/Svg.v):
  rgb_value, color_name, color_styles, split_lines, write_fg_span, write_bg_span and
  Term::render_svg (the INVERT pre-pass, the geometry, the whole template);
  Term::{new, palette, fg_color, bg_color, background, min_width_px}, `impl Default for Term` and the constants
  FG_COLOR / BG_COLOR over the WHOLE struct (Model/Svg.svg_term_full: all seven fields, per-field setters;
  second vocabulary VOCAB_TERM, no oracle parameter).
Proofs/SvgGen.v proves every translation equal to the hand model the theorems of C14 are about.

What these functions CALL is vocabulary:
  * std: str::{split_once, strip_suffix, is_empty, replace, repeat, starts_with, as_str}, [&str]::join,
    Vec::{new, push, is_empty, len, last_mut}, Iterator::{map, any, sum, max, collect::<Vec<_>>},
    Option::{map, is_some, unwrap_or, as_deref}, BTreeMap::{new, insert, into_iter}, std::cmp::max,
    format! / write! / writeln! with literal format strings (`{x}` of a &str / String / usize, `{x:02X}` and
    `{x:03}` of a u8: the printers svg_dec / svg_hex2 / svg_dec3 of the hand model) into a String (never fails:
    `.unwrap()` on the fmt::Result is the identity);
  * anstyle: Style::{get_fg_color, get_bg_color, get_underline_color, get_effects, fg_color, bg_color, effects},
    Effects::{new, contains, remove, |=, constants}, Ansi256Color::{from_ansi, index} (the functions translated in
    Generated/LossyFn.v), anstyle_lossy::color_to_rgb (Generated/LossyFn.g_color_to_rgb), the palette constant
    `VGA` (Generated/Palette.vga; the `pub use anstyle_lossy::palette::VGA;` line is checked);
  * anstream: WinconBytes::new() = Generated/WinconFn.g_wb_new and `.extract_next(bytes).collect()` =
    Proofs/WinconGen.gt_extract_next (the drain of the TRANSLATED WinconBytes::extract_next / WinconBytesIter::next):
    nothing of adapter/wincon.rs is pinned here any more, an edit of WinconBytes::new changes g_wb_new and breaks
    g_wb_new_eq / translated_wb_extract_next_is_model (Proofs/WinconGen.v), which render_svg's proof rewrites with
    (WinconFn is in C14's gen_deps);
  * html_escape::encode_text (third party): Model/Svg.svg_encode_text;
  * the ORACLE `o : svg_oracle` (first argument of every function translated with VOCAB): unicode_width's
    UnicodeWidthStr::width, the f64 expression `(x as f64 * 8.4).ceil() as usize` as a function of x, and
    Term::min_width_px -- exactly what the hand model leaves to its arguments width_px / wf.

CHECKED, not hashed: the exact list of methods of `impl Term` (render_svg's translation reads font_family / padding_px
as the constants of Term::new because no method assigns them; Proofs/SvgGen.v proves that Term::new establishes and
every builder of the list keeps svg_tf_consts).  No token pin is left in this plug-in."""
import os
import sys

sys.path.insert(0, os.path.dirname(os.path.abspath(__file__)))
from rs2v.driver import translate, TranslateError                          # noqa: E402
from rs2v.emit import EmitError, NeedsBind, Emitter, Env                    # noqa: E402
from rs2v.rparser import parse_macro_args, parse_file, find_items, ParseError   # noqa: E402
from rs2v.lexer import tokenize                                             # noqa: E402

U8, USZ, CHAR = ("int", "u8"), ("int", "usize"), ("int", "char")
BOOL, UNIT = ("bool",), ("unit",)
STR = ("struct", "Str")
BYTES = ("list", U8)
STYLE, EFFECTS = ("struct", "Style"), ("struct", "Effects")
COLOR, ANSI = ("enum", "Color"), ("enum", "AnsiColor")
RGB, A256, PAL = ("struct", "RgbColor"), ("struct", "Ansi256Color"), ("struct", "Palette")
BTREE = ("struct", "BTreeMap")
WBYTES = ("struct", "WinconBytes")
FMTRES = ("fmtres",)
RUN = ("tuple", (STYLE, STR))

ANSI_NAMES = ["Black", "Red", "Green", "Yellow", "Blue", "Magenta", "Cyan", "White",
              "BrightBlack", "BrightRed", "BrightGreen", "BrightYellow", "BrightBlue", "BrightMagenta", "BrightCyan", "BrightWhite"]
EFFECT_NAMES = ["BOLD", "DIMMED", "ITALIC", "UNDERLINE", "DOUBLE_UNDERLINE", "CURLY_UNDERLINE", "DOTTED_UNDERLINE", "DASHED_UNDERLINE",
                "BLINK", "INVERT", "HIDDEN", "STRIKETHROUGH"]


def coq_chars(s):
    return "[" + "; ".join(str(ord(c)) for c in s) + "]"


# ---------------------------------------------------------------------------
# format strings

def parse_fmt(s):
    """a format string -> [("lit", text) | ("arg", name, spec)]"""
    pieces, lit, i = [], [], 0
    while i < len(s):
        c = s[i]
        if c == "{":
            if s[i + 1:i + 2] == "{":
                lit.append("{")
                i += 2
                continue
            j = s.find("}", i)
            if j < 0:
                raise EmitError("format string: unbalanced {")
            name, _, spec = s[i + 1:j].partition(":")
            if not name.isidentifier():
                raise EmitError("format string: only inline named arguments `{x}` / `{x:spec}` are in the vocabulary (found {%s})" % s[i + 1:j])
            if lit:
                pieces.append(("lit", "".join(lit)))
                lit = []
            pieces.append(("arg", name, spec))
            i = j + 1
        elif c == "}":
            if s[i + 1:i + 2] != "}":
                raise EmitError("format string: stray }")
            lit.append("}")
            i += 2
        else:
            lit.append(c)
            i += 1
    if lit:
        pieces.append(("lit", "".join(lit)))
    return pieces


# Display / UpperHex of the argument types that occur: (type, format spec) -> printer of the hand model
PRINTERS = {
    (STR, ""): "%s",
    (USZ, ""): "(svg_dec %s)",
    (U8, "02X"): "(svg_hex2 %s)",
    (U8, "03"): "(svg_dec3 %s)",
}


def fmt_terms(em, args, env, newline):
    """the list of Gallina terms (code point lists) a format invocation writes"""
    if not args:
        return [coq_chars("\n")] if newline else []
    if args[0].kind != "str":
        raise EmitError("format string is not a literal")
    if len(args) > 1:
        raise EmitError("format arguments after the format string are not in the vocabulary (inline `{x}` only)")
    pieces = parse_fmt(bytes(args[0].val).decode("utf-8"))
    if newline:
        if pieces and pieces[-1][0] == "lit":
            pieces[-1] = ("lit", pieces[-1][1] + "\n")
        else:
            pieces.append(("lit", "\n"))
    out = []
    for p in pieces:
        if p[0] == "lit":
            out.append(coq_chars(p[1]))
            continue
        _, name, spec = p
        v = env.get(name)
        if v is not None:
            term, ty = v.coq, v.ty
        elif name in em.v.get("consts", {}):
            term, ty = em.v["consts"][name]
        else:
            raise EmitError("format argument {%s}: unknown name" % name)
        pr = PRINTERS.get((ty, spec))
        if pr is None:
            raise EmitError("format argument {%s:%s} of type %r: no printer in the vocabulary" % (name, spec, ty))
        out.append(pr % term)
    return out


def mac_format(em, e, env, k):
    ts = fmt_terms(em, parse_macro_args(e.toks), env, False)
    return k("(" + " ++ ".join(ts) + ")" if ts else "[]", STR, env)


def mac_write(newline):
    def h(em, e, env, k):
        args = parse_macro_args(e.toks)
        if not args:
            raise EmitError("write! without a destination")
        dest = args[0]
        pr = em.try_pure(dest, env)
        if pr is None or pr[1] != STR:
            raise EmitError("write!: the destination is not a String place")
        ts = fmt_terms(em, args[1:], env, newline)
        new = "(" + " ++ ".join([pr[0]] + ts) + ")"
        return em.write_place(dest, new, env, lambda env2: k("tt", FMTRES, env2))
    # (for the translator's assigned-variables analysis: the macro writes to its first argument)
    h.writes = lambda node: parse_macro_args(node.toks)[:1]
    return h


def m_fmtres_unwrap(em, e, rt, rty, env, k):
    # fmt::Write for String never fails
    return k("tt", UNIT, env)


# ---------------------------------------------------------------------------
# methods

def noargs(e, what):
    if e.args:
        raise EmitError("%s takes no argument here" % what)


def m_pure(fmt, ty, what):
    def h(em, e, rt, rty, env, k):
        noargs(e, what)
        return k(fmt % rt, ty, env)
    return h


def m_ident(what):
    def h(em, e, rt, rty, env, k):
        noargs(e, what)
        return k(rt, rty, env)
    return h


def char_arg(a, what):
    if a.kind != "charlit":
        raise EmitError("%s: the argument is not a character literal" % what)
    return a.val


def m_char1(fmt, ty, what):
    def h(em, e, rt, rty, env, k):
        if len(e.args) != 1:
            raise EmitError("%s: one argument expected" % what)
        return k(fmt % {"r": rt, "c": char_arg(e.args[0], what)}, ty, env)
    return h


def m_str_replace(em, e, rt, rty, env, k):
    if len(e.args) != 2 or e.args[1].kind != "str":
        raise EmitError("str::replace(char literal, string literal) only")
    c = char_arg(e.args[0], "str::replace")
    return k("(svg_str_replace %d %s %s)" % (c, coq_chars(bytes(e.args[1].val).decode("utf-8")), rt), STR, env)


def m_arg1(fmt, ty, what):
    def h(em, e, rt, rty, env, k):
        if len(e.args) != 1:
            raise EmitError("%s: one argument expected" % what)
        return em.expr(e.args[0], env, lambda t, _ty, env1: k(fmt % {"r": rt, "a": t}, ty, env1))
    return h


def closure_fun(em, cl, elt, env, what):
    """a one-parameter closure without effects -> (Gallina function, result type)"""
    if cl.kind != "closure" or len(cl.params) != 1:
        raise EmitError("%s needs a one-parameter closure" % what)
    p = cl.params[0][0]
    while p.kind == "pref":
        p = p.inner
    env2 = env
    if p.kind == "pident":
        c = em.fresh(p.name)
        env2 = env2.bind(p.name, c, elt)
        head = c
    elif p.kind == "ptuple":
        tys = elt[1] if elt[0] == "tuple" and len(elt[1]) == len(p.elems) else None
        if tys is None:
            raise EmitError("%s: tuple pattern against %r" % (what, elt))
        names = []
        for x, t in zip(p.elems, tys):
            while x.kind == "pref":
                x = x.inner
            if x.kind == "pwild":
                names.append("_")
            elif x.kind == "pident":
                c = em.fresh(x.name)
                names.append(c)
                env2 = env2.bind(x.name, c, t)
            else:
                raise EmitError("%s: closure parameter pattern" % what)
        head = "'(" + ", ".join(names) + ")"
    else:
        raise EmitError("%s: closure parameter pattern" % what)
    pr = em.try_pure(cl.body, env2)
    if pr is None:
        raise EmitError("%s: the closure can panic or assigns a captured variable" % what)
    return "(fun %s => %s)" % (head, pr[0]), pr[1]


def m_list_map(em, e, rt, rty, env, k):
    f, ty = closure_fun(em, e.args[0] if e.args else None, rty[1], env, "Iterator::map")
    return k("(map %s %s)" % (f, rt), ("list", ty), env)


def m_list_any(em, e, rt, rty, env, k):
    f, ty = closure_fun(em, e.args[0] if e.args else None, rty[1], env, "Iterator::any")
    if ty != BOOL:
        raise EmitError("Iterator::any: the closure does not answer a bool")
    return k("(existsb %s %s)" % (f, rt), BOOL, env)


def m_list_sum(em, e, rt, rty, env, k):
    noargs(e, "sum")
    if rty != ("list", USZ):
        raise EmitError("Iterator::sum over %r" % (rty,))
    return k("(svg_sum %s)" % rt, USZ, env)


def m_list_max(em, e, rt, rty, env, k):
    noargs(e, "max")
    if rty != ("list", USZ):
        raise EmitError("Iterator::max over %r" % (rty,))
    return k("(svg_max_opt %s)" % rt, ("opt", USZ), env)


def m_list_collect(em, e, rt, rty, env, k):
    noargs(e, "collect")
    if getattr(e, "targs", None) != "<Vec<_>>":
        raise EmitError("collect: only `collect::<Vec<_>>()` is in the vocabulary")
    return k(rt, rty, env)


def m_list_join(em, e, rt, rty, env, k):
    if len(e.args) != 1 or e.args[0].kind != "str" or rty not in (("list", STR), ("list", ("unknown",))):
        raise EmitError("[&str]::join(string literal) only")
    return k("(svg_join %s %s)" % (coq_chars(bytes(e.args[0].val).decode("utf-8")), rt), STR, env)


def m_opt_map(em, e, rt, rty, env, k):
    """Option::map with a closure that may panic (it calls a translated function)"""
    if len(e.args) != 1 or e.args[0].kind != "closure" or len(e.args[0].params) != 1:
        raise EmitError("Option::map needs a one-parameter closure")
    cl = e.args[0]
    p = cl.params[0][0]
    if p.kind != "pident":
        raise EmitError("Option::map: closure parameter pattern")
    if em.pure_mode:
        raise NeedsBind()
    c = em.fresh(p.name)
    env2 = env.bind(p.name, c, rty[1])
    box = []

    def kk(t, ty, env3):
        box.append(ty)
        return "Some (Some %s)" % t
    body = em.expr(cl.body, env2, kk)
    if len(box) != 1:
        raise EmitError("Option::map: closure with several exits")
    code = "(match %s with\n| Some %s =>\n%s\n| None => Some None\nend)" % (rt, c, "\n".join("    " + l for l in body.split("\n")))
    return em.bind(code, ("opt", box[0]), env, k, hint="om")


def m_btree_insert(em, e, rt, rty, env, k):
    if len(e.args) != 2:
        raise EmitError("BTreeMap::insert: two arguments expected")

    def k2(ts, tys, env1):
        if tys != [STR, STR]:
            raise EmitError("BTreeMap::insert(%r)" % (tys,))
        # (the receiver has not changed while the arguments were evaluated: they do not mention it)
        return em.write_place(e.recv, "(svg_btree_insert %s %s %s)" % (rt, ts[0], ts[1]), env1, lambda env2: k("tt", UNIT, env2))
    return em.exprs(e.args, env, k2)


m_btree_insert.mutates = True


def m_extract_next(em, e, rt, rty, env, k):
    """WinconBytes::extract_next(bytes) drained (`.collect()` follows): Proofs/WinconGen.gt_extract_next, the drain of the
    TRANSLATED WinconBytes::extract_next / WinconBytesIter::next (Generated/WinconFn.v) with the iterator's parser and
    capture copied back into the WinconBytes it borrows from"""
    if len(e.args) != 1:
        raise EmitError("extract_next: one argument expected")
    if em.pure_mode:
        raise NeedsBind()

    def k1(t, ty, env1):
        if ty != BYTES:
            raise EmitError("extract_next of a value of type %r" % (ty,))
        runs, wb = em.fresh("runs"), em.fresh("wb")
        head = "'(%s, %s) <- gt_extract_next %s %s ;;\n" % (runs, wb, t, rt)
        return head + em.write_place(e.recv, wb, env1, lambda env2: k(runs, ("list", RUN), env2))
    return em.expr(e.args[0], env, k1)


m_extract_next.mutates = True


def m_width(em, e, rt, rty, env, k):
    noargs(e, "UnicodeWidthStr::width")
    return k("(svg_o_uw o %s)" % rt, USZ, env)


# ---------------------------------------------------------------------------
# functions

def f_const(term, ty, what):
    def h(em, e, env, k):
        noargs(e, what)
        return k(term, ty, env)
    return h


def f_vec_new(em, e, env, k):
    noargs(e, "Vec::new")
    ty = getattr(em, "assign_ty", None)
    return k("[]", ty if ty is not None and ty[0] == "list" else ("list", ("unknown",)), env)


def shape(coq, params, ret, total=True, self_mode=None):
    return {"coq": coq, "self": self_mode, "params": params, "ret": ret, "total": total, "cfg": False}


def cast_hook(em, e, env, k):
    """`(x as f64 * 8.4).ceil() as usize`: a function of x the hand model leaves to its oracle"""
    def strip(x):
        while x.kind == "paren":
            x = x.e
        return x
    inner = strip(e.e)
    if em.ty_of_ast(e.ty) == USZ and inner.kind == "mcall" and inner.name == "ceil" and not inner.args:
        prod = strip(inner.recv)
        if prod.kind == "binary" and prod.op == "*":
            l, r = strip(prod.l), strip(prod.r)
            if l.kind == "cast" and getattr(l.ty, "segs", None) == ["f64"] and r.kind == "float" and r.text == "8.4":
                def k1(t, ty, env1):
                    if ty != USZ:
                        raise EmitError("f64 width expression over %r" % (ty,))
                    return k("(svg_o_ceil84 o %s)" % t, USZ, env1)
                return em.expr(l.e, env, k1)
        raise EmitError("f64 expression other than `(x as f64 * 8.4).ceil() as usize`")
    return None


def fuel_split_lines(env):
    # `while let Some(..) = next.split_once('\n')`: every iteration but the last removes a newline from `next`
    return "(S (length %s))" % env.get("next").coq


VOCAB = {
    "config_param": ("o", "svg_oracle"),
    "reserved": ["o", "t", "s", "k", "svg_o_uw", "svg_o_ceil84", "g_extract_next", "gt_extract_next", "g_wb_new", "g_color_to_rgb", "g_from_ansi", "g_a256_index",
                 "parser_new", "capture_default", "existsb", "flat_map", "option_map", "color", "colour", "rgb", "N", "max", "lor", "ldiff"],
    "str_chars": STR,
    "for_mut": True,
    "cast_hook": cast_hook,
    "borrow_methods": {("list", "last_mut"): {"get": "svg_last", "set": "svg_set_last"}},
    "type_alias": {"str": STR, "String": STR},
    "param_types": {"ansi": BYTES},
    "enums": {
        "AnsiColor": {"coq": "N", "eqb": "N.eqb", "native": False, "variants": {n: str(i) for i, n in enumerate(ANSI_NAMES)}},
        "Color": {"coq": "color", "variants": {"Ansi": "Ansi", "Ansi256": "Ansi256", "Rgb": "Rgb"},
                  "payload": {"Ansi": [ANSI], "Ansi256": [A256], "Rgb": [RGB]}},
    },
    "structs": {
        "Term": {"coq": "svg_term", "var": "t", "fields": {
            "palette": ("svg_t_palette", None, PAL),
            "fg_color": ("svg_t_fg_c", None, COLOR),
            "bg_color": ("svg_t_bg_c", None, COLOR),
            "background": ("svg_t_background", None, BOOL),
            "font_family": ("svg_t_font_family", None, STR),
            "min_width_px": ("svg_t_min_width o", None, USZ),
            "padding_px": ("svg_t_padding", None, USZ),
        }},
        "Str": {"coq": "(list N)", "var": "s", "fields": {}, "check": False},
        "Style": {"coq": "sstyle", "var": "s", "fields": {}, "check": False},
        "Effects": {"coq": "N", "var": "e", "fields": {}, "check": False, "bitor": "N.lor"},
        "RgbColor": {"coq": "rgb", "var": "c", "check": False, "tuple_pattern": True, "fields": {
            "0": ("rgb_f0", None, U8), "1": ("rgb_f1", None, U8), "2": ("rgb_f2", None, U8)}},
        "Ansi256Color": {"coq": "N", "var": "i", "check": False, "fields": {"0": ("a256_f0", None, U8)}},
        "Palette": {"coq": "(list rgb)", "var": "p", "check": False, "fields": {}},
        "BTreeMap": {"coq": "(list (list N * list N))", "var": "m", "check": False, "fields": {}},
        "WinconBytes": {"coq": "wbytes", "var": "wb", "check": False, "fields": {}},
    },
    "consts": dict([("Effects::" + n, ("eff_" + n.lower(), EFFECTS)) for n in EFFECT_NAMES] + [
        ("ANSI_NAMES", ("svg_ansi_names", ("list", STR))),
        ("FG_PREFIX", ("svg_fg_prefix", STR)),
        ("BG_PREFIX", ("svg_bg_prefix", STR)),
        ("UNDERLINE_PREFIX", ("svg_underline_prefix", STR)),
    ]),
    "local_types": {
        "split_lines": {"lines": ("list", ("list", RUN))},
    },
    "fns": {
        "Vec::new": f_vec_new,
        "String::new": f_const("[]", STR, "String::new"),
        "BTreeMap::new": f_const("[]", BTREE, "BTreeMap::new"),
        "Effects::new": f_const("0", EFFECTS, "Effects::new"),
        "WinconBytes::new": f_const("g_wb_new", WBYTES, "WinconBytes::new"),      # translated in Generated/WinconFn.v
        "html_escape::encode_text": shape("svg_encode_text", [("in", STR)], STR),
        "anstyle_lossy::color_to_rgb": shape("g_color_to_rgb", [("in", COLOR), ("in", PAL)], RGB, total=False),
        "Ansi256Color::from_ansi": shape("g_from_ansi", [("in", ANSI)], A256, total=False),
        "cmp::max": shape("N.max", [("in", USZ), ("in", USZ)], USZ),
    },
    "methods": {
        ("fmtres", "unwrap"): m_fmtres_unwrap,
        ("Str", "is_empty"): m_pure("(is_empty %s)", BOOL, "str::is_empty"),
        ("Str", "as_str"): m_ident("String::as_str"),
        ("Str", "split_once"): m_char1("(svg_split_once %(c)d %(r)s)", ("opt", ("tuple", (STR, STR))), "str::split_once"),
        ("Str", "strip_suffix"): m_char1("(svg_strip_suffix %(r)s %(c)d)", ("opt", STR), "str::strip_suffix"),
        ("Str", "replace"): m_str_replace,
        ("Str", "repeat"): m_arg1("(svg_str_repeat %(r)s %(a)s)", STR, "str::repeat"),
        ("Str", "starts_with"): m_arg1("(svg_str_starts_with %(r)s %(a)s)", BOOL, "str::starts_with"),
        ("Str", "width"): m_width,
        ("list", "map"): m_list_map,
        ("list", "any"): m_list_any,
        ("list", "sum"): m_list_sum,
        ("list", "max"): m_list_max,
        ("list", "collect"): m_list_collect,
        ("list", "join"): m_list_join,
        ("opt", "map"): m_opt_map,
        ("BTreeMap", "insert"): m_btree_insert,
        ("BTreeMap", "into_iter"): m_pure("%s", ("list", ("tuple", (STR, STR))), "BTreeMap::into_iter"),
        ("WinconBytes", "extract_next"): m_extract_next,
        ("Style", "get_fg_color"): m_pure("(svg_get_fg %s)", ("opt", COLOR), "Style::get_fg_color"),
        ("Style", "get_bg_color"): m_pure("(svg_get_bg %s)", ("opt", COLOR), "Style::get_bg_color"),
        ("Style", "get_underline_color"): m_pure("(svg_get_ul %s)", ("opt", COLOR), "Style::get_underline_color"),
        ("Style", "get_effects"): m_pure("(s_eff %s)", EFFECTS, "Style::get_effects"),
        ("Style", "fg_color"): m_arg1("(svg_set_fg %(r)s %(a)s)", STYLE, "Style::fg_color"),
        ("Style", "bg_color"): m_arg1("(svg_set_bg %(r)s %(a)s)", STYLE, "Style::bg_color"),
        ("Style", "effects"): m_arg1("(set_eff %(r)s %(a)s)", STYLE, "Style::effects"),
        ("Effects", "contains"): m_arg1("(svg_contains %(r)s %(a)s)", BOOL, "Effects::contains"),
        ("Effects", "remove"): m_arg1("(N.ldiff %(r)s %(a)s)", EFFECTS, "Effects::remove"),
        ("Ansi256Color", "index"): shape("g_a256_index", [], U8, self_mode="in"),
    },
    "macros": {"format": mac_format, "write": mac_write(False), "writeln": mac_write(True)},
    "fuel": {"split_lines": [fuel_split_lines]},
    "opaque": {},
}

# ---------------------------------------------------------------------------
# Term::new, the builders, impl Default: a SECOND vocabulary over the whole `struct Term` (Model/Svg.svg_term_full:
# every field, with per-field setters).  render_svg keeps the entry above (the hand model's four-field record,
# font_family / padding_px as constants, min_width_px from the oracle); Proofs/SvgGen.v relates the two through
# the projections svg_tf_term / svg_tf_oracle and the invariant svg_tf_consts.
TERM_FIELDS = [("palette", PAL), ("fg_color", COLOR), ("bg_color", COLOR), ("background", BOOL),
               ("font_family", STR), ("min_width_px", USZ), ("padding_px", USZ)]
TERM_FULL = {"coq": "svg_term_full", "var": "t", "ctor": ("mkSvgTermFull", [f for f, _ in TERM_FIELDS]),
             "fields": {f: ("svg_tf_" + f, "set_svg_tf_" + f, ty) for f, ty in TERM_FIELDS}}
# the crate's own colour constants are translated (const_defs), VGA is the palette of Generated/Palette.v
TERM_CONSTS = [("FG_COLOR", "g_svg_const_fg_color"), ("BG_COLOR", "g_svg_const_bg_color")]
VOCAB_TERM = dict(VOCAB)
del VOCAB_TERM["config_param"]
VOCAB_TERM["structs"] = dict(VOCAB["structs"], Term=TERM_FULL)
VOCAB_TERM["consts"] = dict(VOCAB["consts"], VGA=("vga", PAL), **{r: (c, COLOR) for r, c in TERM_CONSTS})
VOCAB_TERM["fns"] = dict(VOCAB["fns"], **{"Color::Ansi": shape("Ansi", [("in", ANSI)], COLOR)})
VOCAB_TERM["reserved"] = VOCAB["reserved"] + ["vga", "Ansi"] + [c for _, c in TERM_CONSTS]
# render_svg over the whole struct: the vocabulary of the helpers (oracle parameter included), only `Term` differs
VOCAB_FULL = dict(VOCAB, structs=dict(VOCAB["structs"], Term=TERM_FULL))
TERM_TARGETS = [
    ("new", "Term", "g_svg_term_new", {}),
    ("default", "Term", "g_svg_term_default", {"trait": "Default"}),
    ("palette", "Term", "g_svg_term_palette", {}),
    ("fg_color", "Term", "g_svg_term_fg_color", {}),
    ("bg_color", "Term", "g_svg_term_bg_color", {}),
    ("background", "Term", "g_svg_term_background", {}),
    ("min_width_px", "Term", "g_svg_term_min_width_px", {}),
]


def squash(s):
    return "".join(s.split())


def const_defs(src):
    """`const FG_COLOR: anstyle::Color = ..;` / BG_COLOR: the value expression, translated"""
    try:
        items = parse_file(src)
    except ParseError as e:
        raise TranslateError("parse error: %s" % e)
    em = Emitter(VOCAB_TERM, items)
    out = []
    for rname, cname in TERM_CONSTS:
        its = find_items(items, "const", rname)
        if len(its) != 1:
            raise TranslateError("const %s: %d definitions" % (rname, len(its)))
        try:
            if em.ty_of_ast(its[0].ty) != COLOR:
                raise EmitError("declared type is not anstyle::Color")
            pr = em.try_pure(its[0].val, Env(em))
            if pr is None or pr[1] != COLOR:
                raise EmitError("the value is not a constant anstyle::Color expression of the vocabulary")
        except EmitError as e:
            raise TranslateError("const %s: %s" % (rname, e))
        out.append("(* const %s *)\nDefinition %s : color :=\n  %s.\n" % (rname, cname, pr[0]))
    return "\n".join(out)


SRC = "crates/anstyle-svg/src/lib.rs"
HEADER = ("(* GENERATED by tools/gen_fn_svg.py (tools/rs2v) from crates/anstyle-svg/src/lib.rs -- do not edit *)")
REQ = """From Coq Require Import NArith List Bool.
From AV Require Import Generated.Style Generated.Palette Generated.Svg Spec.Sgr Spec.Lossy Model.Base Model.Imp Model.Parser Model.Wincon
  Model.Lossy Generated.LossyFn Generated.WinconFn Proofs.WinconGen Model.Svg.
Import ListNotations.
Local Open Scope N_scope.
Local Open Scope bool_scope."""

# hand-modelled, pinned by token hash
# the exact list of methods of `impl Term`: font_family / padding_px have no setter, which is what lets render_svg's
# translation read them as the constants of Term::new (svg_t_font_family / svg_t_padding; Proofs/SvgGen.v proves that
# Term::new and every builder listed here keep svg_tf_consts).  A new method is a GEN-ERROR: it must be translated too.
TERM_METHODS = ["new", "palette", "fg_color", "bg_color", "background", "min_width_px", "render_svg"]
# the imports the vocabulary depends on: `VGA` is anstyle_lossy's (Generated/Palette.vga), `Palette` the list of 16 rgb values
TERM_USES = ["pub use anstyle_lossy::palette::Palette;", "pub use anstyle_lossy::palette::VGA;"]


def impl_fn_names(src, name):
    """names of the functions of the inherent `impl <name> { .. }`"""
    toks = tokenize(src)
    for i, t in enumerate(toks):
        if t.kind == "ident" and t.text == "impl" and toks[i + 1].text == name and toks[i + 2].text == "{":
            depth, j, out = 0, i + 2, []
            while True:
                x = toks[j]
                if x.kind == "punct" and x.text == "{":
                    depth += 1
                elif x.kind == "punct" and x.text == "}":
                    depth -= 1
                    if depth == 0:
                        return out
                elif depth == 1 and x.kind == "ident" and x.text == "fn":
                    out.append(toks[j + 1].text)
                j += 1
    raise TranslateError("impl %s not found" % name)


TARGETS = [
    ("rgb_value", None, "g_svg_rgb_value", {}),
    ("color_name", None, "g_svg_color_name", {}),
    ("color_styles", None, "g_svg_color_styles", {}),
    ("split_lines", None, "g_svg_split_lines", {}),
    ("write_fg_span", None, "g_svg_write_fg_span", {}),
    ("write_bg_span", None, "g_svg_write_bg_span", {}),
    ("render_svg", "Term", "g_svg_render", {}),
]


def register(generators, gm):
    def gen():
        try:
            src = gm.read(SRC)
            names = impl_fn_names(src, "Term")
            if names != TERM_METHODS:
                raise TranslateError("impl Term: methods %s, expected %s (a new setter would make a constant field variable)" % (names, TERM_METHODS))
            sq = squash(gm.strip_comments(src))
            for need in TERM_USES:
                if squash(need) not in sq:
                    raise TranslateError("`%s` not found (the vocabulary of Term::new depends on it)" % need)
            shapes = {}
            out = []
            for tgt in TARGETS:
                out.append(translate(src, VOCAB, [tgt], HEADER if not out else "", REQ if not out else "", shapes))
                if tgt[0] == "color_styles":
                    # `-> impl Iterator<Item = (String, String)>`: the BTreeMap's entries in key order
                    shapes["color_styles"]["ret"] = ("list", ("tuple", (STR, STR)))
            # Term::new, impl Default, the builders: over the whole struct (VOCAB_TERM), after the colour constants
            out.append(const_defs(src))
            tshapes = {}
            out.append(translate(src, VOCAB_TERM, TERM_TARGETS, "", "", tshapes).lstrip("\n"))
            # render_svg once more, reading every `self.<field>` from the whole struct (font_family, padding_px and
            # min_width_px included): Proofs/SvgGen.v proves it equal to g_svg_render on the projections for every
            # term that keeps svg_tf_consts, i.e. the constants-for-fields reading above is a theorem, not a pin
            out.append(translate(src, VOCAB_FULL, [("render_svg", "Term", "g_svg_render_full", {"key": "Term::render_svg@full"})],
                                 "", "", shapes).lstrip("\n"))
            return "\n".join(out) + "\n"
        except TranslateError as e:
            raise gm.GenError(str(e))
    generators["SvgFn"] = gen
