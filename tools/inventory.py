#!/usr/bin/env python3
"""tools/inventory.py [--json out.json] [--md out.md] [--untied]

Which functions of /repo/crates/*/src are tied to the Coq development, and how.

Runs every generator of tools/gen_model.py (the same code every check runs) with the registry of
tools/rs2v/driver.py switched on, then walks every non-test function of the workspace's library
sources and classifies it:

  translated   the body is compiled to Gallina on every run (Generated/*Fn.v) and proved equal to the
               hand model (Proofs/*Gen.v); named with the generator and the Coq name
  inlined      a local helper whose body is inlined into a translated caller
  pinned       hand-modelled, any edit of the function is a GEN-ERROR (token hash of the function or
               of its whole file)
  data         the file is read by a table translator (tools/gen_*.py without `fn_`): constants,
               match arms and shapes are regenerated; the function itself is tied by correspondence
  untied       reached (if at all) by the differential correspondence only

The output is the "exactly which parts of the code are modelled rather than verified" table of the
trusted base; `./check` copies the per-property summary into the evidence files."""
import hashlib
import json
import os
import sys

HERE = os.path.dirname(os.path.abspath(__file__))
sys.path.insert(0, HERE)
import gen_model as gm                      # noqa: E402
from rs2v import driver as drv              # noqa: E402
from rs2v import emit as em_mod             # noqa: E402
from rs2v.rparser import parse_file, type_name, ParseError   # noqa: E402
from rs2v.lexer import LexError             # noqa: E402

REPO = gm.REPO


def sha(text):
    return hashlib.sha256(text.encode()).hexdigest()[:16]


def fp(fn):
    return sha(repr(fn))


def lib_sources():
    out = []
    root = os.path.join(REPO, "crates")
    for crate in sorted(os.listdir(root)):
        src = os.path.join(root, crate, "src")
        for d, _ds, fs in os.walk(src):
            for f in sorted(fs):
                if f.endswith(".rs"):
                    out.append(os.path.relpath(os.path.join(d, f), REPO))
    return out


def external_sources(errors):
    """third-party sources a plug-in translates (a plug-in may export `external_sources(gm) -> [(label, path)]`,
    label `extern/<crate>-<version>/src/<file>.rs`): listed and classified like the workspace's own files"""
    out = []
    for name in sorted(sys.modules):
        mod = sys.modules[name]
        f = getattr(mod, "external_sources", None) if name.startswith("gen_") else None
        if f is None:
            continue
        try:
            out.extend(f(gm))
        except Exception as e:
            errors["external_sources:" + name] = "%s: %s" % (type(e).__name__, e)
    return out


def is_test(attrs):
    txt = " ".join(str(a) for a in (attrs or []))
    if "cfg(test)" in txt or "#[test]" in txt or txt.strip() == "test":
        return True
    # `#[cfg(all(feature = "nightly", test))] mod benches` (utf8parse): compiled for tests only
    import re
    return re.search(r"cfg\s*\(\s*all\s*\([^\]]*\btest\b", txt) is not None


def walk_fns(items, ctx=None, test=False):
    """(fn node, impl target, trait, in_test) for every function with a body"""
    for it in items:
        t = test or is_test(getattr(it, "attrs", None))
        if it.kind == "fn":
            if getattr(it, "body", None) is not None:
                yield it, (ctx or (None, None)), t
        elif it.kind == "impl":
            tgt = type_name(it.target)
            tr = type_name(it.trait) if it.trait is not None else None
            yield from walk_fns(it.items, (tgt, tr), t)
        elif it.kind == "trait":
            yield from walk_fns(getattr(it, "items", []) or [], (it.name, "trait"), t)
        elif it.kind == "mod":
            sub = getattr(it, "items", None)
            if sub:
                yield from walk_fns(sub, ctx, t or it.name in ("test", "tests"))


def run_generators():
    """every generator, recording which files it reads"""
    reads = {}
    orig_read = gm.read
    current = [None]

    def rec_read(rel):
        reads.setdefault(rel, set()).add(current[0])
        return orig_read(rel)
    gm.read = rec_read
    per_gen = {}
    errors = {}
    for name, fn in gm.GENERATORS.items():
        current[0] = name
        n0, i0 = len(drv.REGISTRY), len(em_mod.INLINED)
        try:
            fn()
        except Exception as e:     # a broken tie is reported by the checks; here it is only noted
            errors[name] = "%s: %s" % (type(e).__name__, e)
        per_gen[name] = (drv.REGISTRY[n0:], em_mod.INLINED[i0:])
    gm.read = orig_read
    return per_gen, reads, errors


def main(argv):
    per_gen, reads, errors = run_generators()
    translated = {}      # (file sha, fn fingerprint) -> [(generator, coq name)]
    inlined = {}         # fn fingerprint -> [generator]
    pinned = {}          # file sha -> [(fn name, impl_of, generator)]
    hashed = {}          # fragment sha -> [generator]
    hashed_frag = {}
    for g, (reg, inl) in per_gen.items():
        for r in reg:
            if r[0] == "translated":
                translated.setdefault((r[1], fp(r[2])), []).append((g, r[3]))
            elif r[0] == "pinned":
                pinned.setdefault(r[1], []).append((r[2], r[3], g))
            elif r[0] == "hashed":
                hashed.setdefault(r[1], []).append(g)
                hashed_frag[r[1]] = r[2]
        for fn in inl:
            inlined.setdefault(fp(fn), []).append(g)
    rows = []
    sources = [(r, os.path.join(REPO, r)) for r in lib_sources()] + external_sources(errors)
    # third-party crates whose registry source a function translator read (tools/thirdparty.py): listed as
    # extern/<crate>-<version>/<file>
    import thirdparty
    seen = set(p for _r, p in sources)
    for name, version, trel, path in thirdparty.READS:
        if path not in seen:
            seen.add(path)
            sources.append(("extern/%s-%s/%s" % (name, version, trel), path))
    for rel, path in sources:
        src = open(path, encoding="utf-8").read()
        fsha = sha(src)
        try:
            items = parse_file(src)
        except (ParseError, LexError) as e:
            rows.append({"file": rel, "fn": "*", "class": "unparsed", "by": str(e)})
            continue
        table_gens = sorted(g for g in reads.get(rel, ()) if g and not g.endswith("Fn") and not g.startswith("Shape_"))
        for fn, (tgt, tr), test in walk_fns(items):
            if test:
                continue
            name = (tgt + "::" if tgt else "") + fn.name + (" [%s]" % tr if tr else "")
            row = {"file": rel, "fn": name}
            key = (fsha, fp(fn))
            if key in translated:
                row["class"] = "translated"
                row["by"] = sorted(set("%s:%s" % x for x in translated[key]))
            elif fp(fn) in inlined:
                row["class"] = "inlined"
                row["by"] = sorted(set(inlined[fp(fn)]))
            else:
                pins = [g for (n, io, g) in pinned.get(fsha, ()) if n == fn.name and (io is None or io in (tgt, tr))]
                # a fragment pin (token_hash of a piece of text): the whole file, or a piece that holds this function
                frag = []
                for h, gs in hashed.items():
                    fr = hashed_frag[h]
                    if fr == src:
                        frag.extend(gs)
                    elif not fr.startswith("fn ") and ("fn " + fn.name) in fr and fr in src:
                        # an item pin (a whole trait / impl): holds this function's text
                        ftext = _fn_text(src, fn.name, tgt, tr)
                        if ftext and ftext in fr:
                            frag.extend(gs)
                if pins or frag:
                    row["class"] = "pinned"
                    row["by"] = sorted(set(pins + frag))
                elif table_gens:
                    row["class"] = "data"
                    row["by"] = table_gens
                else:
                    row["class"] = "untied"
                    row["by"] = []
            rows.append(row)
    summary = {}
    for r in rows:
        crate = r["file"].split("/")[1]
        summary.setdefault(crate, {}).setdefault(r["class"], 0)
        summary[crate][r["class"]] += 1
    total = {}          # the workspace's own crates
    extern = {}         # third-party crates translated from the cargo registry
    for r in rows:
        t = extern if r["file"].startswith("extern/") else total
        t[r["class"]] = t.get(r["class"], 0) + 1
    out = {"repo": REPO, "generator_errors": errors, "total": total, "third_party": extern, "per_crate": summary, "functions": rows}
    args = argv[1:]
    if "--json" in args:
        json.dump(out, open(args[args.index("--json") + 1], "w"), indent=1)
    if "--md" in args:
        with open(args[args.index("--md") + 1], "w") as f:
            f.write(markdown(out))
    if "--untied" in args:
        for r in rows:
            if r["class"] in ("untied", "data"):
                print("%-8s %-45s %s %s" % (r["class"], r["file"][7:], r["fn"], ",".join(r["by"])))
    print(json.dumps({"total": total, "third_party": extern, "per_crate": summary, "generator_errors": errors}, indent=1))
    return 0


def _fn_text(src, name, tgt, tr):
    for io in (tgt, tr, None):
        n0 = len(drv.REGISTRY)
        try:
            return drv.fn_source(src, name, io)
        except Exception:
            pass
        finally:
            del drv.REGISTRY[n0:]
    return ""


def markdown(out):
    ks = ["translated", "inlined", "pinned", "data", "untied"]
    lines = ["| crate | " + " | ".join(ks) + " |", "|---|" + "---|" * len(ks)]
    for c, d in sorted(out["per_crate"].items()):
        lines.append("| %s | " % c + " | ".join(str(d.get(k, 0)) for k in ks) + " |")
    lines.append("| **total** | " + " | ".join(str(out["total"].get(k, 0)) for k in ks) + " |")
    lines.append("")
    for cls in ("data", "untied"):
        lines.append("Functions of class `%s`:" % cls)
        lines.append("")
        for r in out["functions"]:
            if r["class"] == cls:
                lines.append("* `%s` `%s`%s" % (r["file"], r["fn"], (" (" + ", ".join(r["by"]) + ")") if r["by"] else ""))
        lines.append("")
    return "\n".join(lines)


if __name__ == "__main__":
    sys.exit(main(sys.argv))
