#!/usr/bin/env python3
"""Function translator, anstream strip scanners: crates/anstream/src/adapter/strip.rs
-> coq/Generated/StripFn.v (C01, C03).

TRANSLATED (tools/rs2v) into Gallina over the vocabulary of the hand model (Model/Strip.v):
  is_printable_bytes, is_utf8_continuation, next_str, next_bytes (both `position` closures each,
  with their captured `*state` / `*utf8parser` and `return`s),
  <VtUtf8Receiver as utf8parse::Receiver>::{codepoint, invalid_sequence}, Utf8Parser::add,
  the four Iterator::next methods (StrippedStr, StripStrIter, StrippedBytes, StripBytesIter),
  StrippedStr::new, StrippedBytes::new, strip_str, strip_bytes, StrippedBytes::{into_vec, is_empty, extend},
  StripStr::{new, strip_next}, StripBytes::{new, strip_next} (`new` = a derived Default: the derive attribute and the
  field list are read from the source; `strip_next` returns a struct borrowing `&mut self.state`: the value translation
  copies the state in, Proofs/StripGen.v writes the copy-out),
  and anstyle_parse::state::{state_change_, state_change} (again, as gs_*: C01 / C03 then depend
  on nothing else of Generated/ParserFn.v).
Proofs/StripGen.v proves the translations equal to the hand model the theorems of C01 / C03
are about.

NOT translated, pinned by token hash (OPAQUE below, each with its reason):
  from_utf8_unchecked, <StrippedStr as Display>::fmt, StrippedStr::to_string;
  definitions::unpack (transmute; as in gen_fn_parser.py).
`utf8parse::Parser::advance` is a third-party dependency: hand model Model/Utf8parse.v
(u8_parser_advance); the call `self.utf8_parser.advance(&mut receiver, byte)` is translated as
"run the hand model, then call the TRANSLATED receiver method the outcome names" (m_u8_advance)."""
import os
import sys

sys.path.insert(0, os.path.dirname(os.path.abspath(__file__)))
from rs2v.driver import translate, TranslateError, token_hash, fn_source   # noqa: E402
from rs2v.emit import EmitError                                          # noqa: E402
import gen_fn_parser as P                                                # noqa: E402
from glue_common import make_f_default                                   # noqa: E402

U8, USZ, BOOL = ("int", "u8"), ("int", "usize"), ("bool",)
STATE, ACTION = ("enum", "State"), ("enum", "Action")
BYTES = ("list", U8)
U8P = ("struct", "Utf8Parser")


# -- vocabulary callables ------------------------------------------------------------------

def f_from_utf8_unchecked(em, e, env, k):
    """unsafe fn from_utf8_unchecked(bytes, justification) -> &str : identity on the bytes
    (opaque, token-pinned below)"""
    if len(e.args) != 2:
        raise EmitError("from_utf8_unchecked: expected 2 arguments")
    return em.expr(e.args[0], env, k)


def f_receiver_new(em, e, env, k):
    """VtUtf8Receiver(&mut b): the receiver IS the borrowed bool; its type remembers which
    Rust variable it borrows so that the callee's writes land there"""
    if len(e.args) != 1:
        raise EmitError("VtUtf8Receiver(..): expected 1 argument")
    a = e.args[0]
    if not (a.kind == "unary" and a.op == "&mut" and a.e.kind == "path" and len(a.e.segs) == 1):
        raise EmitError("VtUtf8Receiver(..): expected `&mut <variable>`")
    name = a.e.segs[0]
    v = env.get(name)
    if v is None or v.ty != BOOL:
        raise EmitError("VtUtf8Receiver(&mut %s): not a bool variable" % name)
    return k("tt", ("borrow", name, ("struct", "VtUtf8Receiver")), env)


def m_u8_advance(em, e, rt, rty, env, k):
    """utf8parse::Parser::advance(&mut self, receiver: &mut impl Receiver, byte): the hand model
    u8_parser_advance gives the new decoder and what the receiver is told; the receiver's
    (translated) methods are then applied to the variable the receiver borrows"""
    if len(e.args) != 2:
        raise EmitError("utf8parse advance: expected 2 arguments")
    r = e.args[0]
    if not (r.kind == "unary" and r.op == "&mut" and r.e.kind == "path" and len(r.e.segs) == 1):
        raise EmitError("utf8parse advance: receiver must be `&mut <variable>`")
    rv = env.get(r.e.segs[0])
    if rv is None or rv.ty[0] != "borrow" or rv.ty[2] != ("struct", "VtUtf8Receiver"):
        raise EmitError("utf8parse advance: receiver is not a VtUtf8Receiver")
    target = rv.ty[1]
    cp = em.fn_shapes.get("VtUtf8Receiver::codepoint")
    inv = em.fn_shapes.get("VtUtf8Receiver::invalid_sequence")
    if cp is None or inv is None:
        raise EmitError("utf8parse advance: the Receiver methods are not translated yet")

    def k_byte(bt, _bty, env1):
        if em.pure_mode:
            from rs2v.emit import NeedsBind
            raise NeedsBind()
        u2, o, c = em.fresh("u"), em.fresh("out"), em.fresh("ch")
        cur = env1.get(target).coq
        upd = "(match %s with U8None => %s | U8Codepoint %s => %s %s %s | U8Invalid => %s %s end)" % (
            o, cur, c, cp["coq"], cur, c, inv["coq"], cur)
        place = N_path(target)
        return "let '(%s, %s) := u8_parser_advance %s %s in\n%s" % (
            u2, o, rt, bt,
            em.write_place(e.recv, u2, env1, lambda env2: em.write_place(place, upd, env2, lambda env3: k("tt", ("unit",), env3))))
    return em.expr(e.args[1], env, k_byte)


m_u8_advance.mutates = True


def f_vec_with_capacity(em, e, env, k):
    """Vec::with_capacity(n) / String::with_capacity(n): the empty buffer (the capacity is evaluated, it may panic)"""
    if len(e.args) != 1:
        raise EmitError("with_capacity: expected 1 argument")
    return em.expr(e.args[0], env, lambda _t, _ty, env1: k("[]", BYTES, env1))


def m_list_extend(em, e, rt, rty, env, k):
    """Vec<u8>::extend(&[u8]): append"""
    if len(e.args) != 1:
        raise EmitError("extend: expected 1 argument")

    def k1(t, ty, env1):
        if ty != rty:
            raise EmitError("extend of %r by %r" % (rty, ty))
        return em.write_place(e.recv, "(%s ++ %s)" % (rt, t), env1, lambda env2: k("tt", ("unit",), env2))
    return em.expr(e.args[0], env, k1)


m_list_extend.mutates = True


def N_path(name):
    from rs2v.rparser import N
    return N("path", segs=[name])


VOCAB = {
    # a `match` whose arms are all pure values is a Gallina match expression (is_printable_bytes written as a match)
    "pure_match": True,
    "enums": P.VOCAB["enums"],
    "structs": {
        # pub(crate) struct Utf8Parser { utf8_parser: utf8parse::Parser }  ==  the decoder itself
        "Utf8Parser": {"coq": "u8parser", "var": "u", "fields": {
            "utf8_parser": ("u8p_inner", "set_u8p_inner", ("coq", "u8parser")),
        }},
        # struct VtUtf8Receiver<'a>(&'a mut bool)  ==  the bool it borrows
        "VtUtf8Receiver": {"coq": "bool", "var": "rcv", "fields": {
            "0": ("rcv_flag", "set_rcv_flag", BOOL),
        }},
        "StrippedStr": {"coq": "str_iter_st", "var": "it", "ctor": ("mkStrIt", ["bytes", "state"]), "fields": {
            "bytes": ("si_bytes", "set_si_bytes", BYTES),
            "state": ("si_state", "set_si_state", STATE),
        }},
        # pub struct StripStr { state: State }  ==  the state itself
        "StripStr": {"coq": "state", "var": "ss", "ctor": ("sstr_mk", ["state"]), "fields": {
            "state": ("sstr_state", "set_sstr_state", STATE),
        }},
        # pub struct StripBytes { state: State, utf8parser: Utf8Parser }
        "StripBytes": {"coq": "strip_bytes_st", "var": "sb", "ctor": ("mkStripBytesSt", ["state", "utf8parser"]), "fields": {
            "state": ("sbs_state", "set_sbs_state", STATE),
            "utf8parser": ("sbs_utf8", "set_sbs_utf8", U8P),
        }},
        "StripStrIter": {"coq": "str_iter_st", "var": "it", "ctor": ("mkStrIt", ["bytes", "state"]), "fields": {
            "bytes": ("si_bytes", "set_si_bytes", BYTES),
            "state": ("si_state", "set_si_state", STATE),
        }},
        "StrippedBytes": {"coq": "bytes_iter_st", "var": "it", "ctor": ("mkBytesIt", ["bytes", "state", "utf8parser"]), "fields": {
            "bytes": ("bi_bytes", "set_bi_bytes", BYTES),
            "state": ("bi_state", "set_bi_state", STATE),
            "utf8parser": ("bi_utf8", "set_bi_utf8", U8P),
        }},
        "StripBytesIter": {"coq": "bytes_iter_st", "var": "it", "ctor": ("mkBytesIt", ["bytes", "state", "utf8parser"]), "fields": {
            "bytes": ("bi_bytes", "set_bi_bytes", BYTES),
            "state": ("bi_state", "set_bi_state", STATE),
            "utf8parser": ("bi_utf8", "set_bi_utf8", U8P),
        }},
    },
    "type_alias": {"str": BYTES, "Item": BYTES, "Parser": ("coq", "u8parser")},
    # `Default::default()` by the type of the place it is assigned to
    "defaults": {repr(U8P): "u8_new", repr(("coq", "u8parser")): "u8_new", repr(STATE): "Ground"},
    "fns": {
        # anstyle_parse::state::definitions::unpack (transmute): hand model, pinned by token hash (as in gen_fn_parser.py)
        "unpack": P.VOCAB["fns"]["unpack"],
        "from_utf8_unchecked": f_from_utf8_unchecked,
        "VtUtf8Receiver": f_receiver_new,
        "Vec::with_capacity": f_vec_with_capacity,
        # `Default::default()` as the value of `fn new() -> Self` of a struct that derives Default: every field's default
        # (the derive attribute and the field list are read from the source, tools/glue_common.py)
        "Default::default": make_f_default({repr(STATE): "Ground", repr(U8P): "u8_new"}),
    },
    "methods": {
        ("coq", "advance"): m_u8_advance,
        ("list", "extend"): m_list_extend,
    },
    # `for x in <iterator struct>`: the items of the (translated) `next`, Model/Imp.v iter_drain; every item
    # but the last `None` consumes at least one byte, hence the fuel
    "iter_conv": {
        "StrippedBytes": ("(fun it => iter_drain g_stripped_bytes_next (S (length (bi_bytes it))) it)", True, BYTES),
        "StrippedStr": ("(fun it => iter_drain g_stripped_str_next (S (length (si_bytes it))) it)", True, BYTES),
    },
    "consts": {"STATE_CHANGES": P.VOCAB["consts"]["STATE_CHANGES"]},
    "opaque": {},
}

HEADER = "(* GENERATED by tools/gen_fn_strip.py (tools/rs2v) from crates/anstream/src/adapter/strip.rs and crates/anstyle-parse/src/state/mod.rs -- do not edit *)"
REQ = """From Coq Require Import NArith List Bool.
From AV Require Import Generated.Table Model.Base Model.Utf8parse Model.Parser Model.Strip Model.Imp.
Import ListNotations.
Local Open Scope N_scope.
Local Open Scope bool_scope."""

# functions that stay hand-modelled, pinned by token hash (a change = GEN-ERROR: re-read them)
OPAQUE = {
    # unsafe; std::str::from_utf8(..).expect(..) / std::str::from_utf8_unchecked are std internals.  The model
    # identifies a &str with its bytes: identity (f_from_utf8_unchecked)
    "from_utf8_unchecked": "19b1d8098e82fbf1",
    # std::fmt plumbing (Formatter, `?` on fmt::Result, write!): modelled by hand as "drain the iterator and
    # concatenate" (Model/Strip.v str_iter / strip_str_model; Proofs/StripGen.v g_str_drain)
    "StrippedStr::fmt": "2959344bfda9d87b",
    "StrippedStr::to_string": "e454a0d8509b6f5f",
}

TARGETS = [
    ("is_utf8_continuation", None, "g_is_utf8_continuation", {}),
    ("is_printable_bytes", None, "g_is_printable_bytes", {}),
    ("codepoint", "VtUtf8Receiver", "g_receiver_codepoint", {"trait": "Receiver"}),
    ("invalid_sequence", "VtUtf8Receiver", "g_receiver_invalid_sequence", {"trait": "Receiver"}),
    ("add", "Utf8Parser", "g_utf8_add", {}),
    ("next_str", None, "g_next_str", {}),
    ("next_bytes", None, "g_next_bytes", {}),
    ("new", "StrippedStr", "g_stripped_str_new", {}),
    ("strip_str", None, "g_strip_str", {}),
    ("new", "StrippedBytes", "g_stripped_bytes_new", {}),
    ("strip_bytes", None, "g_strip_bytes", {}),
    ("next", "StrippedStr", "g_stripped_str_next", {"trait": "Iterator"}),
    ("next", "StripStrIter", "g_strip_str_iter_next", {"trait": "Iterator"}),
    ("next", "StrippedBytes", "g_stripped_bytes_next", {"trait": "Iterator"}),
    ("next", "StripBytesIter", "g_strip_bytes_iter_next", {"trait": "Iterator"}),
    ("into_vec", "StrippedBytes", "g_stripped_bytes_into_vec", {}),
    ("is_empty", "StrippedBytes", "g_stripped_bytes_is_empty", {}),
    ("extend", "StrippedBytes", "g_stripped_bytes_extend", {}),
    ("new", "StripStr", "g_strip_str_new", {}),
    # strip_next returns a struct that borrows `&mut self.state`: the VALUE translation copies the current state into the
    # iterator (which field goes where is translated); that the drained iterator's state IS the StripStr's afterwards (the
    # copy-out the borrow means) is written out in Proofs/StripGen.v (gt_str_chunks / gt_bytes_chunks)
    ("strip_next", "StripStr", "g_strip_str_strip_next", {}),
    ("new", "StripBytes", "g_strip_bytes_new", {}),
    ("strip_next", "StripBytes", "g_strip_bytes_strip_next", {}),
]


def register(generators, gm):
    def gen():
        try:
            src = gm.read("crates/anstream/src/adapter/strip.rs")
            smod = gm.read("crates/anstyle-parse/src/state/mod.rs")
            defs = gm.read("crates/anstyle-parse/src/state/definitions.rs")
            shapes = {}
            # anstyle_parse::state::{state_change_, state_change}: translated here again (under their own
            # names) so that C01 / C03 depend on nothing else of Generated/ParserFn.v
            v0 = dict(VOCAB)
            v0["structs"] = {}
            out = [translate(smod, v0, [
                ("state_change_", None, "gs_state_change_", {}),
                ("state_change", None, "gs_state_change", {}),
            ], HEADER, REQ, shapes)]
            h = token_hash(fn_source(defs, "unpack"))
            if h != P.PIN_UNPACK:
                raise TranslateError("definitions::unpack changed (token hash %s, pinned %s): it is modelled by hand (transmute)" % (h, P.PIN_UNPACK))
            # the defaults the vocabulary names: `#[default] Ground` of `enum State`, `#[derive(Default)]` of Utf8Parser
            # (whose one field is utf8parse's decoder: u8_new)
            import re
            if not re.search(r"#\[default\]\s*Ground\b", defs) or len(re.findall(r"#\[default\]", defs.split("pub enum Action")[0])) != 1:
                raise TranslateError("definitions.rs: `#[default] Ground` of enum State not found (the vocabulary's default of State)")
            if not re.search(r"#\[derive\(Default\b[^\]]*\)\]\s*pub\(crate\)\s+struct\s+Utf8Parser\b", src):
                raise TranslateError("strip.rs: Utf8Parser no longer derives Default (the vocabulary's default of Utf8Parser)")
            v = dict(VOCAB)
            v["opaque"] = OPAQUE
            out.append(translate(src, v, TARGETS, "", "", shapes))
            return "\n".join(out) + "\n"
        except TranslateError as e:
            raise gm.GenError(str(e))
    generators["StripFn"] = gen
