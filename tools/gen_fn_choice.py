#!/usr/bin/env python3
"""Function translator, colour auto-detection (C09):

  crates/anstyle-query/src/lib.rs      clicolor, clicolor_force, no_color, term_supports_color,
                                       term_supports_ansi_color, truecolor, is_ci, non_empty
                                       (translated for the NON-Windows configuration: vocabulary
                                       `cfg_static: {windows: False}`; the #[cfg(windows)] blocks are skipped)
  crates/colorchoice/src/lib.rs        AtomicChoice::{from_choice, to_choice, new, get, set},
                                       ColorChoice::{global, write_global}, `static USER`
  crates/colorchoice-clap/src/lib.rs   Color::{as_choice, write_global}
  crates/anstream/src/auto.rs          fn choice(raw: &dyn RawStream), AutoStream::choice
  -> coq/Generated/ChoiceFn.v

All of them are TRANSLATED (tools/rs2v); nothing in this area is opaque.  Proofs/ChoiceGen.v proves
every translation equal to the hand model (Model/Choice.v) the theorems of C09 are about.

Vocabulary (what is named, not translated):
  * `std::env::var_os("X")` reads the abstract environment `e : ch_env` (the config parameter of every
    function of anstyle-query and of `choice`); an OsString / &OsStr is its bytes, `==` / `!=` with a
    string literal is ch_bytes_eq, `.is_empty()` ch_is_empty, `Option::unwrap_or_default()` ch_unwrap_or _ [];
  * `core::sync::atomic::AtomicUsize` is a register (ch_reg): `new` / `load(Ordering)` / `store(v, Ordering)`
    are ch_reg_new / ch_reg_load / ch_reg_store (the Ordering argument must be a path `Ordering::X`; one
    thread, one atomic: every ordering is sequential);
  * `static USER: AtomicChoice` is an extra parameter `USER` of every function that reaches it
    (vocabulary `statics` / `static_use`), threaded (returned) by those that write it; AtomicChoice::set takes
    `&self` and stores through interior mutability: it is translated like `&mut self` (`interior_mut`);
  * `raw: &dyn RawStream` is the answer of its `is_terminal()` (ch_raw);
  * clap's `ColorChoice` (the flag value) and `colorchoice::ColorChoice` are two enums: inside
    colorchoice-clap the bare name is the flag (`color_flag`), the path `colorchoice::ColorChoice[::X]`
    the choice (vocabulary `paths`, full-path `type_alias`)."""
import os
import sys

sys.path.insert(0, os.path.dirname(os.path.abspath(__file__)))
from rs2v.driver import translate, TranslateError   # noqa: E402
from rs2v.emit import EmitError, NeedsBind   # noqa: E402
from rs2v.rparser import parse_file, find_items, type_name   # noqa: E402

BOOL, UNIT, USZ, U8 = ("bool",), ("unit",), ("int", "usize"), ("int", "u8")
OSSTR = ("struct", "OsString")
CHOICE = ("enum", "ColorChoice")
CHOICES = ["Auto", "AlwaysAnsi", "Always", "Never"]
FLAGS = ["Auto", "Always", "Never"]
REG = ("struct", "AtomicUsize")
ATOMIC = ("struct", "AtomicChoice")


# -- the environment ------------------------------------------------------------
def f_var_os(em, e, env, k):
    if len(e.args) != 1 or e.args[0].kind != "str":
        raise EmitError("std::env::var_os: only a string literal is modelled as the variable name")
    bs = list(e.args[0].val)
    if not bs or any(b == 0 or b >= 128 for b in bs):
        raise EmitError("std::env::var_os: variable name empty, non-ASCII or with NUL")
    cn = em.v["config_param"][0]
    return k("(%s [%s])" % (cn, "; ".join(str(b) for b in bs)), ("opt", OSSTR), env)


def m_opt_unwrap_or_default(em, e, rt, rty, env, k):
    if rty == ("opt", BOOL):
        # <bool as Default>::default() = false
        return k("(ch_unwrap_or %s false)" % rt, BOOL, env)
    if rty != ("opt", OSSTR):
        raise EmitError("unwrap_or_default on %r: only Option<&OsStr> is modelled" % (rty,))
    return k("(ch_unwrap_or %s [])" % rt, OSSTR, env)


def m_os_is_empty(em, e, rt, rty, env, k):
    return k("(ch_is_empty %s)" % rt, BOOL, env)


# -- the atomic -----------------------------------------------------------------
def ordering_arg(a):
    if a.kind != "path" or len(a.segs) < 2 or a.segs[-2] != "Ordering":
        raise EmitError("atomic access: the ordering must be a path Ordering::X")


def f_atomic_usize_new(em, e, env, k):
    if len(e.args) != 1:
        raise EmitError("AtomicUsize::new takes one argument")
    return em.expr(e.args[0], env, lambda t, _ty, env1: k("(ch_reg_new %s)" % t, REG, env1))


def m_reg_load(em, e, rt, rty, env, k):
    if len(e.args) != 1:
        raise EmitError("load takes one argument")
    ordering_arg(e.args[0])
    return k("(ch_reg_load %s)" % rt, USZ, env)


def m_reg_store(em, e, rt, rty, env, k):
    if len(e.args) != 2:
        raise EmitError("store takes two arguments")
    ordering_arg(e.args[1])
    return em.expr(e.args[0], env, lambda t, _ty, env1: em.write_place(
        e.recv, "(ch_reg_store %s %s)" % (rt, t), env1, lambda env2: k("tt", UNIT, env2)))


m_reg_store.mutates = True


def f_self_ctor(em, e, env, k):
    """`Self(x)` inside `impl AtomicChoice`"""
    if em.self_struct != "AtomicChoice" or len(e.args) != 1:
        raise EmitError("Self(..): only the tuple struct AtomicChoice is modelled")
    return em.expr(e.args[0], env, lambda t, _ty, env1: k("(ch_atomic_mk %s)" % t, ATOMIC, env1))


# -- the raw stream ----------------------------------------------------------------
def m_raw_is_terminal(em, e, rt, rty, env, k):
    if rty != ("coq", "ch_raw") or e.args:
        raise EmitError("is_terminal on %r" % (rty,))
    return k("(ch_raw_is_terminal %s)" % rt, BOOL, env)


ENUM_CHOICE = {"coq": "choice", "var": "ch", "eqb": "ch_choice_eqb", "variants": {c: "Ch" + c for c in CHOICES}}
ENUM_FLAG = {"coq": "color_flag", "var": "fl", "eqb": "ch_flag_eqb", "variants": {f: "Fl" + f for f in FLAGS}}

STRUCT_OS = {"coq": "(list N)", "var": "s", "eqb": "ch_bytes_eq", "fields": {}, "check": False}

# crates/anstyle-query/src/lib.rs
V_QUERY = {
    "config_param": ("e", "ch_env"),
    "reserved": ["e"],
    "cfg_static": {"windows": False},
    "opt_eqb": "ch_opt_eqb",
    "type_alias": {"OsStr": OSSTR},
    "enums": {},
    "structs": {"OsString": STRUCT_OS},
    "consts": {},
    "fns": {"env::var_os": f_var_os},
    "methods": {
        ("opt", "unwrap_or_default"): m_opt_unwrap_or_default,
        ("OsString", "is_empty"): m_os_is_empty,
    },
    "opaque": {},
}

# crates/colorchoice/src/lib.rs
V_COLORCHOICE = {
    "enums": {"ColorChoice": ENUM_CHOICE},
    "structs": {
        "AtomicUsize": {"coq": "ch_reg", "var": "r", "fields": {}, "check": False},
        "AtomicChoice": {"coq": "ch_atomic", "var": "a", "fields": {"0": ("ac_f0", "set_ac_f0", REG)}},
    },
    "consts": {},
    # `Self::Auto` inside `impl Default for ColorChoice` (rustc rejects `Self::<variant>` in the impls of AtomicChoice)
    "paths": {"Self::" + c: ("Ch" + c, CHOICE) for c in CHOICES},
    "statics": {"USER": ATOMIC},
    "static_use": {"ColorChoice::global": [("USER", "in")], "ColorChoice::write_global": [("USER", "inout")]},
    "interior_mut": ["AtomicChoice::set"],
    "fns": {"AtomicUsize::new": f_atomic_usize_new, "Self": f_self_ctor},
    "methods": {
        ("AtomicUsize", "load"): m_reg_load,
        ("AtomicUsize", "store"): m_reg_store,
    },
    "opaque": {},
}

# crates/colorchoice-clap/src/lib.rs: the bare `ColorChoice` is clap's flag value
V_CLAP = {
    "enums": {"ColorChoice": ENUM_FLAG, "CcChoice": ENUM_CHOICE},
    "type_alias": {"colorchoice::ColorChoice": ("enum", "CcChoice")},
    "paths": {"colorchoice::ColorChoice::" + c: ("Ch" + c, ("enum", "CcChoice")) for c in CHOICES},
    "structs": {
        "AtomicChoice": {"coq": "ch_atomic", "var": "a", "fields": {}, "check": False},
        "Color": {"coq": "ch_clap_color", "var": "cl", "fields": {"color": ("cc_color", "set_cc_color", ("enum", "ColorChoice"))}},
    },
    "consts": {},
    "statics": {"USER": ATOMIC},
    "static_use": {"Color::write_global": [("USER", "inout")]},
    "fns": {},
    "methods": {},
    "opaque": {},
}

# crates/anstream/src/auto.rs
V_AUTO = {
    "config_param": ("e", "ch_env"),
    "reserved": ["e"],
    "enums": {"ColorChoice": ENUM_CHOICE},
    "structs": {"AtomicChoice": {"coq": "ch_atomic", "var": "a", "fields": {}, "check": False}},
    "consts": {},
    "param_types": {"raw": ("coq", "ch_raw")},
    "opt_eqb": "ch_opt_eqb",      # `clicolor == Some(true)`: Option<bool> compared with `==`
    "statics": {"USER": ATOMIC},
    "static_use": {"choice": [("USER", "in")], "AutoStream::choice": [("USER", "in")]},
    "fns": {},
    "methods": {("coq", "is_terminal"): m_raw_is_terminal, ("opt", "unwrap_or_default"): m_opt_unwrap_or_default},
    "opaque": {},
}

HEADER = ("(* GENERATED by tools/gen_fn_choice.py (tools/rs2v) from crates/anstyle-query/src/lib.rs, crates/colorchoice/src/lib.rs,\n"
          "   crates/colorchoice-clap/src/lib.rs, crates/anstream/src/auto.rs -- do not edit *)")
REQ = """From Coq Require Import NArith List Bool.
From AV Require Import Spec.Choice Generated.Choice Model.Base Model.Imp Model.Choice.
Import ListNotations.
Local Open Scope N_scope.
Local Open Scope bool_scope."""


# The TYPE of a translated function is part of the statements of Proofs/ChoiceGen.v and Props/C09.v
# (`g_f e = Some (ch_f e)` | `g_f e = ch_f e`), so it must not depend on how the body is spelled:
#   * the functions the lemmas state in the option monad are translated with `monadic` (forced), whatever their body
#     needs -- a rewrite that happens to need no bind (`if let` for `match .. { None => .. }`) keeps the type;
#   * the others (non_empty, clicolor_force, no_color, truecolor, is_ci, ColorChoice::default) are total, and stay
#     total when a rewrite introduces a statement-level branch / an inlined helper with early returns
#     (`total_joins`, emit.py resolve_joins).
MON = {"monadic": True}
for _v in (V_QUERY, V_COLORCHOICE, V_CLAP, V_AUTO):
    _v["total_joins"] = True


def check_enum(src, name, variants, what):
    """the Rust enum has exactly the variants the vocabulary names (all without payload)"""
    ens = find_items(parse_file(src), "enum", name)
    if len(ens) != 1:
        raise TranslateError("%s: enum %s: %d definitions" % (what, name, len(ens)))
    got = [v[0] for v in ens[0].variants]
    if any(v[1] for v in ens[0].variants) or sorted(got) != sorted(variants):
        raise TranslateError("%s: enum %s has variants %r, the vocabulary models %r" % (what, name, got, variants))


def check_static_user(src):
    """`static USER: AtomicChoice = AtomicChoice::new();` -> the initial value of the extra parameter USER"""
    cs = [c for c in find_items(parse_file(src), "const", "USER")]
    if len(cs) != 1:
        raise TranslateError("static USER: %d definitions" % len(cs))
    c = cs[0]
    v = c.val
    if c.ty is None or type_name(c.ty) != "AtomicChoice" or v is None or v.kind != "call" or v.args or v.f.kind != "path" \
            or v.f.segs != ["AtomicChoice", "new"]:
        raise TranslateError("static USER is no longer `AtomicChoice = AtomicChoice::new()`")


def register(generators, gm):
    def gen():
        try:
            query = gm.read("crates/anstyle-query/src/lib.rs")
            cc = gm.read("crates/colorchoice/src/lib.rs")
            clap = gm.read("crates/colorchoice-clap/src/lib.rs")
            auto = gm.read("crates/anstream/src/auto.rs")
            shapes = {}
            out = []
            out.append(translate(query, V_QUERY, [
                ("non_empty", None, "g_non_empty", {}),
                ("clicolor", None, "g_clicolor", MON),
                ("clicolor_force", None, "g_clicolor_force", {}),
                ("no_color", None, "g_no_color", {}),
                ("term_supports_color", None, "g_term_supports_color", MON),
                ("term_supports_ansi_color", None, "g_term_supports_ansi_color", MON),
                ("truecolor", None, "g_truecolor", {}),
                ("is_ci", None, "g_is_ci", {}),
            ], HEADER, REQ, shapes))
            check_enum(cc, "ColorChoice", CHOICES, "colorchoice")
            check_static_user(cc)
            out.append(translate(cc, V_COLORCHOICE, [
                ("from_choice", "AtomicChoice", "g_from_choice", MON),
                ("to_choice", "AtomicChoice", "g_to_choice", MON),
                ("new", "AtomicChoice", "g_atomic_new", MON),
                ("get", "AtomicChoice", "g_atomic_get", MON),
                ("set", "AtomicChoice", "g_atomic_set", MON),
                ("global", "ColorChoice", "g_global", MON),
                ("write_global", "ColorChoice", "g_write_global", MON),
                ("default", "ColorChoice", "g_choice_default", {"trait": "Default"}),
                ("default", "AtomicChoice", "g_atomic_default", dict(MON, trait="Default")),
            ], "", "", shapes))
            out.append("(* static USER: AtomicChoice = AtomicChoice::new(); *)\nDefinition g_user_initial : %sch_atomic := g_atomic_new.\n"
                       % ("" if shapes["AtomicChoice::new"]["total"] else "option "))
            # colorchoice_clap and anstream name the choice enum through another path
            shapes["CcChoice::write_global"] = shapes["ColorChoice::write_global"]
            out.append(translate(clap, V_CLAP, [
                ("as_choice", "Color", "g_as_choice", MON),
                ("write_global", "Color", "g_color_write_global", MON),
            ], "", "", shapes))
            out.append(translate(auto, V_AUTO, [
                ("choice", None, "g_choice", MON),
                ("choice", "AutoStream", "g_autostream_choice", MON),
            ], "", "", shapes))
            return "\n".join(out) + "\n"
        except TranslateError as e:
            raise gm.GenError(str(e))
    generators["ChoiceFn"] = gen
