"""Translator, text-parser part (C11 / C12):

  crates/anstyle-ls/src/lib.rs   -> coq/Generated/Ls.v   (code -> action arms of `parse`)
  crates/anstyle-git/src/lib.rs  -> coq/Generated/Git.v  (keyword arms of `parse`, name arms of `parse_color`)

Hooked into tools/gen_model.py by `register(GENERATORS, <gen_model module>)`; the
helpers (GenError, read, strip_comments) are taken from that module so that a
shape that is not recognised is reported as the same GEN-ERROR.
"""
import re


def register(generators, gm):
    GenError = gm.GenError

    # ---------------------------------------------------------------- shared
    def effect_bits():
        src = gm.strip_comments(gm.read("crates/anstyle/src/effect.rs"))
        bits = {}
        for name, sh in re.findall(r"pub const (\w+)\s*:\s*Self\s*=\s*Effects\(1 << (\d+)\);", src):
            bits[name] = int(sh)
        if len(bits) != 12 or sorted(bits.values()) != list(range(12)):
            raise GenError("effect.rs: expected 12 effect constants `Effects(1 << i)`, i = 0..11; found %r" % bits)
        return bits

    def ansi_colors():
        src = gm.strip_comments(gm.read("crates/anstyle/src/color.rs"))
        m = re.search(r"pub enum AnsiColor\s*\{(.*?)\}", src, re.S)
        if not m:
            raise GenError("color.rs: enum AnsiColor not found")
        names = [p.strip() for p in re.sub(r"#\[[^\]]*\]", "", m.group(1)).split(",") if p.strip()]
        if len(names) != 16 or not all(re.fullmatch(r"\w+", n) for n in names):
            raise GenError("color.rs: AnsiColor is not 16 plain variants: %r" % names)
        return {n: i for i, n in enumerate(names)}

    def match_block(src, head_re, what):
        """body (between the braces) of the first `match <head> {` whose head matches"""
        m = re.search(head_re + r"\s*\{", src)
        if not m:
            raise GenError("%s: match head not found" % what)
        i = m.end()
        depth = 1
        j = i
        in_str = False
        while j < len(src) and depth:
            c = src[j]
            if in_str:
                if c == "\\":
                    j += 1
                elif c == '"':
                    in_str = False
            elif c == '"':
                in_str = True
            elif c == "'" and j + 2 < len(src) and src[j + 2] == "'":
                j += 2
            elif c == "{":
                depth += 1
            elif c == "}":
                depth -= 1
            j += 1
        if depth:
            raise GenError("%s: unbalanced braces" % what)
        return src[i:j - 1]

    def split_arms(body, what):
        """top-level `pattern => expression` arms of a match body"""
        arms = []
        i = 0
        n = len(body)
        while True:
            while i < n and body[i] in " \t\r\n,":
                i += 1
            if i >= n:
                break
            k = body.find("=>", i)
            if k < 0:
                raise GenError("%s: arm without `=>` near %r" % (what, body[i:i + 40]))
            pat = body[i:k].strip()
            j = k + 2
            while j < n and body[j] in " \t\r\n":
                j += 1
            start = j
            depth = 0
            in_str = False
            seen_block_end = False
            while j < n:
                c = body[j]
                if in_str:
                    if c == "\\":
                        j += 1
                    elif c == '"':
                        in_str = False
                elif c == '"':
                    in_str = True
                elif c == "'" and j + 2 < n and body[j + 2] == "'":
                    j += 2
                elif c in "({[":
                    depth += 1
                elif c in ")}]":
                    depth -= 1
                    if depth == 0 and c == "}":
                        # a block (or `match .. {}`) arm ends at its closing brace
                        j += 1
                        seen_block_end = True
                        break
                elif c == "," and depth == 0:
                    break
                j += 1
            if depth != 0 and not seen_block_end:
                raise GenError("%s: unbalanced arm %r" % (what, pat))
            arms.append((pat, body[start:j].strip()))
            i = j
        return arms

    def fn_end(body):
        """`body` starts just after the `{` of a function: offset just after the matching `}` (None: unbalanced)"""
        depth, j, in_str = 1, 0, False
        while j < len(body) and depth:
            c = body[j]
            if in_str:
                if c == "\\":
                    j += 1
                elif c == '"':
                    in_str = False
            elif c == '"':
                in_str = True
            elif c == "'" and j + 2 < len(body) and body[j + 2] == "'":
                j += 2
            elif c == "{":
                depth += 1
            elif c == "}":
                depth -= 1
            j += 1
        return None if depth else j

    def squash(s):
        return re.sub(r"\s+", "", s)

    def coq_word(bs):
        return "[" + "; ".join(str(b) for b in bs) + "]"

    def str_lit(pat, what):
        m = re.fullmatch(r'"((?:[^"\\]|\\.)*)"', pat.strip())
        if not m:
            raise GenError("%s: not a string literal: %r" % (what, pat))
        bs = gm.rust_str_bytes(m.group(1))
        if any(b >= 128 for b in bs):
            raise GenError("%s: non-ASCII keyword %r" % (what, pat))
        return list(bs)

    # ------------------------------------------------------------------- Ls
    def gen_ls():
        rel = "crates/anstyle-ls/src/lib.rs"
        src = gm.strip_comments(gm.read(rel))
        bits = effect_bits()
        ansi = ansi_colors()
        fm = re.search(r"pub fn parse\(code: &str\) -> Option<anstyle::Style>\s*\{", src)
        if not fm:
            raise GenError("parse: signature not recognised")
        body = src[fm.end():]
        tm = re.search(r"#\[cfg\(test\)\]", body)
        if tm:
            body = body[:tm.start()]
        # the body of `parse` ends at ITS closing brace: private helper functions may follow it (they are read below
        # only through the calls of `parse`; unchanged source: nothing follows, `body` is the same text)
        rest_items = ""
        end = fn_end(body)
        if end is not None and body[end:].strip():
            body, rest_items = body[:end], body[end:]
        sq = squash(body)
        # early return on literal strings
        em = re.match(r'if(code\.is_empty\(\))((?:\|\|code=="[^"]*")*)\{returnNone;\}', sq)
        if not em:
            raise GenError("parse: early `return None` condition not recognised")
        none_strings = [[]] + [list(gm.rust_str_bytes(x)) for x in re.findall(r'code=="([^"]*)"', em.group(2))]
        # all-or-nothing numeric split
        # (the control flow around the arms -- the queue, the loop, the look-ahead -- is tied by the function translator
        # tools/gen_fn_text.py / Proofs/LsGen.v; here it is only located, in either spelling of the queue:
        # a VecDeque with pop_front, or a Vec consumed through into_iter() / next())
        sm = re.search(r"letmutparts:std::collections::VecDeque<u8>=code\.split\('(.)'\)\.map\(\|c\|c\.parse::<u8>\(\)\.ok\(\)\)\.collect::<Option<_>>\(\)\?;", sq) or \
            re.search(r"let(\w+):Vec<u8>=code\.split\('(?P<sep>.)'\)\.map\(\|c\|c\.parse::<u8>\(\)\.ok\(\)\)\.collect::<Option<_>>\(\)\?;letmutparts=\1\.into_iter\(\);", sq)
        if not sm:
            raise GenError("parse: split/parse::<u8>/collect::<Option<_>>()? not recognised")
        sep = ord(sm.groupdict().get("sep") or sm.group(1))
        if not re.search(r"letmuteffects=anstyle::Effects::new\(\);letmutfg_color:Option<anstyle::Color>=None;"
                         r"letmutbg_color:Option<anstyle::Color>=None;letmutunderline_color:Option<anstyle::Color>=None;", sq):
            raise GenError("parse: initial values of effects / colours not recognised")
        if not re.search(r"whileletSome\(part\)=parts\.(?:pop_front|next)\(\)\{matchpart\{", sq):
            raise GenError("parse: `while let Some(part) = parts.pop_front()` loop not recognised")
        if not re.search(r"Some\(anstyle::Style::new\(\)\.fg_color\(fg_color\)\.bg_color\(bg_color\)\.underline_color\(underline_color\)\.effects\(effects\),?\)\}$", sq):
            raise GenError("parse: final `Some(Style::new()...)` not recognised")
        arms = split_arms(match_block(body, r"match\s+part", "parse"), "parse")
        targets = {"fg_color": "TFg", "bg_color": "TBg", "underline_color": "TUl"}
        out = []
        seen = set()
        wildcard = False
        lookahead_tied = []
        for pat, rhs in arms:
            if wildcard:
                raise GenError("arm after the wildcard arm")
            r = squash(rhs)
            if pat == "_":
                if r != "{}":
                    raise GenError("wildcard arm is not `{}`: %r" % rhs)
                wildcard = True
                continue
            if not re.fullmatch(r"\d+", pat):
                raise GenError("arm pattern is not a decimal literal: %r" % pat)
            code = int(pat)
            if code in seen or code > 255:
                raise GenError("duplicate or out-of-range arm %d" % code)
            seen.add(code)
            m = re.fullmatch(r"effects\|=anstyle::Effects::(\w+)", r)
            if m:
                if m.group(1) not in bits:
                    raise GenError("arm %d: unknown effect %s" % (code, m.group(1)))
                out.append((code, "LsInsert %d" % bits[m.group(1)]))
                continue
            m = re.fullmatch(r"\{effects=effects((?:\.remove\(anstyle::Effects::\w+\))+);\}", r)
            if m:
                names = re.findall(r"\.remove\(anstyle::Effects::(\w+)\)", m.group(1))
                for nm in names:
                    if nm not in bits:
                        raise GenError("arm %d: unknown effect %s" % (code, nm))
                out.append((code, "LsRemove [%s]" % "; ".join(str(bits[nm]) for nm in names)))
                continue
            if r == "{effects=Default::default();fg_color=Default::default();bg_color=Default::default();underline_color=Default::default();}":
                out.append((code, "LsReset"))
                continue
            m = re.fullmatch(r"(\w+)=Some\(anstyle::AnsiColor::(\w+)\.into\(\)\)", r)
            if m:
                if m.group(1) not in targets or m.group(2) not in ansi:
                    raise GenError("arm %d: unknown target or colour: %r" % (code, rhs))
                out.append((code, "LsSetAnsi %s %d" % (targets[m.group(1)], ansi[m.group(2)])))
                continue
            m = re.fullmatch(r"(\w+)=None", r)
            if m:
                if m.group(1) not in targets:
                    raise GenError("arm %d: unknown target %r" % (code, rhs))
                out.append((code, "LsClear %s" % targets[m.group(1)]))
                continue
            m = re.fullmatch(
                r"match\(parts\.(?:pop_front|next)\(\),parts\.(?:pop_front|next)\(\)\)\{"
                r"\(Some\(5\),Some\(color\)\)=>\{?(\w+)=Some\(anstyle::Ansi256Color\(color\)\.into\(\)\);?\}?,?"
                r"\(Some\(2\),Some\(red\)\)=>match\(parts\.(?:pop_front|next)\(\),parts\.(?:pop_front|next)\(\)\)\{"
                r"\(Some\(green\),Some\(blue\)\)=>\{(\w+)=Some\(anstyle::RgbColor\(red,green,blue\)\.into\(\)\);\}"
                r"_=>\{break;\}\},"
                r"_=>\{break;\}\}", r)
            if m:
                if m.group(1) != m.group(2) or m.group(1) not in targets:
                    raise GenError("arm %d: extended-colour arm assigns %s / %s" % (code, m.group(1), m.group(2)))
                out.append((code, "LsExtended %s" % targets[m.group(1)]))
                continue
            # the look-ahead arm in another spelling (a private helper over `&mut parts`, early `continue`, `if let`, ..):
            # the DATA of the arm is the one colour variable it assigns (read here, strictly: exactly one of the three, and
            # not `effects`); that it is a look-ahead arm is seen from the queue being consumed -- in the arm itself or in a
            # private function of the file that the arm hands `&mut parts` to.  WHAT the look-ahead does (`5;n`, `2;r;g;b`,
            # `break` otherwise) is a body shape: tied by the function translator (the helper is inlined into g_ls_parse) and
            # Proofs/LsGen.v, which proves the translation equal to the hand model's LsExtended arm.
            assigned = set(re.findall(r"(?<![\w.])(\w+)=(?!=)", re.sub(r"[=!<>]=|=>", "#", r)))
            assigned |= set(re.findall(r"&mut(\w+)", r)) - {"parts"}      # a variable lent `&mut` to a helper counts as assigned
            consumes = bool(re.search(r"\bparts\.(?:pop_front|next)\(\)", r))
            for callee in re.findall(r"(?<![\w.:])(\w+)\s*\((?=[^()]*&mut\s+parts\b)", rhs):
                hm = re.search(r"\bfn\s+%s\s*\(([^)]*)\)[^{;]*\{" % re.escape(callee), rest_items)
                qm = hm and re.search(r"(\w+)\s*:\s*&mut\s+(?:std::collections::VecDeque<u8>|std::vec::IntoIter<u8>)", hm.group(1))
                if not qm:
                    raise GenError("arm %d: %s(.. &mut parts ..): no private function of the file with that name over the queue" % (code, callee))
                hend = fn_end(rest_items[hm.end():])
                if hend is not None and re.search(r"\b%s\.(?:pop_front|next)\(\)" % qm.group(1), rest_items[hm.end():hm.end() + hend]):
                    consumes = True
            if consumes and len(assigned) == 1 and assigned <= set(targets):
                if not lookahead_tied:
                    gm.takes_over("LsFn", "arm %d: body not recognised: %r" % (code, rhs[:120]))
                    lookahead_tied.append(True)
                out.append((code, "LsExtended %s" % targets[assigned.pop()]))
                continue
            raise GenError("arm %d: body not recognised: %r" % (code, rhs[:120]))
        if not wildcard:
            raise GenError("no wildcard arm `_ => {}`")
        if not out:
            raise GenError("no arms")
        o = [gm.HEADER % rel + "(* plus crates/anstyle/src/{effect.rs,color.rs} for the effect bit numbers and the AnsiColor order *)\n"]
        o.append("From Coq Require Import NArith List.\nImport ListNotations.\nLocal Open Scope N_scope.\n")
        o.append("Inductive ls_target : Set := TFg | TBg | TUl.\n")
        o.append("(* one arm of `match part`: effect bits are bit indices of anstyle::Effects,\n"
                 "   colours are indices of anstyle::AnsiColor in declaration order *)\n"
                 "Inductive ls_action : Set :=\n"
                 "  | LsReset                                  (* all four variables = Default::default() *)\n"
                 "  | LsInsert (bit : N)                       (* effects |= Effects::X *)\n"
                 "  | LsRemove (bits : list N)                 (* effects = effects.remove(X).remove(Y).. *)\n"
                 "  | LsSetAnsi (t : ls_target) (idx : N)      (* t = Some(AnsiColor::X.into()) *)\n"
                 "  | LsClear (t : ls_target)                  (* t = None *)\n"
                 "  | LsExtended (t : ls_target).              (* the pop_front look-ahead for ;5;n and ;2;r;g;b, `break` otherwise *)\n")
        o.append("Definition ls_arms : list (N * ls_action) :=\n" + gm.coq_list(["(%d, %s)" % (c, a) for c, a in out], 4, "  ") + ".\n")
        o.append("(* the wildcard arm is `_ => {}` (checked by the translator) *)\n")
        o.append("Definition ls_none_strings : list (list N) := [%s].\n" % "; ".join(coq_word(w) for w in none_strings))
        o.append("Definition ls_separator : N := %d.\n" % sep)
        return "\n".join(o)

    # ------------------------------------------------------------------ Git
    def hex_data_loose(arm, src):
        """(prefix character, [lengths], {radices}) of the '#' branch of parse_color, read off the wildcard arm `arm` and the
        bodies of the private functions of `src` it calls (transitively)"""
        texts, work, seen = [arm], [arm], {"parse", "parse_color"}
        while work:
            t = work.pop()
            for name in re.findall(r"(?<![\w.:])([a-z_]\w*)\s*\(", t):
                if name in seen:
                    continue
                seen.add(name)
                hm = re.search(r"\bfn\s+%s\s*\([^)]*\)[^{;]*\{" % re.escape(name), src)
                if hm:
                    end = fn_end(src[hm.end():])
                    if end is None:
                        raise GenError("parse_color: fn %s: unbalanced braces" % name)
                    texts.append(src[hm.end():hm.end() + end])
                    work.append(texts[-1])
        region = "\n".join(texts)
        prefixes = set(re.findall(r"\.strip_prefix\(\s*'([^'\\])'\s*\)", region))
        if len(prefixes) != 1 or len(re.findall(r"\.strip_prefix\(", region)) != len(re.findall(r"\.strip_prefix\(\s*'[^'\\]'\s*\)", region)):
            raise GenError("parse_color: expected one `strip_prefix('<character>')` prefix, found %r" % sorted(prefixes))
        radices = []
        for m in re.finditer(r"\bfrom_str_radix\s*\(", region):
            if not region[:m.start()].endswith("u8::"):
                raise GenError("parse_color: from_str_radix of another type than u8")
            depth, j = 1, m.end()
            comma = None
            while j < len(region) and depth:
                c = region[j]
                if c in "([{":
                    depth += 1
                elif c in ")]}":
                    depth -= 1
                elif c == "," and depth == 1:
                    comma = j
                j += 1
            lit = region[comma + 1:j - 1].strip().rstrip(",").strip() if comma is not None else ""
            if depth or not re.fullmatch(r"\d+", lit):
                raise GenError("parse_color: radix of from_str_radix is not a decimal literal: %r" % lit)
            radices.append(int(lit))
        if not radices:
            raise GenError("parse_color: no u8::from_str_radix in the '#' branch")
        # the lengths: literals compared with `<x>.len()` (directly, through a `let v = <x>.len();`, or as the arm
        # patterns of a `match` on either), in the order written
        lvars = re.findall(r"\blet\s+(?:mut\s+)?(\w+)\s*(?::\s*usize\s*)?=\s*\w+\.len\(\)\s*;", region)
        subj = r"(?:\b\w+\.len\(\)" + "".join(r"|\b%s\b" % re.escape(v) for v in lvars) + ")"
        found = []
        for m in re.finditer(subj + r"\s*(?:!=|==)\s*(\d+)\b|\b(\d+)\s*(?:!=|==)\s*" + subj, region):
            found.append((m.start(), int(m.group(1) or m.group(2))))
        for m in re.finditer(r"\bmatch\s+" + subj + r"\s*\{", region):
            blk = match_block(region[m.start():], r"match\s+" + subj, "parse_color (length)")
            for pat, _rhs in split_arms(blk, "parse_color (length)"):
                if re.fullmatch(r"\d+(\s*\|\s*\d+)*", pat):
                    found.extend((m.start(), int(x)) for x in re.findall(r"\d+", pat))
                elif pat != "_" and not re.fullmatch(r"\w+", pat):
                    raise GenError("parse_color: length arm %r is not a list of literals" % pat)
        lens = []
        for _pos, n in sorted(found, key=lambda x: x[0]):
            if n not in lens:
                lens.append(n)
        if not lens:
            raise GenError("parse_color: no literal the length of the '#' digits is compared with")
        return prefixes.pop(), lens, set(radices)

    def gen_git():
        rel = "crates/anstyle-git/src/lib.rs"
        src = gm.strip_comments(gm.read(rel))
        bits = effect_bits()
        ansi = ansi_colors()
        tm = re.search(r"#\[cfg\(test\)\]", src)
        if tm:
            src = src[:tm.start()]
        pm = re.search(r"pub fn parse\(s: &str\) -> Result<anstyle::Style, Error>\s*\{", src)
        cm = re.search(r"fn parse_color\(word: &str\) -> Result<Option<anstyle::Color>, \(\)>\s*\{", src)
        if not pm or not cm or cm.start() < pm.start():
            raise GenError("parse / parse_color: signatures not recognised")
        pbody = src[pm.end():cm.start()]
        cbody = src[cm.end():]
        psq = squash(pbody)
        if not psq.startswith("letmutstyle=anstyle::Style::new();letmutnum_colors=0;letmuteffects=anstyle::Effects::new();"
                              "forwordins.split_whitespace(){matchword.to_lowercase().as_ref(){"):
            raise GenError("parse: prologue (split_whitespace / to_lowercase) not recognised")
        if not psq.endswith("style|=effects;Ok(style)}"):
            raise GenError("parse: epilogue `style |= effects; Ok(style)` not recognised")
        arms = split_arms(match_block(pbody, r"match\s+word\.to_lowercase\(\)\.as_ref\(\)", "parse"), "parse")
        kws = []
        seen = set()
        last = None
        for idx, (pat, rhs) in enumerate(arms):
            r = squash(rhs)
            if re.fullmatch(r"\w+", pat):
                if idx != len(arms) - 1:
                    raise GenError("catch-all arm is not last")
                last = (pat, r)
                continue
            m = re.fullmatch(r"\{effects=effects\.(insert|remove)\(anstyle::Effects::(\w+)\);\}", r)
            if not m:
                raise GenError("keyword arm %r: body not recognised: %r" % (pat, rhs[:100]))
            if m.group(2) not in bits:
                raise GenError("keyword arm %r: unknown effect %s" % (pat, m.group(2)))
            for alt in pat.split("|"):
                w = str_lit(alt, "keyword arm")
                if tuple(w) in seen:
                    raise GenError("duplicate keyword %r" % alt)
                if any(65 <= b <= 90 for b in w):
                    raise GenError("keyword %r is not lower case" % alt)
                seen.add(tuple(w))
                kws.append((alt.strip(), w, m.group(1) == "insert", bits[m.group(2)]))
        if last is None:
            raise GenError("no catch-all arm")
        want = ("{ifletOk(color)=parse_color(%s){matchnum_colors{0=>{style=style.fg_color(color);num_colors+=1;}"
                "1=>{style=style.bg_color(color);num_colors+=1;}"
                "_=>{returnErr(Error::ExtraColor{style:s.to_owned(),word:word.to_owned(),});}}}"
                "else{returnErr(Error::UnknownWord{style:s.to_owned(),word:word.to_owned(),});}}") % last[0]
        if last[1] != want:
            raise GenError("catch-all arm (colour slots / errors) not recognised")
        # parse_color
        carms = split_arms(match_block(cbody, r"let color = match\s+word", "parse_color"), "parse_color")
        names = []
        cseen = set()
        fallback = None
        for idx, (pat, rhs) in enumerate(carms):
            r = squash(rhs)
            if pat == "_":
                if idx != len(carms) - 1:
                    raise GenError("parse_color: wildcard arm is not last")
                fallback = r
                continue
            w = str_lit(pat, "parse_color arm")
            if tuple(w) in cseen:
                raise GenError("parse_color: duplicate name %r" % pat)
            cseen.add(tuple(w))
            if r == "None":
                names.append((pat, w, "None"))
                continue
            m = re.fullmatch(r"Some\(anstyle::AnsiColor::(\w+)\.into\(\)\)", r)
            if not m or m.group(1) not in ansi:
                raise GenError("parse_color arm %r: body not recognised: %r" % (pat, rhs))
            names.append((pat, w, "Some %d" % ansi[m.group(1)]))
        if fallback is None:
            raise GenError("parse_color: no wildcard arm")
        fm = re.fullmatch(
            r"\{ifletSome\(hex\)=word\.strip_prefix\('(.)'\)\{letl=hex\.len\(\);if((?:l!=\d+)(?:&&l!=\d+)*)\{returnErr\(\(\)\);\}"
            r"if!hex\.bytes\(\)\.all\(\|b\|b\.is_ascii_hexdigit\(\)\)\{returnErr\(\(\)\);\}"
            r"letl=l/3;iflet\(Ok\(r\),Ok\(g\),Ok\(b\)\)=\("
            r"u8::from_str_radix\(&hex\[0\.\.l\],(\d+)\),u8::from_str_radix\(&hex\[l\.\.\(2\*l\)\],(\d+)\),u8::from_str_radix\(&hex\[\(2\*l\)\.\.\(3\*l\)\],(\d+)\),\)"
            r"\{Some\(anstyle::Color::from\(\(r,g,b\)\)\)\}else\{returnErr\(\(\)\);\}\}"
            r"elseifletOk\(n\)=word\.parse::<u8>\(\)\{Some\(anstyle::Color::from\(n\)\)\}else\{returnErr\(\(\)\);\}\}", fallback)
        if not fm:
            # another spelling of the fall-back (a private helper for the '#' digits, `match hex.len()`, `split_at`, `?`, ..):
            # HOW the word is cut and converted is a body shape -- tied by the function translator (GitFn translates
            # parse_color with its helpers inlined) and Proofs/GitGen.v, which proves that translation equal to the hand model
            # over the three numbers below.  The numbers are still READ, each one strictly, off the wildcard arm and the private
            # functions it calls: the one prefix character, the one radix, the literals the byte length is compared with.
            gm.takes_over("GitFn", "parse_color: '#'-word / number fall-back not recognised")
            prefix, lens, radices = hex_data_loose(carms[-1][1], src)
        else:
            prefix = fm.group(1)
            lens = [int(x) for x in re.findall(r"l!=(\d+)", fm.group(2))]
            radices = {int(fm.group(3)), int(fm.group(4)), int(fm.group(5))}
        if not squash(cbody).startswith("letcolor=matchword{") or "};Ok(color)}" not in squash(cbody):
            gm.takes_over("GitFn", "parse_color: `let color = match word {..}; Ok(color)` not recognised")
        if len(radices) != 1:
            raise GenError("parse_color: three different radices")
        o = [gm.HEADER % rel + "(* plus crates/anstyle/src/{effect.rs,color.rs} for the effect bit numbers and the AnsiColor order *)\n"]
        o.append("From Coq Require Import NArith List.\nImport ListNotations.\nLocal Open Scope N_scope.\n")
        o.append("(* keyword arms of `parse`: word (ASCII bytes = code points), true = insert / false = remove, effect bit index *)\n"
                 "Definition git_keywords : list (list N * (bool * N)) :=\n" +
                 gm.coq_list(["(%s (* %s *), (%s, %d))" % (coq_word(w), lit.strip('"'), "true" if ins else "false", bit) for lit, w, ins, bit in kws], 1, "  ") + ".\n")
        o.append("(* name arms of `parse_color`: None = Ok(None), Some i = Ok(Some(AnsiColor #i)) *)\n"
                 "Definition git_color_names : list (list N * option N) :=\n" +
                 gm.coq_list(["(%s (* %s *), %s)" % (coq_word(w), lit.strip('"'), v) for lit, w, v in names], 1, "  ") + ".\n")
        o.append("Definition git_hex_prefix : N := %d.\n" % ord(prefix))
        o.append("Definition git_hex_lens : list N := [%s].\n" % "; ".join(str(x) for x in lens))
        o.append("Definition git_hex_radix : N := %d.\n" % radices.pop())
        return "\n".join(o)

    generators["Ls"] = gen_ls
    generators["Git"] = gen_git
